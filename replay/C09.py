"""C09 replay / bounded stand-in: generated Modelica models with connection graphs (component connectors, top-level
connectors, a nested level with its own connect clauses) are parsed and flattened by the real code; the flat equations
are read as a homogeneous linear system and compared with the reference connection-set system by rank."""
import json
import logging
import sys

import numpy as np

POT, FLOW = ("v", "w"), ("i", "j")

HEADER = """
connector Pin
  Real v;
  Real w;
  flow Real i;
  flow Real j;
end Pin;
model Comp
  Pin p;
  Pin n;
end Comp;
"""


# name of the nested instance: "s", and a name that contains every character of the names of the components inside it (what a
# component is called must not decide which side of it a connector is on)
INST = "s"
INST_NAMES = ("s", "a01s")


def model_text(ncomp, ntop, top_clauses, sub=None):
    """sub: None or (n inner components, clauses inside Sub using 'a<k>.p/n' and 'ext1'/'ext2')"""
    txt = HEADER
    if sub:
        txt += "model Sub\n" + "".join("  Comp a%d;\n" % k for k in range(sub[0])) + "  Pin ext1;\n  Pin ext2;\nequation\n" + \
            "".join("  connect(%s, %s);\n" % c for c in sub[1]) + "end Sub;\n"
    txt += "model Top\n" + "".join("  Comp c%d;\n" % k for k in range(ncomp)) + "".join("  Pin q%d;\n" % k for k in range(ntop))
    if sub:
        txt += "  Sub %s;\n" % INST
    txt += "equation\n" + "".join("  connect(%s, %s);\n" % c for c in top_clauses) + "end Top;\n"
    return txt


def connectors(ncomp, ntop, sub):
    out = ["c%d.%s" % (k, s) for k in range(ncomp) for s in "pn"] + ["q%d" % k for k in range(ntop)]
    if sub:
        out += ["%s.a%d.%s" % (INST, k, s) for k in range(sub[0]) for s in "pn"] + [INST + ".ext1", INST + ".ext2"]
    return out


def reference_rows(index, ncomp, ntop, top_clauses, sub):
    """rows of the reference system: potentials equal per set, sum(inside) - sum(outside) = 0 per set, unconnected flows zero"""
    nodes = []          # (flat connector name, inside flag) per clause end
    clauses = []
    for l, r in top_clauses:
        clauses.append(((l, "." in l), (r, "." in r)))
    if sub:
        for l, r in sub[1]:
            clauses.append(((INST + "." + l, "." in l), (INST + "." + r, "." in r)))
    parent = {}

    def find(x):
        parent.setdefault(x, x)
        while parent[x] != x:
            x = parent[x]
        return x
    for a, b in clauses:
        ra, rb = find(a), find(b)
        if ra != rb:
            parent[rb] = ra
    sets = {}
    for x in list(parent):
        sets.setdefault(find(x), []).append(x)
    rows = []
    n = len(index)
    for members in sets.values():
        for v in POT:
            for m, _fl in members[1:]:
                row = np.zeros(n)
                row[index[members[0][0] + "." + v]] += 1
                row[index[m + "." + v]] -= 1
                rows.append(row)
        for f in FLOW:
            row = np.zeros(n)
            for m, fl in members:
                row[index[m + "." + f]] += 1 if fl else -1
            rows.append(row)
    connected = {m for ms in sets.values() for m, _ in ms}
    for c in connectors(ncomp, ntop, sub):
        if c not in connected:
            for f in FLOW:
                row = np.zeros(n)
                row[index[c + "." + f]] = 1
                rows.append(row)
    return rows, len(sets)


def emitted_rows(flat, index):
    import pymoca.ast as ast

    def lin(e):
        n = len(index)
        if isinstance(e, (ast.ComponentRef, ast.Symbol)):
            row = np.zeros(n + 1)
            row[index[e.name]] = 1
            return row
        if isinstance(e, ast.Primary):
            row = np.zeros(n + 1)
            row[n] = float(e.value)
            return row
        if isinstance(e, ast.Expression):
            args = [lin(a) for a in e.operands]
            if e.operator == "-" and len(args) == 1:
                return -args[0]
            if e.operator == "+" and len(args) == 2:
                return args[0] + args[1]
            if e.operator == "-" and len(args) == 2:
                return args[0] - args[1]
        raise ValueError("unexpected term in a connection equation: %r" % (e,))
    rows = []
    for eq in flat.equations:
        if isinstance(eq, ast.ConnectClause):
            raise ValueError("connect clause left in the flat model: %r" % (eq,))
        r = lin(eq.left) - lin(eq.right)
        if abs(r[-1]) > 0:
            raise ValueError("inhomogeneous connection equation %r" % (eq,))
        rows.append(r[:-1])
    return rows


def rank(rows):
    return int(np.linalg.matrix_rank(np.array(rows))) if rows else 0


def judge(ncomp, ntop, top_clauses, sub):
    import pymoca.ast as ast
    import pymoca.parser
    from pymoca.tree import flatten
    txt = model_text(ncomp, ntop, top_clauses, sub)
    tree = pymoca.parser.parse(txt)
    if tree is None:
        raise RuntimeError("generated model does not parse")
    flat = flatten(tree, ast.ComponentRef(name="Top")).classes["Top"]
    names = [c + "." + x for c in connectors(ncomp, ntop, sub) for x in POT + FLOW]
    missing = [n for n in names if n not in flat.symbols]
    if missing:
        return txt, "flat model lacks variables %s" % missing[:4]
    index = {n: i for i, n in enumerate(names)}
    try:
        E = emitted_rows(flat, index)
    except (ValueError, KeyError) as e:
        return txt, "%s: %s" % (type(e).__name__, e)
    R, nsets = reference_rows(index, ncomp, ntop, top_clauses, sub)
    re_, rr, both = rank(E), rank(R), rank(E + R)
    if not (re_ == rr == both):
        return txt, "solution spaces differ: rank(flat)=%d rank(reference)=%d rank(both)=%d over %d connection sets" % (re_, rr, both, nsets)
    return txt, None


GRID_HEADER = """
connector Pin Real v; flow Real i; end Pin;
model Comp Pin p; end Comp;
"""
GRID_CASES = [
    ("Pin grid[2,2]; Comp a; Comp b;", [(("grid", (1, 1)), ("a.p", ())), (("grid", (1, 2)), ("b.p", ()))]),
    ("Pin grid[2,2];", [(("grid", (1, 1)), ("grid", (1, 2))), (("grid", (2, 1)), ("grid", (2, 2)))]),
    ("Pin grid[2,3]; Comp c;", [(("grid", (1, 2)), ("grid", (2, 1))), (("grid", (2, 1)), ("c.p", ())), (("grid", (1, 3)), ("grid", (2, 3)))]),
    ("Pin v[3];", [(("v", (1,)), ("v", (2,))), (("v", (2,)), ("v", (3,)))]),
    ("Comp rs[3]; Comp a;", [(("rs.p", (1,)), ("rs.p", (2,))), (("rs.p", (3,)), ("a.p", ()))]),
]


def judge_grid(decl, clauses):
    """elements of connector arrays: compare flow sums / potential equalities of the CONNECTED elements (rank over element variables)"""
    import pymoca.ast as ast
    import pymoca.parser
    from pymoca.tree import flatten

    def txt_ref(n, idx):
        if not idx:
            return n
        if "." in n:                       # pin of a component array: rs[k].p
            head, tail = n.split(".", 1)
            return "%s[%s].%s" % (head, ",".join(map(str, idx)), tail)
        return "%s[%s]" % (n, ",".join(map(str, idx)))
    txt = GRID_HEADER + "model Top " + decl + " equation " + " ".join("connect(%s, %s);" % (txt_ref(*l), txt_ref(*r)) for l, r in clauses) + " end Top;\n"
    tree = pymoca.parser.parse(txt)
    flat = flatten(tree, ast.ComponentRef(name="Top")).classes["Top"]
    index = {}

    def col(name, idx):
        return index.setdefault((name, tuple(idx)), len(index))

    def lin(e):
        if isinstance(e, ast.ComponentRef):
            idx = [i.value for row in e.indices for i in row if i is not None and getattr(i, "value", None) is not None]
            return {col(e.name, idx): 1.0}
        if isinstance(e, ast.Symbol):
            return {col(e.name, ()): 1.0}
        if isinstance(e, ast.Primary):
            if float(e.value) != 0:
                raise ValueError("inhomogeneous")
            return {}
        if isinstance(e, ast.Expression):
            args = [lin(a) for a in e.operands]
            if e.operator == "-" and len(args) == 1:
                return {k: -v for k, v in args[0].items()}
            out = dict(args[0])
            sg = 1.0 if e.operator == "+" else -1.0
            for k, v in args[1].items():
                out[k] = out.get(k, 0.0) + sg * v
            return out
        raise ValueError("unexpected term %r" % (e,))
    E = []
    for eq in flat.equations:
        if isinstance(eq, ast.ConnectClause):
            return txt, "connect clause left in the flat model"
        l, r = lin(eq.left), lin(eq.right)
        for k, v in r.items():
            l[k] = l.get(k, 0.0) - v
        E.append(l)
    parent = {}

    def find(x):
        parent.setdefault(x, x)
        while parent[x] != x:
            x = parent[x]
        return x
    for (ln, li), (rn, ri) in clauses:
        a, b = find((ln, li, "." in ln)), find((rn, ri, "." in rn))
        if a != b:
            parent[b] = a
    sets = {}
    for x in list(parent):
        sets.setdefault(find(x), []).append(x)
    R = []
    for members in sets.values():
        for m in members[1:]:
            R.append({col(members[0][0] + ".v", members[0][1]): 1.0, col(m[0] + ".v", m[1]): -1.0})
        R.append({col(m[0] + ".i", m[1]): (1.0 if m[2] else -1.0) for m in members})
    # only the variables of connected elements are compared (unconnected array elements are outside the decided scope)
    keep = sorted({k for row in R for k in row})
    E = [row for row in E if any(k in keep for k in row)]
    n = len(index)

    def mat(rows):
        M = np.zeros((len(rows), n))
        for i, row in enumerate(rows):
            for k, v in row.items():
                M[i, k] = v
        return [M[i] for i in range(len(rows))]
    me, mr = mat(E), mat(R)
    re_, rr, both = rank(me), rank(mr), rank(me + mr)
    if not (re_ == rr == both):
        return txt, "solution spaces differ for the connected array elements: rank(flat)=%d rank(reference)=%d rank(both)=%d" % (re_, rr, both)
    return txt, None


TWO_CLASS_TEXT = """
package El connector Pin Real v; flow Real i; end Pin; model R Pin p; Pin n; end R; end El;
package Th connector Pin Real T; Real v; flow Real Phi; end Pin; model C Pin h; end C; end Th;
model Top El.R r1; El.R r2; Th.C c1; Th.C c2; equation %s end Top;
"""


def judge_two_classes(order):
    """two connector classes with the same simple name (El.Pin, Th.Pin) and different members in one model"""
    import pymoca.ast as ast
    import pymoca.parser
    from pymoca.tree import flatten
    cl = ["connect(r1.n, r2.p);", "connect(c1.h, c2.h);"]
    txt = TWO_CLASS_TEXT % " ".join(cl if order == 0 else cl[::-1])
    flat = flatten(pymoca.parser.parse(txt), ast.ComponentRef(name="Top")).classes["Top"]
    index = {}

    def col(name):
        return index.setdefault(name, len(index))

    def lin(e):
        if isinstance(e, (ast.ComponentRef, ast.Symbol)):
            return {col(e.name): 1.0}
        if isinstance(e, ast.Primary):
            if float(e.value) != 0:
                raise ValueError("inhomogeneous")
            return {}
        if isinstance(e, ast.Expression):
            args = [lin(a) for a in e.operands]
            if e.operator == "-" and len(args) == 1:
                return {k: -v for k, v in args[0].items()}
            out = dict(args[0])
            sg = 1.0 if e.operator == "+" else -1.0
            for k, v in args[1].items():
                out[k] = out.get(k, 0.0) + sg * v
            return out
        raise ValueError("unexpected term %r" % (e,))
    R = [{col("r1.n.v"): 1.0, col("r2.p.v"): -1.0}, {col("r1.n.i"): 1.0, col("r2.p.i"): 1.0},
         {col("c1.h.T"): 1.0, col("c2.h.T"): -1.0}, {col("c1.h.v"): 1.0, col("c2.h.v"): -1.0}, {col("c1.h.Phi"): 1.0, col("c2.h.Phi"): 1.0},
         {col("r1.p.i"): 1.0}, {col("r2.n.i"): 1.0}]
    E = []
    for eq in flat.equations:
        if isinstance(eq, ast.ConnectClause):
            return txt, "connect clause left in the flat model"
        l, r = lin(eq.left), lin(eq.right)
        for k, v in r.items():
            l[k] = l.get(k, 0.0) - v
        E.append(l)
    unknown = sorted(k for k in index if k not in flat.symbols)
    if unknown:
        return txt, "equations over variables the flat model does not have: %s" % unknown
    n = len(index)

    def mat(rows):
        M = np.zeros((len(rows), n))
        for i, row in enumerate(rows):
            for k, v in row.items():
                M[i, k] = v
        return [M[i] for i in range(len(rows))]
    me, mr = mat(E), mat(R)
    re_, rr, both = rank(me), rank(mr), rank(me + mr)
    if not (re_ == rr == both):
        return txt, "solution spaces differ: rank(flat)=%d rank(reference)=%d rank(both)=%d" % (re_, rr, both)
    return txt, None


def cases(tier, seed):
    rng = np.random.RandomState(seed)
    # curated: chain, star, cycle, merge of separate sets, redundant, outside connectors, nested level
    yield 3, 1, [("c0.n", "c1.p"), ("c1.n", "c2.p"), ("c2.n", "q0")], None
    yield 3, 1, [("q0", "c0.p"), ("q0", "c1.p"), ("q0", "c2.p")], None
    yield 3, 0, [("c0.n", "c1.p"), ("c1.p", "c2.p"), ("c2.p", "c0.n")], None
    yield 4, 0, [("c0.n", "c1.p"), ("c2.n", "c3.p"), ("c1.p", "c2.n")], None
    yield 4, 0, [("c0.n", "c1.p"), ("c2.n", "c3.p"), ("c1.p", "c2.n"), ("c0.n", "c3.p"), ("c3.p", "c0.n")], None
    yield 2, 2, [("q0", "q1"), ("c0.p", "q0")], None
    yield 2, 1, [("s.ext1", "c0.p"), ("c0.n", "c1.p"), ("c1.n", "s.ext2")], (2, [("a0.p", "ext1"), ("a0.n", "a1.p"), ("a1.n", "ext2")])
    yield 1, 1, [("s.ext1", "q0")], (2, [("a0.p", "ext1"), ("a1.p", "ext1"), ("a0.n", "a1.n")])
    for _ in range(1500 if tier == "thorough" else 200):
        ncomp, ntop = rng.randint(1, 5), rng.randint(0, 3)
        use_sub = rng.rand() < 0.4
        sub = None
        if use_sub:
            k = rng.randint(1, 3)
            inner = ["a%d.%s" % (i, s) for i in range(k) for s in "pn"] + ["ext1", "ext2"]
            sub = (k, [tuple(rng.choice(inner, 2, replace=False)) for _ in range(rng.randint(1, 5))])
        pool = ["c%d.%s" % (k, s) for k in range(ncomp) for s in "pn"] + ["q%d" % k for k in range(ntop)] + (["s.ext1", "s.ext2"] if sub else [])
        clauses = [tuple(str(x) for x in rng.choice(pool, 2, replace=False)) for _ in range(rng.randint(1, 8))]
        if sub:
            sub = (sub[0], [tuple(str(x) for x in c) for c in sub[1]])
        yield ncomp, ntop, clauses, sub


def main():
    logging.disable(logging.CRITICAL)
    payload = json.load(sys.stdin)
    tier, seed = payload.get("tier", "quick"), int(payload.get("seed", 0) or 0)
    failures, n, seen = [], 0, set()
    for decl, gcl in GRID_CASES:
        n += 1
        seen.add(json.dumps([decl, gcl]))
        try:
            txt, bad = judge_grid(decl, gcl)
        except BaseException as e:  # noqa
            txt, bad = decl, "%s: %s" % (type(e).__name__, str(e)[:200])
        if bad:
            failures.append({"class": "graph", "input": {"model": txt, "flatten": "Top"}, "observed": bad,
                             "expected": "flat equations with the solution space of the connection-set semantics"})
    for order in (0, 1):
        n += 1
        try:
            txt, bad = judge_two_classes(order)
        except BaseException as e:  # noqa
            txt, bad = TWO_CLASS_TEXT, "%s: %s" % (type(e).__name__, str(e)[:200])
        if bad:
            failures.append({"class": "graph", "input": {"model": txt, "flatten": "Top"}, "observed": bad,
                             "expected": "flat equations with the solution space of the connection-set semantics"})
    global INST
    all_cases = []
    for k_, (ncomp, ntop, clauses, sub) in enumerate(cases(tier, seed)):
        all_cases.append(("s", ncomp, ntop, clauses, sub))
        if sub and (k_ < 8 or k_ % 4 == 0):
            ren = lambda e: INST_NAMES[1] + e[1:] if e.startswith("s.") else e
            all_cases.append((INST_NAMES[1], ncomp, ntop, [(ren(l), ren(r)) for l, r in clauses], sub))
    for inst, ncomp, ntop, clauses, sub in all_cases:
        INST = inst
        n += 1
        seen.add(json.dumps([ncomp, ntop, clauses, sub]))
        try:
            txt, bad = judge(ncomp, ntop, clauses, sub)
        except BaseException as e:  # noqa
            txt, bad = model_text(ncomp, ntop, clauses, sub), "%s: %s" % (type(e).__name__, str(e)[:200])
        if bad:
            failures.append({"class": "graph", "input": {"model": txt, "flatten": "Top"}, "observed": bad,
                             "expected": "flat equations with the solution space of the connection-set semantics"})
            if payload.get("mode") != "bounded":
                break
    if payload.get("mode") == "bounded":
        print(json.dumps({"performed": True, "cases": n, "distinct_nontrivial": len(seen), "failures": failures[:10],
                          "rule": "generated Modelica models (connector with 2 potential and 2 flow variables; 1-4 two-pin components; 0-2 top-level connectors; optionally a nested sub-model with its own connect clauses and "
                                  "two outside connectors) with two same-named connector classes of different packages in one model (both clause orders), 8 curated graphs (chain, star, cycle, merge of separate sets, redundant, outside-only, nested) and random graphs of 1-7 clauses, plus 5 graphs over elements of 1-D / 2-D connector arrays and pins of component arrays: flattened by the real code, "
                                  "equations read as a homogeneous linear system and compared with the reference system by rank(flat)=rank(reference)=rank(both); distinct = distinct (sizes, clause list) tuples",
                          "bound": "%d graphs, <= 12 connectors, <= 12 clauses" % n}))
    else:
        f = failures[0] if failures else None
        print(json.dumps({"performed": True, "reproduces": f is not None, "input": f and f["input"], "observed": f and f["observed"],
                          "expected": f and f["expected"], "input_class": "graph"}))


if __name__ == "__main__":
    main()
