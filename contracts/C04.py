"""C04 -- parsed class structure reflects the source declarations.

The grammar and the ANTLR runtime (which contexts exist, in which order enter*/exit* are called) are trusted; what
pymoca itself writes is the listener, and that is what is put under contract: the REAL methods of
pymoca.parser.ASTListener are executed symbolically on modelled parse-tree contexts, in the order ParseTreeWalker
calls them for the rule concerned.

  component clause   (enter/exitComponent_clause, enter/exitComponent_declaration, enter/exitDeclaration; both the
                     ordinary and the redeclaration (`1`) variants) for 1..3 declarators, five prefix lists, clause-
                     and declarator-level array subscripts, and the four modification shapes: every declarator once
                     in class.symbols under its name, in declaration order with consecutive order numbers; each
                     keyword of the type prefix is one prefix; type = the clause's type specifier; dimensions = the
                     declarator's own followed by the clause's; comment; class modification first, then the binding as a
                     `value` argument; declarators do not share prefix / dimension / type objects; a name that is
                     already declared is rejected and the earlier declaration left untouched; declarations inside an
                     extends clause's modification are not added to the class.
  composition        (exitComposition) for every sequence of up to 4 public / protected / equation / initial equation /
                     algorithm sections: every element gets the visibility of ITS section; equations and statements are
                     appended in source order to the initial or the non-initial list; annotation attached.
  class / extends / import  (enter/exitClass_definition, exitExtends_clause, exitImport_clause fragments): a nested
                     class is attached to the class being defined when its definition ends; extends clauses are
                     appended in order to the declaring class.
"""
import z3

from pyvc import ops
from pyvc.values import Ext, NoOp, PyRaise, Unsupported, VBound, VDict, VList, VObj, stub

from .parser_common import Tok, call, ctx, get_ast, put_ast, setup

PREFIXES = [[], ["parameter"], ["flow"], ["discrete", "output"], ["parameter", "input"], ["flow", "constant", "input"]]


def walk_clause(eng, A, L, P, variant, prefixes, names, clause_dims, decl_dims, mods, comments, nested_modification=False):
    """emulates ParseTreeWalker over one component_clause; returns (clause ctx, declared expression objects)"""
    suffix = "1" if variant else ""
    tp = ctx(eng, P, "Type_prefix", getChildren=VList([Tok(p) for p in prefixes]), getText="".join(prefixes))
    ts = ctx(eng, P, "Type_specifier")
    tref = A.ref("Volt")
    put_ast(eng, L, ts, tref)
    members = dict(type_prefix=tp, type_specifier=ts)
    cdim = None
    if clause_dims is not None:
        asub = ctx(eng, P, "Array_subscripts")
        cdim = VList([A.prim(d) for d in clause_dims])
        put_ast(eng, L, asub, cdim)
        members["array_subscripts"] = asub
    else:
        members["array_subscripts"] = None
    cl = ctx(eng, P, "Component_clause" + suffix, **members)
    call(eng, L, "enterComponent_clause" + suffix, cl)
    exprs = {}
    for i, n in enumerate(names):
        dm = {"IDENT": Tok(n)}
        if decl_dims[i] is not None:
            dsub = ctx(eng, P, "Array_subscripts")
            dd = VList([A.prim(d) for d in decl_dims[i]])
            put_ast(eng, L, dsub, dd)
            dm["array_subscripts"] = dsub
            exprs[("dims", i)] = dd
        else:
            dm["array_subscripts"] = None
        if mods[i] is not None:
            mctx = ctx(eng, P, "Modification")
            items = []
            if "class" in mods[i]:
                cm = A.new("ClassModification", arguments=VList([A.new("ClassModificationArgument")]))
                exprs[("cm", i)] = cm
                items.append(cm)
            if "value" in mods[i]:
                e = A.prim(40 + i)
                exprs[("value", i)] = e
                items.append(e)
            put_ast(eng, L, mctx, VList(items))
            dm["modification"] = mctx
        else:
            dm["modification"] = None
        decl = ctx(eng, P, "Declaration", **dm)
        cctx = ctx(eng, P, "Comment")
        put_ast(eng, L, cctx, comments[i])
        cd = ctx(eng, P, "Component_declaration" + suffix, declaration=decl, comment=cctx)
        call(eng, L, "enterComponent_declaration" + suffix, cd)
        call(eng, L, "enterDeclaration", decl)
        if nested_modification:
            # the declarator carries a modification of its own, p(start = 1): the walker enters and leaves that class_modification
            # (and its enclosing modification) while still inside the declaration
            inner = ctx(eng, P, "Class_modification", argument_list=None)
            mo = ctx(eng, P, "Modification", class_modification=inner, expression=None)
            call(eng, L, "enterModification", mo)
            call(eng, L, "enterClass_modification", inner)
            call(eng, L, "exitClass_modification", inner)
        call(eng, L, "exitDeclaration", decl)
        call(eng, L, "exitComponent_declaration" + suffix, cd)
    call(eng, L, "exitComponent_clause" + suffix, cl)
    return cl, tref, cdim, exprs


def class_node(L):
    return L.fields["class_nodes"].items[-1] if hasattr(L.fields["class_nodes"], "items") else None


def h_component_clause(eng):
    A, L, P = setup(eng)
    variant = eng.choice(2)
    prefixes = PREFIXES[eng.choice(len(PREFIXES))]
    n = 1 + eng.choice(3)
    names = ["a", "b", "c"][:n]
    clause_dims = [None, [2]][eng.choice(2)] if not variant else None       # component_clause1 has no clause-level subscripts
    decl_dims = [[None, [3, 4]][eng.choice(2)] if i == n - 1 else None for i in range(n)]
    mod_kind = eng.choice(4)
    mods = [[None, ("class",), ("value",), ("class", "value")][mod_kind] if i == 0 else None for i in range(n)]
    comments = ["comment of " + x for x in names]
    L.fields["sym_count"] = 7
    eng.input("clause", {"variant": "component_clause" + ("1" if variant else ""), "prefixes": prefixes, "declarators": names, "clause_dims": clause_dims, "decl_dims": decl_dims, "modification": mods[0]})
    node = class_node(L)
    put(eng, node.fields["symbols"], "earlier", A.new("Symbol", name="earlier"))
    cl, tref, cdim, exprs = walk_clause(eng, A, L, P, variant, prefixes, names, clause_dims, decl_dims, mods, comments)
    eng.cover("clause.n%d" % n)
    eng.cover("clause.variant%d" % variant)
    syms = node.fields["symbols"]
    # (P) each declared component exactly once, under its name, in declaration order
    eng.prove("clause.every_declarator_once_in_declaration_order", z3.BoolVal(list(syms.keys) == ["earlier"] + names), keys=list(syms.keys))
    got = [syms.vals[syms.keys.index(x)] for x in names if x in syms.keys]
    if len(got) != n:
        return
    eng.prove("clause.names_and_order_numbers", z3.BoolVal([s.fields["name"] for s in got] == names and [s.fields["order"] for s in got] == list(range(7, 7 + n)) and L.fields["sym_count"] == 7 + n))
    # (P) prefixes: one entry per keyword
    eng.prove("clause.one_prefix_per_keyword", z3.BoolVal(all(list(s.fields["prefixes"].items) == prefixes for s in got)), got=[list(s.fields["prefixes"].items) for s in got])
    eng.prove("clause.type_is_the_clause_type_specifier", z3.BoolVal(all(s.fields["type"].fields["name"] == "Volt" for s in got)))
    # (P) dimensions: the declarator's own, else the clause's, else scalar
    ok = True
    for i, s in enumerate(got):
        d = s.fields["dimensions"]
        if decl_dims[i] is not None:
            # Real[2] a[3, 4]: the declarator's own subscripts first, then the type's
            ok = ok and len(d.items) == 1 and [x.fields["value"] for x in d.items[0].items] == decl_dims[i] + (clause_dims or [])
        elif clause_dims is not None:
            ok = ok and len(d.items) == 1 and [x.fields["value"] for x in d.items[0].items] == clause_dims
        else:
            ok = ok and len(d.items) == 1 and len(d.items[0].items) == 1 and d.items[0].items[0].fields["value"] is None
    eng.prove("clause.dimensions_own_else_clause_else_scalar", z3.BoolVal(bool(ok)))
    eng.prove("clause.comment_of_each_declarator", z3.BoolVal([s.fields["comment"] for s in got] == comments))
    # (P) modifications: class modification arguments first, the binding as a `value` argument after them
    first = got[0].fields["class_modification"]
    if mods[0] is None:
        eng.prove("clause.no_modification_none_recorded", z3.BoolVal(first is None))
    else:
        args = first.fields["arguments"].items if first is not None else []
        want_n = (1 if "class" in mods[0] else 0) + (1 if "value" in mods[0] else 0)
        ok = first is not None and len(args) == want_n
        if ok and "class" in mods[0]:
            ok = first is exprs[("cm", 0)]
        if ok and "value" in mods[0]:
            v = args[-1].fields["value"]
            ok = v.fields["component"].fields["name"] == "value" and len(v.fields["modifications"].items) == 1 and v.fields["modifications"].items[0] is exprs[("value", 0)]
        eng.prove("clause.class_modification_then_binding_as_value_argument", z3.BoolVal(bool(ok)))
    eng.prove("clause.other_declarators_get_no_modification", z3.BoolVal(all(s.fields["class_modification"] is None for s in got[1:])))
    # (P) per-declarator copies: no shared mutable prefix / dimension / type objects
    shared = []
    for i in range(n):
        for j in range(i + 1, n):
            for f in ("prefixes", "dimensions", "type"):
                if got[i].fields[f] is got[j].fields[f]:
                    shared.append((names[i], names[j], f))
    eng.prove("clause.declarators_share_no_mutable_attribute_object", z3.BoolVal(not shared), shared=shared)


def put(eng, d, k, v):
    ops.setitem(eng, d, k, v)


def h_duplicate_rejected(eng):
    A, L, P = setup(eng)
    variant = eng.choice(2)
    where = eng.choice(2)            # duplicate of an earlier clause's name | duplicate inside the same clause
    node = class_node(L)
    old = A.new("Symbol", name="a", type=A.ref("Integer"))
    if where == 0:
        put(eng, node.fields["symbols"], "a", old)
        names = ["a"]
    else:
        names = ["b", "b"]
    raised = None
    try:
        walk_clause(eng, A, L, P, variant, [], names, None, [None] * len(names), [None] * len(names), [""] * len(names))
    except PyRaise as r:
        raised = r
    eng.input("case", ["same name as an earlier clause", "same name twice in one clause"][where])
    eng.cover("duplicate.case%d" % where)
    # (P) a component declared twice in one class is rejected
    eng.prove("duplicate.second_declaration_is_rejected", z3.BoolVal(raised is not None))
    if where == 0:
        syms = node.fields["symbols"]
        eng.prove("duplicate.first_declaration_untouched", z3.BoolVal(syms.vals[syms.keys.index("a")] is old and old.fields["type"].fields["name"] == "Integer"))


def h_extends_modification_declarations(eng):
    A, L, P = setup(eng)
    node = class_node(L)
    cref = ctx(eng, P, "Component_reference")
    put_ast(eng, L, cref, A.ref("Base"))
    # extends Base(redeclare parameter Volt p [(start = 1)], redeclare parameter Volt q): the walker's events, rule by rule
    # (a rule the listener has no method for is a no-op, as in ANTLR's generated base listener)
    nested = bool(eng.choice(2))
    eng.input("first_redeclared_component_has_a_modification_of_its_own", nested)
    cm = ctx(eng, P, "Class_modification", argument_list=None)
    ec = ctx(eng, P, "Extends_clause", class_modification=cm, component_reference=cref)
    call(eng, L, "enterExtends_clause", ec)
    call(eng, L, "enterClass_modification", cm)
    walk_clause(eng, A, L, P, 1, ["parameter"], ["p"], None, [None], [None], [""], nested_modification=nested)
    walk_clause(eng, A, L, P, 1, ["parameter"], ["q"], None, [None], [None], [""])
    call(eng, L, "exitClass_modification", cm)
    call(eng, L, "exitExtends_clause", ec)
    eng.cover("extends.redeclaration")
    eng.prove("extends.declarations_in_an_extends_modification_are_not_class_members",
              z3.BoolVal("p" not in node.fields["symbols"].keys and "q" not in node.fields["symbols"].keys), members=list(node.fields["symbols"].keys))
    eng.prove("extends.clause_recorded", z3.BoolVal(len(node.fields["extends"].items) == 1))
    # and a declaration after the clause IS a member again
    walk_clause(eng, A, L, P, 0, [], ["z"], None, [None], [None], [""])
    eng.prove("extends.declarations_after_the_clause_are_members", z3.BoolVal("z" in node.fields["symbols"].keys))


# ------------------------------------------------------------------------------------------------ composition
KINDS = ["public", "protected", "equation", "initial equation", "algorithm", "initial algorithm"]


def h_composition(eng):
    A, L, P = setup(eng)
    node = class_node(L)
    nsec = eng.choice(5)
    kinds = [KINDS[eng.choice(len(KINDS))] for _ in range(nsec)]
    eng.input("sections", ["(leading elements)"] + kinds)

    def element_list(tag):
        s1, s2 = A.new("Symbol", name=tag + "1"), A.new("Symbol", name=tag + "2")
        clause = A.new("ComponentClause", symbol_list=VList([s1, s2]))
        ext = A.new("ExtendsClause", component=A.ref("B" + tag))
        c = ctx(eng, P, "Element_list", getText="elements" + tag)
        put_ast(eng, L, c, VList([clause, ext]))
        return c, [s1, s2], ext
    children, expect_vis, eq_sections, alg_sections = [], [], [], []
    lead, lsyms, lext = element_list("L")
    children.append(lead)
    expect_vis.append((lsyms, lext, "private"))
    want_eq, want_ieq, want_st, want_ist = [], [], [], []
    last_pub = last_pro = None
    for i, k in enumerate(kinds):
        if k in ("public", "protected"):
            children.append(Tok(k))
            c, syms, ext = element_list("S%d" % i)
            children.append(c)
            expect_vis.append((syms, ext, k))
            if k == "public":
                last_pub = c
            else:
                last_pro = c
        elif k.endswith("equation"):
            e = A.new("Equation", left=A.ref("e%d" % i), right=A.prim(i))
            sec = A.new("EquationSection", initial=k.startswith("initial"), equations=VList([e]))
            c = ctx(eng, P, "Equation_section", getText="equation...")
            put_ast(eng, L, c, sec)
            children.append(c)
            eq_sections.append(c)
            (want_ieq if k.startswith("initial") else want_eq).append(e)
        else:
            st = A.new("AssignmentStatement")
            sec = A.new("AlgorithmSection", initial=k.startswith("initial"), statements=VList([st]))
            c = ctx(eng, P, "Algorithm_section", getText="algorithm...")
            put_ast(eng, L, c, sec)
            children.append(c)
            alg_sections.append(c)
            (want_ist if k.startswith("initial") else want_st).append(st)
    ann = ctx(eng, P, "Annotation", getText="annotation(...)")
    annv = A.new("ClassModification")
    put_ast(eng, L, ann, annv)
    comp = ctx(eng, P, "Composition", getChildren=VList(children + [ann, Tok(";")]), equation_section=VList(eq_sections), algorithm_section=VList(alg_sections),
               element_list=VList([c for c in children if isinstance(c, VObj) and c.cls.name == "Element_listContext"]),
               label_epriv=lead, label_epub=last_pub, label_epro=last_pro, label_comp_annotation=ann)
    call(eng, L, "exitComposition", comp)
    eng.cover("composition.%d_sections" % nsec)
    if kinds.count("public") > 1 or kinds.count("protected") > 1:
        eng.cover("composition.repeated_visibility_section")
    # (P) every element has the visibility of the section that declares it
    bad = []
    for syms, ext, vis in expect_vis:
        for s in syms + [ext]:
            v = s.fields["visibility"]
            name = v[1] if isinstance(v, tuple) else getattr(v, "label", str(v))
            if name != vis:
                bad.append((s.fields.get("name") or "extends", name, vis))
    eng.prove("composition.every_element_gets_the_visibility_of_its_section", z3.BoolVal(not bad), wrong=bad[:4])
    # (P) equations / statements in source order, in their initial or non-initial list
    eng.prove("composition.equations_in_source_order_by_section_kind", z3.BoolVal([id(x) for x in node.fields["equations"].items] == [id(x) for x in want_eq] and
                                                                               [id(x) for x in node.fields["initial_equations"].items] == [id(x) for x in want_ieq]))
    eng.prove("composition.statements_in_source_order_by_section_kind", z3.BoolVal([id(x) for x in node.fields["statements"].items] == [id(x) for x in want_st] and
                                                                                [id(x) for x in node.fields["initial_statements"].items] == [id(x) for x in want_ist]))
    eng.prove("composition.annotation_attached", z3.BoolVal(node.fields["annotation"] is annv))


# ------------------------------------------------------------------------------------------------ nesting
def h_nested_classes(eng):
    A, L, P = setup(eng)
    outer = class_node(L)
    depth = 1 + eng.choice(2)
    eng.input("nesting_depth", depth)
    ctxs = []
    for d in range(depth):
        cp = ctx(eng, P, "Class_prefixes", PARTIAL=None, class_type=Tok("model"))
        c = ctx(eng, P, "Class_definition", ENCAPSULATED=None, class_prefixes=cp)
        call(eng, L, "enterClass_definition", c)
        get_ast(eng, L, c).fields["name"] = "N%d" % d       # set by exitClass_spec_comp while inside
        # an extends clause and a component inside the class being defined
        cref = ctx(eng, P, "Component_reference")
        put_ast(eng, L, cref, A.ref("Base%d" % d))
        ec = ctx(eng, P, "Extends_clause", class_modification=None, component_reference=cref)
        call(eng, L, "enterExtends_clause", ec)
        call(eng, L, "exitExtends_clause", ec)
        ctxs.append(c)
    for c in reversed(ctxs):
        call(eng, L, "exitClass_definition", c)
    eng.cover("nesting.depth%d" % depth)
    # (P) nested classes and extends clauses are attached to the class that declares them
    n0 = outer.fields["classes"]
    ok = list(n0.keys) == ["N0"]
    inner0 = n0.vals[0] if ok else None
    if ok and depth == 2:
        ok = list(inner0.fields["classes"].keys) == ["N1"]
    eng.prove("nesting.class_attached_to_the_class_that_declares_it", z3.BoolVal(bool(ok)), outer=list(n0.keys))
    ext_ok = inner0 is not None and [e.fields["component"].fields["name"] for e in inner0.fields["extends"].items] == ["Base0"] and not outer.fields["extends"].items
    if ext_ok and depth == 2:
        inner1 = inner0.fields["classes"].vals[0]
        ext_ok = [e.fields["component"].fields["name"] for e in inner1.fields["extends"].items] == ["Base1"]
    eng.prove("nesting.extends_clause_attached_to_the_class_that_declares_it", z3.BoolVal(bool(ext_ok)))
    eng.prove("nesting.extends_flag_cleared_after_the_clause", z3.BoolVal(L.fields["in_extends_clause"] is False))


# ------------------------------------------------------------------------------------------------ sections, equations, statements
def h_sections_and_equations(eng):
    """The callbacks that build what a section holds: the section is initial exactly when the INITIAL token is there and takes the
    equations / statements of its block in source order; if / when equations pair the i-th condition with the i-th block (an else
    block gets the condition True); for-equations keep indices and body; a connect clause and a simple equation keep left and right."""
    A, L, P = setup(eng)
    which = ["equation_section", "algorithm_section", "if_equation", "when_equation", "for_equation", "connect", "simple", "statement"][eng.choice(8)]
    eng.input("callback", which)
    if which in ("equation_section", "algorithm_section"):
        initial = bool(eng.choice(2))
        n = eng.choice(4)
        eng.input("initial", initial)
        eng.input("items", n)
        items = [A.new("Equation", left=A.ref("e%d" % i), right=A.prim(i)) if which == "equation_section" else A.new("AssignmentStatement") for i in range(n)]
        item_ctx = [ctx(eng, P, "Equation" if which == "equation_section" else "Statement") for _ in items]
        for c_, it in zip(item_ctx, items):
            put_ast(eng, L, c_, it)
        if which == "equation_section":
            blk = ctx(eng, P, "Equation_block", equation=VList(item_ctx))
            sec = ctx(eng, P, "Equation_section", INITIAL=Tok("initial") if initial else None, equation_block=blk)
            call(eng, L, "enterEquation_section", sec)
            call(eng, L, "exitEquation_block", blk)
            call(eng, L, "exitEquation_section", sec)
            node = get_ast(eng, L, sec)
            got = node.fields["equations"].items
        else:
            blk = ctx(eng, P, "Statement_block", statement=VList(item_ctx))
            sec = ctx(eng, P, "Algorithm_section", INITIAL=Tok("initial") if initial else None, statement_block=blk)
            call(eng, L, "enterAlgorithm_section", sec)
            call(eng, L, "exitStatement_block", blk)
            call(eng, L, "exitAlgorithm_section", sec)
            node = get_ast(eng, L, sec)
            got = node.fields["statements"].items
        eng.cover("section." + which)
        flag = node.fields["initial"]
        eng.prove("section.initial_iff_the_initial_keyword_is_there", z3.BoolVal(flag is initial or flag == initial))
        eng.prove("section.holds_its_equations_or_statements_in_source_order", z3.BoolVal(len(got) == n and all(a is b for a, b in zip(got, items))))
        return
    if which in ("if_equation", "when_equation"):
        nb = 1 + eng.choice(3)
        has_else = bool(eng.choice(2)) if which == "if_equation" else False
        eng.input("conditional_blocks", nb)
        eng.input("else_block", has_else)
        conds = [A.ref("c%d" % i) for i in range(nb)]
        blocks = [VList([A.new("Equation", left=A.ref("b%d" % i), right=A.prim(i))]) for i in range(nb + (1 if has_else else 0))]
        cctx = [ctx(eng, P, "Expression") for _ in conds]
        bctx = [ctx(eng, P, "Equation_block") for _ in blocks]
        for c_, v in list(zip(cctx, conds)) + list(zip(bctx, blocks)):
            put_ast(eng, L, c_, v)
        kind = "If_equation" if which == "if_equation" else "When_equation"
        node_ctx = ctx(eng, P, kind, label_blocks=VList(bctx), label_conditions=VList(cctx))
        call(eng, L, "exit" + kind, node_ctx)
        node = get_ast(eng, L, node_ctx)
        eng.cover("section." + which)
        gc, gb = node.fields["conditions"].items, node.fields["blocks"].items
        ok = len(gb) == len(blocks) and all(a is b for a, b in zip(gb, blocks)) and len(gc) == len(gb) and all(a is b for a, b in zip(gc, conds)) and \
            (not has_else or gc[-1] is True)
        eng.prove("section.condition_i_guards_block_i_and_else_is_true", z3.BoolVal(bool(ok)))
        return
    if which == "for_equation":
        idx, blk = VList([A.new("ForIndex", name="i")]), VList([A.new("Equation", left=A.ref("x"), right=A.prim(1))])
        ic, bc = ctx(eng, P, "For_indices"), ctx(eng, P, "Equation_block")
        put_ast(eng, L, ic, idx)
        put_ast(eng, L, bc, blk)
        fc = ctx(eng, P, "For_equation", for_indices=ic, equation_block=bc)
        call(eng, L, "exitFor_equation", fc)
        node = get_ast(eng, L, fc)
        eng.cover("section.for_equation")
        eng.prove("section.for_equation_keeps_indices_and_body", z3.BoolVal(node.fields["indices"] is idx and node.fields["equations"] is blk))
        return
    if which == "connect":
        l, r = A.ref("a"), A.ref("b")
        lc, rc = ctx(eng, P, "Component_reference"), ctx(eng, P, "Component_reference")
        put_ast(eng, L, lc, l)
        put_ast(eng, L, rc, r)
        cc = ctx(eng, P, "Connect_clause", component_reference=VList([lc, rc]))
        call(eng, L, "exitConnect_clause", cc)
        node = get_ast(eng, L, cc)
        eng.cover("section.connect")
        eng.prove("section.connect_clause_keeps_left_and_right", z3.BoolVal(node.fields["left"] is l and node.fields["right"] is r))
        return
    if which == "simple":
        l, r = A.ref("a"), A.prim(2)
        lc, rc = ctx(eng, P, "Simple_expression"), ctx(eng, P, "Expression")
        put_ast(eng, L, lc, l)
        put_ast(eng, L, rc, r)
        ec = ctx(eng, P, "Equation_simple", simple_expression=lc, expression=rc)
        call(eng, L, "exitEquation_simple", ec)
        node = get_ast(eng, L, ec)
        eng.cover("section.simple")
        eng.prove("section.simple_equation_keeps_left_and_right", z3.BoolVal(node.cls.name == "Equation" and node.fields["left"] is l and node.fields["right"] is r))
        return
    l, r = A.ref("a"), A.prim(2)
    lc, rc = ctx(eng, P, "Component_reference"), ctx(eng, P, "Expression")
    put_ast(eng, L, lc, l)
    put_ast(eng, L, rc, r)
    sc = ctx(eng, P, "Statement_component_reference", component_reference=lc, expression=rc)
    call(eng, L, "exitStatement_component_reference", sc)
    node = get_ast(eng, L, sc)
    eng.cover("section.statement")
    eng.prove("section.assignment_statement_keeps_target_and_value", z3.BoolVal(node.cls.name == "AssignmentStatement" and node.fields["left"].items == [l] and node.fields["right"] is r))


def h_string_comment(eng):
    """exitString_comment / exitComment: the comment of a declaration is the text between the delimiting quotes of its STRING token,
    character for character -- escaped quotes inside it, also at its very beginning or end, belong to the text.  (A STRING token is
    `"` followed by characters other than `"` and `\\`, or backslash escapes, followed by `"`; the empty comment has no token.)"""
    A, L, P = setup(eng)
    shape = ["no-string", "plain", "escaped-quote-inside"][eng.choice(3)]
    q, esc = z3.StringVal('"'), z3.StringVal('\\"')
    if shape == "no-string":
        body, text, toks = z3.StringVal(""), z3.StringVal(""), []
    else:
        pre, post = eng.fresh_str("pre"), eng.fresh_str("post")
        eng.assume(z3.Not(z3.Contains(pre, q)))
        eng.assume(z3.Not(z3.Contains(post, q)))
        body = pre if shape == "plain" else z3.Concat(pre, esc, post)
        text = z3.Concat(q, body, q)
        toks = [Tok(text)]
    eng.input("comment_text", body)
    c = ctx(eng, P, "String_comment", getText=text, STRING=VList(toks))
    call(eng, L, "exitString_comment", c)
    eng.cover("comment." + shape)
    got = get_ast(eng, L, c)
    eng.prove("comment.text_between_the_outer_quotes_kept_character_for_character",
              ops.to_z3(got) == body if (ops.is_sym(got) or isinstance(got, str)) else z3.BoolVal(False))
    outer = ctx(eng, P, "Comment", string_comment=c, annotation=None)
    call(eng, L, "exitComment", outer)
    eng.prove("comment.comment_rule_hands_the_text_on", z3.BoolVal(get_ast(eng, L, outer) is got))


HARNESSES = [("component clause walk", h_component_clause),
             ("duplicate declaration", h_duplicate_rejected),
             ("declarations inside an extends modification", h_extends_modification_declarations),
             ("composition: visibility and section order", h_composition),
             ("nested classes and extends", h_nested_classes),
             ("sections, equations and statements", h_sections_and_equations),
             ("string comments", h_string_comment)]
EXPECTED_COVER = {"clause.n1", "clause.n2", "clause.n3", "clause.variant0", "clause.variant1", "duplicate.case0", "duplicate.case1", "extends.redeclaration",
                  "comment.no-string", "comment.plain", "comment.escaped-quote-inside", "composition.0_sections", "composition.4_sections", "composition.repeated_visibility_section", "nesting.depth1", "nesting.depth2"} | {"section." + k for k in ("equation_section", "algorithm_section", "if_equation", "when_equation", "for_equation", "connect", "simple", "statement")}
BOUNDED = True
LEVEL = "proof"
TRUSTED = ["the ANTLR runtime and the generated ModelicaParser/Lexer: which contexts exist for a text, their accessor results and the order in which ParseTreeWalker calls enter*/exit* (emulated by the harness from the grammar's rule structure)",
           "Modelica.g4 accepts the supported subset (sampled by the bounded replay, which parses generated class texts with the real parser)",
           "copy.deepcopy follows CPython's documented protocol (per-declarator type copies)"]
ASSUMPTIONS = [
    "contexts are modelled objects: a listener method that starts using a different accessor of the same context makes its path undecided (reported, not a violation)",
    "component clauses are enumerated: 1-3 declarators, six prefix lists, with/without clause- and declarator-level subscripts, four modification shapes; compositions: every sequence of up to 4 sections of 6 kinds",
    "the leading unlabelled element list keeps pymoca's own default visibility label ('private'); only labelled sections are required to carry their keyword's visibility",
    "imports are covered by the bounded replay only",
]
EXPLANATION = ("The real ASTListener methods are executed symbolically on modelled ANTLR contexts in walker order; postconditions state what the class node must contain for the declarations walked. "
               "A bounded replay generates class texts, parses them with the real parser and compares the tree with the generator's description.")
MANIFEST = {
    "category": "proof",
    "text": "The real methods of pymoca.parser.ASTListener are executed symbolically on modelled ANTLR contexts in the order ParseTreeWalker calls them. Component clauses (both variants; 1-3 declarators; six type-prefix keyword lists; clause/declarator subscripts; four modification shapes): every declarator appears exactly once in class.symbols under its name, in order with consecutive order numbers, with one prefix per keyword, the clause's type, its own subscripts followed by the type's, its comment, its class modification followed by the binding as a `value` argument, and without sharing prefix/dimension/type objects with sibling declarators; a name declared twice (in an earlier clause or the same one) is rejected and the first declaration is untouched. Composition: for every sequence of up to four public/protected/equation/initial equation/algorithm/initial algorithm sections, every element gets the visibility of its own section, equations and statements land in source order in the initial or non-initial list, the annotation is attached. Nested class definitions and extends clauses are attached to the class that declares them. A bounded replay parses generated class texts with the real parser and compares symbols (name, type, prefixes, dimensions, visibility, order, comment, modifications), sections, nested classes, extends and imports with the generator's description. String comments: exitString_comment / exitComment keep the text between the outer quotes character for character (symbolic STRING tokens with escaped quotes).",
    "note": "ANTLR, the grammar and the walker's call order are trusted (emulated); two genuine defects were repaired (fix: 66fe728 glued type-prefix keywords, 7e457f3 visibility of repeated sections).",
    "technique": "contract-based deductive verification: symbolic execution of the real listener methods on modelled parse-tree contexts with postconditions over the class node; bounded replay through the real parser",
}
