"""C15 replay / bounded stand-in: unknowns - equations and residual construction after the real simplify()."""
import json
import sys

import numpy as np

import simplify_common as S

FIXED = [
    ("model G0 Real x; Real v; Real a; equation der(x) = a; a = v; der(v) = -x; end G0;", "G0"),            # alg tied to a derivative and a state
    ("model G1 input Real u; Real V; Real Q; equation der(V) = Q; Q = u; end G1;", "G1"),
    ("model G2 Real s; Real a; Real b; Real c; equation der(s) = c; a = s; b = a; c = -b; end G2;", "G2"),
    ("model G3 Real s; Real _t; Real y; equation der(s) = y; _t = 2 * s; y = _t + 1; end G3;", "G3"),
    # an eliminable variable defined by two equations of a regular system: eliminated once, the second equation is kept
    ("model G4 Real x; Real z; Real _v; equation der(x) = -x; _v = 2 * x + 1; _v = 3 * z; end G4;", "G4"),
    ("model G5 Real y; Real w; Real _s; equation der(_s) = -y; _s = 3 * y; _s = 2 * w; end G5;", "G5"),
    ("model G6 Real x; Real _a; Real _b; equation der(x) = _a; _a = _b; _b = x + 1; _a = 2 * x - _b + 1; end G6;", "G6"),
    ("model G7 Real a; Real b; Real _v; Real s; equation der(s) = -s; _v = a + b; _v = 0; a = 2 * s; end G7;", "G7"),
    # an alias that only appears in a later pass (after constants have been propagated) and unseats an earlier canonical variable negatively
    ("model G8 Real a; Real b; Real y; Real c; Real d; Real s; equation der(s) = -s; b = a; b + y = c; c = d; d = 0; y = 2 * s; end G8;", "G8"),
]
FIXED += [
    # two alias groups, one headed by an algebraic variable, one by an input / parameter, linked with the algebraic side first
    ("model G9 input Real u; Real a; Real w; Real z; Real s; equation der(s) = -s + u; a = w; z = u; a = z; end G9;", "G9"),
    ("model G10 parameter Real p; Real a; Real w; Real z; Real s; equation der(s) = -s + a; a = w; z = p; a = -z; end G10;", "G10"),
]
FIXED += [
    # affine models with initial equations (reduce_affine_expression writes both lists over one set of state vectors)
    ("model G11 parameter Real x0 = 4.0; Real x; Real y; initial equation x = x0; equation der(x) = -2 * x; y = 3 * x + 1; end G11;", "G11"),
]
FIXED += [
    # chains of eliminable helpers used before the equations that define them (equations are unordered): every order must resolve
    ("model G12 parameter Real k = 0.5; Real x; Real _v1; Real _v2; Real _v3; equation der(x) = _v1; _v1 = k * _v2 + 1; _v2 = k * _v3 + 2; _v3 = k * x + 3; end G12;", "G12"),
    ("model G13 parameter Real k = 0.5; Real x; Real _v1; Real _v2; Real _v3; Real _v4; equation _v2 = k * _v3 + 2; _v1 = k * _v2 + 1; der(x) = _v1; _v3 = k * _v4 + 3; _v4 = k * x + 4; end G13;", "G13"),
    ("model G14 parameter Real k = 0.5; Real x; Real _v1; Real _v2; Real _v3; equation _v3 = k * x + 3; _v2 = k * _v3 + 2; _v1 = k * _v2 + 1; der(x) = _v1; end G14;", "G14"),
]
MUST_SIMPLIFY = {"G0", "G1", "G2", "G3", "G4", "G5", "G6", "G7", "G8", "G9", "G10", "G11", "G12", "G13", "G14"}


def count(m):
    n_unk = sum(v.symbol.numel() for v in m.states + m.alg_states)
    f = m.dae_residual_function
    n_eq = sum(f.size1_out(i) * f.size2_out(i) for i in range(f.n_out()))
    return n_unk, n_eq, f


def judge(txt, name, opts):
    m0, _ = S.build(txt, name, {"expand_mx": True})
    u0, e0, _ = count(m0)
    if u0 != e0:
        return None, "skip"
    m, o = S.build(txt, name, opts)
    try:
        m.simplify(o)
    except BaseException as e:  # noqa
        if name in MUST_SIMPLIFY:
            # these regular models are within every option's supported subset: a failure to simplify means the residual cannot be built
            return "simplify raised %s: %s" % (type(e).__name__, str(e)[:160]), "fail"
        return None, "reported"
    try:
        u1, e1, f = count(m)
    except BaseException as e:  # noqa
        return "residual function cannot be built: %s: %s" % (type(e).__name__, str(e)[:100]), "fail"
    if f.has_free():
        return "residual function has free symbols %s" % f.get_free(), "fail"
    try:
        fi = m.initial_residual_function
        if fi.has_free():
            return "initial residual function has free symbols %s" % fi.get_free(), "fail"
    except BaseException as e:  # noqa
        return "initial residual function cannot be built: %s: %s" % (type(e).__name__, str(e)[-120:]), "fail"
    n_in0, n_in1 = len(m0.inputs) + len(m0.parameters), len(m.inputs) + len(m.parameters) + (0 if not o.get("replace_parameter_values") and not o.get("replace_parameter_expressions") else len(m0.parameters) - len(m.parameters))
    if n_in1 < n_in0 and not (o.get("replace_parameter_values") or o.get("replace_parameter_expressions")):
        return "an input or parameter disappeared: %s -> %s" % (S.names_of(m0.inputs + m0.parameters), S.names_of(m.inputs + m.parameters)), "fail"
    if u1 - e1 != 0:
        return "unknowns - equations was 0 and is now %d (%d unknowns %s, %d equations)" % (u1 - e1, u1, S.names_of(m.states + m.alg_states), e1), "fail"
    return None, "ok"


def main():
    payload = json.load(sys.stdin)
    tier, seed = payload.get("tier", "quick"), int(payload.get("seed", 0) or 0)
    rng = np.random.RandomState(seed + 15)
    models = FIXED + [(S.gen_model(rng, i)[0], "M%d" % i) for i in range(12 if tier == "quick" else 120)]
    failures, n, nontrivial = [], 0, 0
    for txt, name in models:
        for opts in S.option_sets(tier) + [dict(expand_mx=True, detect_aliases=True, allow_derivative_aliases=False),
                                           dict(expand_mx=True, detect_aliases=True, eliminate_constant_assignments=True, replace_constant_values=True, iterative_simplification=True)] + \
                ([dict(expand_mx=False, reduce_affine_expression=True), dict(expand_mx=True, reduce_affine_expression=True, replace_parameter_values=True)] if name in ("G0", "G2", "G11") else []):
            n += 1
            try:
                bad, status = judge(txt, name, opts)
            except BaseException as e:  # noqa
                bad, status = "%s: %s" % (type(e).__name__, str(e)[:120]), "fail"
            nontrivial += status in ("ok", "fail")
            if bad:
                failures.append({"class": "balance", "input": {"model": txt, "options": opts}, "observed": bad, "expected": "unknowns - equations unchanged; residual buildable without free symbols"})
                if len(failures) >= 3:
                    break
        if len(failures) >= 3:
            break
    if payload.get("mode") == "bounded":
        print(json.dumps({"performed": True, "cases": n, "distinct_nontrivial": nontrivial, "failures": failures,
                          "rule": "square generated models (and fixed ones with an algebraic variable aliased to a derivative AND a state, to an input, chains, eliminable variables, an eliminable variable defined by two equations) x option combinations: len(states)+len(alg_states) - residual length stays 0 and dae_residual_function is built without free symbols",
                          "bound": "%d model/option pairs" % n}))
    else:
        f = failures[0] if failures else None
        print(json.dumps({"performed": True, "reproduces": f is not None, "input": f and f["input"], "observed": f and f["observed"],
                          "expected": f and f["expected"], "input_class": "balance"}))


if __name__ == "__main__":
    main()
