"""./check <ID> --tier quick|thorough  |  ./check --replay <file>  |  ./check <ID> --update-baseline"""
import argparse
import importlib
import json
import os
import sys

from . import report


def main():
    ap = argparse.ArgumentParser()
    ap.add_argument("prop", nargs="?")
    ap.add_argument("--tier", default=os.environ.get("VERIF_TIER", "quick"), choices=["quick", "thorough"])
    ap.add_argument("--replay")
    ap.add_argument("--update-baseline", action="store_true")
    a = ap.parse_args()
    seed = int(os.environ.get("VERIF_SEED", "0") or 0)
    if a.replay:
        doc = json.load(open(a.replay))
        payload = {"property": doc["property"], "obligation": doc["obligation"], "model": doc.get("countermodel"),
                   "mode": "replay", "tier": "quick", "seed": seed, "input": (doc.get("replay") or {}).get("input")}
        rep = report.run_replay(doc["property"], payload)
        print(json.dumps(rep, indent=1, default=str))
        return 1 if rep.get("reproduces") else 0
    try:
        mod = importlib.import_module("contracts." + a.prop)
    except ImportError as e:
        print("CHECKER-BROKEN: no contract module for %s: %s" % (a.prop, e))
        return 3
    chk = report.Check(a.prop, mod, a.tier, seed)
    try:
        rc = chk.run()
    except Exception:
        import traceback
        traceback.print_exc()
        print("CHECKER-BROKEN: %s crashed" % a.prop)
        return 3
    if a.update_baseline:
        if rc == 3:
            print("baseline NOT updated for %s: the checker is broken on this run (a harness crashed or generated nothing)" % a.prop)
        else:
            report.update_baseline(a.prop, chk.status)
            print("baseline updated for", a.prop)
    return rc


if __name__ == "__main__":
    sys.exit(main())
