"""C12 -- representation-only options do not change the model's meaning (pymoca-side non-interference).

That CasADi's inline vs serial maps, inlined vs called functions and MX vs expanded SX agree
numerically is CasADi's.  What pymoca must guarantee is NON-INTERFERENCE: the three options reach
CasADi only through the arguments that select the representation, and nothing else in pymoca's
control or data flow depends on them.  This is decided as a def-use (information-flow) contract
over the real AST of generator.py / model.py, re-read on every run:

  unroll_loops      is read once, in Generator.__init__, to define self.map_mode; map_mode is never
                    stored elsewhere and is only ever read as the mode argument of a `.map(...)` call
  inline_functions  likewise through self.function_mode, only read as `*self.function_mode` of `.call(...)`
  expand_mx         in Model._simplify_once only (a) guards the assignment of self._expand_mx_func,
                    (b) guards the 'eliminable_variable_expression requires expand_mx' error, (c) appears
                    in conjunction with expand_vectors (documented different route, outside the decided
                    scope); _expand_mx_func is only applied to a freshly built ca.Function that is returned.
"""
import ast

import z3

from pyvc.values import Unsupported

GEN = "pymoca.backends.casadi.generator"
MODEL = "pymoca.backends.casadi.model"


def parents(tree):
    p = {}
    for n in ast.walk(tree):
        for c in ast.iter_child_nodes(n):
            p[c] = n
    return p


def is_option_read(n, name):
    return isinstance(n, ast.Subscript) and isinstance(n.value, ast.Name) and n.value.id in ("options", "compiler_options") and \
        isinstance(n.slice, ast.Constant) and n.slice.value == name


def enclosing(node, par, kinds):
    while node in par:
        node = par[node]
        if isinstance(node, kinds):
            return node
    return None


def h_generator_flow(eng):
    mod = eng.load_module(GEN)
    tree = eng.source.module_ast(mod.relpath)
    eng.source.record(mod.relpath, tree.body[0] if False else next(n for n in tree.body if isinstance(n, ast.ClassDef) and n.name == "Generator"), GEN + ":Generator(def-use)")
    par = parents(tree)
    eng.cover("flow.generator")
    for opt, attr, sink in (("unroll_loops", "map_mode", "map"), ("inline_functions", "function_mode", "call")):
        reads = [n for n in ast.walk(tree) if is_option_read(n, opt)]
        ok_reads = []
        for r in reads:
            st = enclosing(r, par, (ast.Assign,))
            fn = enclosing(r, par, (ast.FunctionDef,))
            ok_reads.append(st is not None and len(st.targets) == 1 and isinstance(st.targets[0], ast.Attribute) and st.targets[0].attr == attr and
                            isinstance(st.targets[0].value, ast.Name) and st.targets[0].value.id == "self" and fn is not None and fn.name == "__init__")
        eng.prove("flow.%s_only_defines_%s" % (opt, attr), z3.BoolVal(len(reads) >= 1 and all(ok_reads)), reads=[r.lineno for r in reads])
        uses = [n for n in ast.walk(tree) if isinstance(n, ast.Attribute) and n.attr == attr]
        stores = [u for u in uses if isinstance(u.ctx, ast.Store)]
        eng.prove("flow.%s_assigned_once_in_init" % attr, z3.BoolVal(len(stores) == 1 and enclosing(stores[0], par, (ast.FunctionDef,)).name == "__init__"))
        bad = []
        for u in uses:
            if isinstance(u.ctx, ast.Store):
                continue
            p = par.get(u)
            if sink == "map":
                ok = isinstance(p, ast.Call) and isinstance(p.func, ast.Attribute) and p.func.attr == "map" and len(p.args) >= 2 and p.args[1] is u
            else:
                ok = isinstance(p, ast.Starred) and isinstance(par.get(p), ast.Call) and isinstance(par[p].func, ast.Attribute) and par[p].func.attr == "call" \
                    and par[p].args[-1] is p
            if not ok:
                bad.append(u.lineno)
        # (P) the option's only effect is the representation argument handed to CasADi
        eng.prove("flow.%s_only_read_as_casadi_%s_argument" % (attr, sink), z3.BoolVal(not bad and len(uses) > len(stores)), other_uses_at_lines=bad)
    # neither option (nor its attribute) is read anywhere else in the casadi backend
    for other in ("pymoca.backends.casadi.model", "pymoca.backends.casadi.api"):
        t2 = eng.source.module_ast(eng.load_module(other).relpath)
        hits = [n.lineno for n in ast.walk(t2) if (isinstance(n, ast.Attribute) and n.attr in ("map_mode", "function_mode")) or
                is_option_read(n, "unroll_loops") or is_option_read(n, "inline_functions")]
        eng.prove("flow.loop_and_function_options_unused_in_%s" % other.split(".")[-1], z3.BoolVal(not hits), lines=hits)


def h_expand_mx_flow(eng):
    mod = eng.load_module(MODEL)
    tree = eng.source.module_ast(mod.relpath)
    cls = next(n for n in tree.body if isinstance(n, ast.ClassDef) and n.name == "Model")
    eng.source.record(mod.relpath, cls, MODEL + ":Model(def-use)")
    par = parents(tree)
    eng.cover("flow.model")
    reads = [n for n in ast.walk(tree) if is_option_read(n, "expand_mx")]
    kinds = []
    for r in reads:
        iff = enclosing(r, par, (ast.If,))
        k = "other"
        if iff is not None and any(r is x for x in ast.walk(iff.test)):
            stores = [t for st in iff.body for t in ast.walk(st) if isinstance(t, ast.Attribute) and isinstance(t.ctx, ast.Store)]
            raises = [st for st in iff.body if isinstance(st, ast.Raise)]
            mentions_vectors = any(is_option_read(x, "expand_vectors") for x in ast.walk(iff.test))
            if iff.test is r and stores and all(t.attr == "_expand_mx_func" for t in stores) and not iff.orelse:
                k = "selects-expansion"
            elif isinstance(iff.test, ast.UnaryOp) and iff.test.operand is r and len(iff.body) == 1 and raises:
                k = "guard-raises"
            elif mentions_vectors and isinstance(iff.test, ast.BoolOp) and isinstance(iff.test.op, ast.And):
                k = "with-expand_vectors"
        kinds.append((r.lineno, k))
    eng.prove("flow.expand_mx_reads_are_classified", z3.BoolVal(bool(reads) and all(k != "other" for _, k in kinds)), reads=kinds)
    eng.prove("flow.expand_mx_selects_the_expansion_exactly_once", z3.BoolVal(sum(1 for _, k in kinds if k == "selects-expansion") == 1), reads=kinds)
    # _expand_mx_func: defined as identity in __init__ and as x.expand() under the option; only applied to a
    # ca.Function(...) that is returned
    uses = [n for n in ast.walk(tree) if isinstance(n, ast.Attribute) and n.attr == "_expand_mx_func"]
    bad = []
    for u in uses:
        if isinstance(u.ctx, ast.Store):
            st = par.get(u)
            ok = isinstance(st, ast.Assign) and isinstance(st.value, ast.Lambda)
            if ok:
                body = st.value.body
                ok = (isinstance(body, ast.Name)) or (isinstance(body, ast.Call) and isinstance(body.func, ast.Attribute) and body.func.attr == "expand" and not body.args)
        else:
            call = par.get(u)
            ok = isinstance(call, ast.Call) and call.func is u and len(call.args) == 1 and isinstance(call.args[0], ast.Call) and \
                isinstance(call.args[0].func, ast.Attribute) and call.args[0].func.attr == "Function" and isinstance(par.get(call), ast.Return)
        if not ok:
            bad.append(u.lineno)
    eng.prove("flow.expansion_only_wraps_returned_casadi_functions", z3.BoolVal(not bad and len(uses) >= 3), lines=bad)
    # generator.py does not look at expand_mx at all
    t2 = eng.source.module_ast(eng.load_module(GEN).relpath)
    hits = [n.lineno for n in ast.walk(t2) if is_option_read(n, "expand_mx")]
    eng.prove("flow.expand_mx_unused_in_generator", z3.BoolVal(not hits), lines=hits)


def h_index_expression_flow(eng):
    """A subscript expression of the loop variable, x[f(i)], is an MX whose STRUCTURE depends on inline_functions (Generator.get_integer
    builds it with F.call(..., *function_mode): inlined operations or one call node).  Its VALUES at the loop values do not.  The
    ForLoop class may therefore only evaluate it -- hand it to ca.Function as the output expression and call that function on the
    loop values -- besides asking what kind of object it is; differentiating it, asking for its operations or testing whether it
    is constant would let a representation option decide the subscripts."""
    mod = eng.load_module(GEN)
    tree = eng.source.module_ast(mod.relpath)
    cls = next(n for n in tree.body if isinstance(n, ast.ClassDef) and n.name == "ForLoop")
    eng.source.record(mod.relpath, cls, GEN + ":ForLoop(def-use)")
    par = parents(tree)
    eng.cover("flow.index_expression")
    methods = {f.name: f for f in cls.body if isinstance(f, ast.FunctionDef)}
    todo = [(f, "index_expr") for f in methods.values() if any(a.arg == "index_expr" for a in f.args.args + f.args.kwonlyargs)]
    seen, bad = set(), []
    while todo:
        f, name = todo.pop()
        if (f.name, name) in seen:
            continue
        seen.add((f.name, name))
        for u in ast.walk(f):
            if not (isinstance(u, ast.Name) and u.id == name and isinstance(u.ctx, ast.Load)):
                continue
            p = par.get(u)
            if isinstance(p, ast.Call) and isinstance(p.func, ast.Name) and p.func.id == "isinstance" and p.args and p.args[0] is u:
                continue                                  # what kind of object
            if isinstance(p, ast.Compare) and all(isinstance(o, (ast.Is, ast.IsNot)) for o in p.ops):
                continue                                  # identity with the loop variable
            if isinstance(p, ast.List) and isinstance(par.get(p), ast.Call) and isinstance(par[p].func, ast.Attribute) and par[p].func.attr == "Function" \
                    and len(par[p].args) >= 3 and par[p].args[2] is p:
                continue                                  # the output expression of a function that is then evaluated
            if isinstance(p, ast.Call) and isinstance(p.func, ast.Attribute) and isinstance(p.func.value, ast.Name) and p.func.value.id == "self" \
                    and p.func.attr in methods:
                callee = methods[p.func.attr]
                formals = [a.arg for a in callee.args.args][1:]
                if u in p.args and p.args.index(u) < len(formals):
                    todo.append((callee, formals[p.args.index(u)]))
                    continue
            if isinstance(p, ast.Call) and isinstance(p.func, ast.Name) and u in p.args:
                # a helper defined inside this method or at module level: followed into its parameter
                local = [n for n in ast.walk(f) if isinstance(n, ast.FunctionDef) and n is not f and n.name == p.func.id] + \
                        [n for n in tree.body if isinstance(n, ast.FunctionDef) and n.name == p.func.id]
                if local and p.args.index(u) < len(local[0].args.args):
                    todo.append((local[0], local[0].args.args[p.args.index(u)].arg))
                    continue
            if isinstance(p, ast.keyword) and isinstance(par.get(p), ast.Call) and isinstance(par[p].func, ast.Attribute) and \
                    isinstance(par[p].func.value, ast.Name) and par[p].func.value.id == "self" and par[p].func.attr in methods:
                todo.append((methods[par[p].func.attr], p.arg))
                continue
            bad.append((f.name, u.lineno))
    eng.prove("flow.loop_subscript_expressions_are_only_evaluated_never_inspected", z3.BoolVal(bool(seen) and not bad), other_uses=bad)


def h_metadata_instruction_inspection(eng):
    """The one place where pymoca itself looks INSIDE a CasADi expression whose shape depends on inline_functions -- the list of
    allowed operations of variable_metadata_function's affine shortcut -- must not admit an operation that can hide a non-affine
    body (a non-inlined call is ONE instruction).  This is C13's contract of variable_metadata_function, run here because a
    representation-only option decides whether the function body or a call node is what the list is tested against."""
    from . import C13
    C13.h_metadata_function(eng)


HARNESSES = [("generator.py def-use of unroll_loops / inline_functions", h_generator_flow),
             ("model.py def-use of expand_mx", h_expand_mx_flow),
             ("generator.py ForLoop: subscript expressions of the loop variable are evaluated, not inspected", h_index_expression_flow),
             ("Model.variable_metadata_function: operations admitted to the affine shortcut", h_metadata_instruction_inspection)]
EXPECTED_COVER = {"flow.generator", "flow.model", "flow.index_expression", "meta.done"}
BOUNDED = True
LEVEL = "other"
TRUSTED = ["Python's ast module as the reader of the source", "CasADi: Function.map(name, mode, ...), Function.call(args, always_inline, never_inline) and Function.expand() preserve function values for every mode (this IS the dependency-side content of the property)",
           "no reflection (getattr with computed names / __dict__ access) reads these options"]
ASSUMPTIONS = [
    "decided: pymoca-side non-interference as a syntactic def-use contract (a sufficient condition); numeric equality of the eight option combinations is sampled by the bounded replay only",
    "with expand_vectors the code deliberately takes a different route depending on expand_mx (when vectors are expanded); that interaction is outside the decided scope and covered by the replay",
]
EXPLANATION = ("Information-flow (def-use) contract checked on the real AST: the three representation options only reach the CasADi arguments that select the "
               "representation. No SMT queries are needed; obligations are syntactic facts about the current source. Level 'other': a sufficient static condition plus bounded numeric comparison.")
MANIFEST = {
    "category": "other",
    "text": "A def-use (non-interference) contract is checked on the current AST of generator.py and model.py: unroll_loops and inline_functions are read once to define map_mode / function_mode, which are only ever passed as the mode arguments of CasADi's map/call; expand_mx only selects whether the four output functions are wrapped in .expand(), guards one documented error, or appears together with expand_vectors. Any other read (a branch, a comparison, a dedup keyed on the mode, ...) fails a named obligation. The numeric equality itself is CasADi's and is sampled by a bounded replay over all 8 option combinations on models with loops, functions and delays. ForLoop may only evaluate a subscript expression of the loop variable (ca.Function output called on the loop values), never inspect or differentiate it (def-use through helper methods and local functions).",
    "note": "Static sufficient condition, not a proof of numeric equivalence; CasADi's three transformations are trusted to preserve values; the expand_mx x expand_vectors interaction is only sampled.",
    "technique": "contract-based verification of a frame / information-flow condition: syntactic def-use obligations over the real source (no solver), plus bounded replay",
}
