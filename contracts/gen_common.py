"""Shared helper: a casadi Generator instance built by its REAL constructor inside the symbolic executor, so that fields a change adds
to Generator.__init__ (caches, flags) exist in every harness; the harness then overrides the fields it controls."""
from pyvc.values import PyRaise, Unsupported, VClass, VDict, VList, VObj

GEN = "pymoca.backends.casadi.generator"


def new_generator(eng, gm, fields, options=None):
    gcls = eng.module_global(gm, "Generator")
    klass = VObj(VClass("Class"), {"name": "M", "symbols": VDict(), "type": "model"})
    root = VObj(VClass("Tree"), {"classes": VDict([("M", klass)])})
    opts = VDict([("unroll_loops", True), ("inline_functions", True), ("expand_vectors", False)])
    if options:
        for k, v in options.items():
            if k in opts.keys:
                opts.vals[opts.keys.index(k)] = v
            else:
                opts.keys.append(k)
                opts.vals.append(v)
    model_cls = gm.globals.get("Model") if hasattr(gm, "globals") else None
    saved = None
    if isinstance(model_cls, VClass):
        saved = model_cls.constructor if hasattr(model_cls, "constructor") else None
        model_cls.constructor = lambda eng, c, a, k: VObj(c, {"time": None, "inputs": VList([]), "delay_states": VList([]), "delay_arguments": VList([])})
    try:
        g = eng.call(gcls, [root, "M", opts], {})
    except (Unsupported, PyRaise):
        g = VObj(gcls, {})
    finally:
        if isinstance(model_cls, VClass):
            if saved is None:
                try:
                    del model_cls.constructor
                except AttributeError:
                    pass
            else:
                model_cls.constructor = saved
    g.fields.update(fields)
    return g
