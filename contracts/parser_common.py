"""Shared helpers for contracts on pymoca.parser.ASTListener: the REAL listener class is instantiated inside the
symbolic executor; ANTLR parse-tree contexts are modelled as objects of stub context classes (so isinstance tests on
ModelicaParser.<X>Context work) whose accessor methods return what the harness put there.  The order in which
ANTLR's ParseTreeWalker calls enter*/exit* for a given rule is emulated by the harness (trusted: ANTLR runtime)."""
from pyvc.values import Ext, NoOp, Unsupported, VClass, VDict, VList, VObj, stub

from .api_common import ModuleStub
from .ast_common import AstFactory, base_modules
from . import copy_model

PARSER = "pymoca.parser"


class CtxClasses(Ext):
    """ModelicaParser: attribute <X>Context -> a class object (created on demand, stable per engine path)"""

    def __init__(self):
        self.classes = {}

    def sym_getattr(self, eng, name):
        if name not in self.classes:
            self.classes[name] = VClass(name)
        return self.classes[name]


class Tok(Ext):
    """terminal node / token"""

    def __init__(self, text):
        self.text = text
        self.symbol = self

    def sym_getattr(self, eng, name):
        if name == "getText":
            return stub(lambda eng: self.text)
        if name in ("text", "symbol"):
            return getattr(self, name)
        raise Unsupported("token.%s" % name)


def setup(eng):
    base_modules(eng)
    eng.ext_modules["copy"] = copy_model.module()
    pclasses = CtxClasses()
    anything = ModuleStub("stub", {})
    for m in ("hashlib", "pickle", "platform", "sqlite3", "time", "antlr4", "antlr4.Parser", "pathlib", "datetime"):
        eng.ext_modules[m] = ModuleStub(m, {"timedelta": NoOp(), "Path": NoOp(), "Parser": NoOp()})
    eng.ext_modules["pymoca"] = ModuleStub("pymoca", {"__version__": "0.0"})
    eng.ext_modules["pymoca.generated.ModelicaLexer"] = ModuleStub("lexer", {"ModelicaLexer": VClass("ModelicaLexer")})
    eng.ext_modules["pymoca.generated.ModelicaListener"] = ModuleStub("listener", {"ModelicaListener": VClass("ModelicaListener")})
    eng.ext_modules["pymoca.generated.ModelicaParser"] = ModuleStub("parser", {"ModelicaParser": pclasses})
    A = AstFactory(eng)
    mod = eng.load_module(PARSER)
    listener = eng.call(eng.module_global(mod, "ASTListener"), [], {})
    return A, listener, pclasses


def ctx(eng, pclasses, kind, **members):
    """a parse-tree context of class ModelicaParser.<kind>Context.  members: name -> value; callables are wrapped so that
    ctx.name() returns value (lists returned as lists); names starting with '=' are plain attributes (ANTLR labels)."""
    o = VObj(pclasses.sym_getattr(eng, kind + "Context"))
    o.fields["parentCtx"] = None          # ANTLR sets it; None for a context the harness does not nest
    for k, v in members.items():
        if k.startswith("label_"):
            o.fields[k[6:]] = v
        else:
            # ANTLR accessor: ctx.rule() is the list of children of that rule (or the only child), ctx.rule(i) the i-th
            o.fields[k] = stub((lambda val: (lambda eng, *a: val.items[a[0]] if a and isinstance(val, VList) and isinstance(a[0], int) else val))(v))
    return o


def call(eng, listener, method, c):
    if ("pymoca.parser:ASTListener." + method) not in eng.source.extracted:
        try:
            eng.find_function(PARSER, "ASTListener." + method)      # records file / lines / hash of the method under contract
        except Unsupported:
            pass
    from pyvc.values import PyRaise
    try:
        m = eng.getattr(listener, method, None, None)
    except PyRaise:
        m = None
    if m is None:
        return None        # ANTLR's generated base listener has an empty enter/exit method for every rule
    return eng.call(m, [c], {})


def put_ast(eng, listener, c, value):
    from pyvc import ops
    ops.setitem(eng, listener.fields["ast"], c, value)


def get_ast(eng, listener, c):
    d = listener.fields["ast"]
    for k, v in zip(d.keys, d.vals):
        if k is c:
            return v
    return None
