"""C16 replay / bounded stand-in: alias chains with random bounds through the real simplify(detect_aliases)."""
import itertools
import json
import sys

import numpy as np


def attr_txt(d):
    parts = []
    for k in ("min", "max", "nominal", "start"):
        if d.get(k) is not None:
            parts.append("%s = %r" % (k, d[k]))
    if d.get("fixed"):
        parts.append("fixed = true")
    return "(" + ", ".join(parts) + ")" if parts else ""


def build(canon_kind, canon, aliases):
    """aliases: list of (sign, attrs, via) ; via: index of the variable it is equated to (-1 canonical)"""
    lines = ["model M"]
    if canon_kind == "input":
        lines.append("  input Real x%s;" % attr_txt(canon))
    else:
        lines.append("  Real x%s;" % attr_txt(canon))
    for i, (s, at, via) in enumerate(aliases):
        lines.append("  Real a%d%s;" % (i, attr_txt(at)))
    lines.append("equation")
    if canon_kind == "state":
        lines.append("  der(x) = 1;")
    elif canon_kind == "alg":
        lines.append("  x = sin(time) + 2;")
    for i, (s, at, via) in enumerate(aliases):
        target = "x" if via < 0 else "a%d" % via
        lines.append("  a%d = %s%s;" % (i, "-" if s < 0 else "", target))
    lines.append("end M;")
    return "\n".join(lines)


def num(v):
    import casadi as ca
    try:
        return float(ca.DM(ca.MX(v))) if not isinstance(v, (int, float, bool)) else float(v)
    except Exception:
        return float(ca.Function("f", [], [ca.MX(v)])()["o0"])


def expected(canon, aliases):
    signs = []
    for i, (s, at, via) in enumerate(aliases):
        signs.append(s if via < 0 else s * signs[via])
    m = canon.get("min", None)
    m = -np.inf if m is None else m
    M = np.inf if canon.get("max") is None else canon["max"]
    nom = canon.get("nominal") or 0
    fixed = bool(canon.get("fixed"))
    start = canon.get("start")
    for sg, (s, at, via) in zip(signs, aliases):
        amin = -np.inf if at.get("min") is None else at["min"]
        amax = np.inf if at.get("max") is None else at["max"]
        m = max(m, amin if sg == 1 else -amax)
        M = min(M, amax if sg == 1 else -amin)
        nom = max(nom, at.get("nominal") or 0)
        fixed = fixed or bool(at.get("fixed"))
    return m, M, nom, fixed, start, signs


def run_case(canon_kind, canon, aliases):
    import pymoca.parser
    from pymoca.backends.casadi.generator import generate
    from pymoca.backends.casadi._options import _merge_default_options
    txt = build(canon_kind, canon, aliases)
    tree = pymoca.parser.parse(txt)
    model = generate(tree, "M", _merge_default_options({"detect_aliases": True}))
    model.simplify(_merge_default_options({"detect_aliases": True}))
    allv = {v.symbol.name(): v for v in model.states + model.alg_states + model.inputs}
    if "x" not in allv:
        return txt, "canonical x eliminated; remaining %s" % sorted(allv), None
    left = [n for n in allv if n.startswith("a")]
    x = allv["x"]
    m, M, nom, fixed, start, signs = expected(canon, aliases)
    got = (num(x.min), num(x.max), num(x.nominal), bool(num(x.fixed)))
    exp = (float(m), float(M), float(nom), bool(fixed))
    if left:
        return txt, "aliases not eliminated: %s" % left, "all aliases eliminated"
    if got != exp:
        return txt, "x: min,max,nominal,fixed = %r" % (got,), "%r" % (exp,)
    if start is not None:
        if num(x.start) != float(start):
            return txt, "x.start = %r" % num(x.start), "own start %r kept" % start
    else:
        explicit = [(sg, at["start"]) for sg, (s, at, via) in zip(signs, aliases) if at.get("start") is not None]
        if explicit:
            cands = {float(sg * st) for sg, st in explicit}
            if num(x.start) not in cands:
                return txt, "x.start = %r" % num(x.start), "sign-adjusted start of an alias, one of %s" % sorted(cands)
        elif num(x.start) != 0.0:
            return txt, "x.start = %r" % num(x.start), "default 0"
    return txt, None, None


def run_vector_case(expand_mx):
    """the canonical variable is an ELEMENT of an array (input / differentiated state) without a start of its own"""
    import pymoca.parser
    from pymoca.backends.casadi.generator import generate
    from pymoca.backends.casadi._options import _merge_default_options
    txt = ("model M input Real u[2]; Real x[2](each min = -9.0); Real a(start = 5.0, max = 8.0); Real b(start = 4.0, min = -6.0); Real c(start = 1.5); "
           "equation a = u[1]; b = -u[2]; c = -x[1]; der(x[1]) = 1; der(x[2]) = 2; end M;")
    o = _merge_default_options({"detect_aliases": True, "expand_vectors": True, "expand_mx": expand_mx})
    model = generate(pymoca.parser.parse(txt), "M", o)
    model.simplify(o)
    allv = {v.symbol.name(): v for v in model.states + model.alg_states + model.inputs}
    want = {"u[1]": (5.0, None, 8.0), "u[2]": (-4.0, None, 6.0), "x[1]": (-1.5, -9.0, None)}
    for n_, (st, mn, mx) in want.items():
        if n_ not in allv:
            return txt, "%s not among the remaining variables %s" % (n_, sorted(allv)), "canonical %s kept" % n_
        v = allv[n_]
        if num(v.start) != st:
            return txt, "%s.start = %r (expand_mx=%s)" % (n_, num(v.start), expand_mx), "sign-adjusted start %r of its alias" % st
        if mn is not None and num(v.min) != mn:
            return txt, "%s.min = %r" % (n_, num(v.min)), "%r" % mn
        if mx is not None and num(v.max) != mx:
            return txt, "%s.max = %r" % (n_, num(v.max)), "%r" % mx
    return txt, None, None


def run_two_pass_case(kind, s_new, s_old, canon, at_b, at_a):
    """B and A are aliased in a first detect_aliases pass; after constant replacement a second pass finds x = (+-)B:
    x must end up with the signed intersection over x, B and A"""
    import pymoca.parser
    from pymoca.backends.casadi.generator import generate
    from pymoca.backends.casadi._options import _merge_default_options
    lines = ["model M", "  %sReal x%s;" % ("input " if kind == "input" else "", attr_txt(canon)), "  Real B%s;" % attr_txt(at_b), "  Real A%s;" % attr_txt(at_a),
             "  constant Real c = 0;", "equation"]
    if kind == "state":
        lines.append("  der(x) = 1;")
    lines.append("  A = %sB;" % ("-" if s_old < 0 else ""))
    lines.append("  x = c %s B;" % ("-" if s_new < 0 else "+"))
    lines.append("end M;")
    txt = "\n".join(lines) + "\n# simplify(detect_aliases); simplify(replace_constant_values); simplify(detect_aliases)"
    model = generate(pymoca.parser.parse("\n".join(lines)), "M", _merge_default_options({}))
    for o in ({"detect_aliases": True}, {"replace_constant_values": True}, {"detect_aliases": True}):
        model.simplify(_merge_default_options(o))
    allv = {v.symbol.name(): v for v in model.states + model.alg_states + model.inputs}
    if "x" not in allv:
        return txt, "canonical x eliminated; remaining %s" % sorted(allv), None
    left = [n for n in allv if n in ("A", "B")]
    if left:
        return txt, "aliases not eliminated after the second pass: %s" % left, "B and A eliminated"
    x = allv["x"]
    m, M, nom, fixed, start, signs = expected(canon, [(s_new, at_b, -1), (s_old, at_a, 0)])
    got = (num(x.min), num(x.max), num(x.nominal), bool(num(x.fixed)))
    exp = (float(m), float(M), float(nom), bool(fixed))
    if got != exp:
        return txt, "x: min,max,nominal,fixed = %r" % (got,), "%r" % (exp,)
    if start is not None and num(x.start) != float(start):
        return txt, "x.start = %r" % num(x.start), "own start %r kept" % start
    if start is None:
        cands = {float(sg * at["start"]) for sg, at in zip(signs, (at_b, at_a)) if at.get("start") is not None}
        if cands and num(x.start) not in cands:
            return txt, "x.start = %r" % num(x.start), "sign-adjusted start of an alias, one of %s" % sorted(cands)
    return txt, None, None


def two_pass_cases():
    out = []
    for kind in ("state", "input"):
        for s_new in (1, -1):
            for s_old in (1, -1):
                out.append(("two-pass", kind, s_new, s_old, {"min": -6.0, "max": 9.0}, {"min": -4.0, "max": 4.0, "nominal": 10.0, "fixed": True, "start": 3.0}, {"max": 2.0, "nominal": 7.0}))
    return out


def cases(tier, seed):
    rng = np.random.RandomState(seed + 16)
    out = []
    one_sided = [{"min": 1.0}, {"max": -1.0}, {"min": -5.0, "max": 4.0}, {}, {"min": 2.0, "nominal": 3.0}, {"max": 6.0, "fixed": True},
                 {"start": 2.5}, {"min": -3.0, "start": -1.0, "nominal": 0.5}]
    for kind in ("state", "alg", "input"):
        for s in (1, -1):
            for ca_, aa in itertools.product(one_sided[:5], one_sided):
                out.append((kind, ca_, [(s, aa, -1)]))
    n_rand = 40 if tier == "quick" else 400
    for _ in range(n_rand):
        def rnd():
            d = {}
            if rng.rand() < 0.6:
                d["min"] = float(rng.randint(-9, 3))
            if rng.rand() < 0.6:
                d["max"] = float(rng.randint(4, 12))
            if rng.rand() < 0.4:
                d["nominal"] = float(rng.randint(1, 9))
            if rng.rand() < 0.3:
                d["fixed"] = True
            if rng.rand() < 0.4:
                d["start"] = float(rng.randint(-3, 4))
            return d
        k = rng.randint(2, 4)
        al = []
        for i in range(k):
            al.append((int(rng.choice([1, -1])), rnd(), int(rng.randint(-1, i))))
        out.append((str(rng.choice(["state", "alg", "input"])), rnd(), al))
    return out


def main():
    payload = json.load(sys.stdin)
    tier, seed = payload.get("tier", "quick"), int(payload.get("seed", 0) or 0)
    failures, n = [], 0
    for c in [("vector", False), ("vector", True)] + two_pass_cases() + cases(tier, seed):
        n += 1
        try:
            txt, obs, exp = run_vector_case(c[1]) if c[0] == "vector" else (run_two_pass_case(*c[1:]) if c[0] == "two-pass" else run_case(*c))
        except BaseException as e:  # noqa
            txt, obs, exp = ("vector model" if c[0] == "vector" else ("two-pass model %r" % (c[1:4],) if c[0] == "two-pass" else build(*c))), "%s: %s" % (type(e).__name__, str(e)[:120]), "simplify succeeds"
        if obs:
            # negative alias bounds may legitimately make min > max (empty intersection): still the intersection
            failures.append({"class": "alias-metadata", "input": txt, "observed": obs, "expected": exp})
            if len(failures) >= 3:
                break
    if payload.get("mode") == "bounded":
        print(json.dumps({"performed": True, "cases": n, "distinct_nontrivial": n, "failures": failures,
                          "rule": "canonical x (state / algebraic / input) with 1-3 aliases a_i = +-x or +-a_j (chains), bounds one-sided / two-sided / absent, nominals, fixed, starts: systematic pairs plus random chains, plus canonical variables that are elements of an expanded array, plus two-pass histories (B~A in a first pass, x = +-B found after constant replacement in a second pass; state / input canonical, all sign pairs) (seed %d); after the real simplify(detect_aliases) the canonical's min/max/nominal/fixed/start are compared with the signed intersection" % seed,
                          "bound": "%d models" % n}))
    else:
        f = failures[0] if failures else None
        print(json.dumps({"performed": True, "reproduces": f is not None, "input": f and f["input"], "observed": f and f["observed"],
                          "expected": f and f["expected"], "input_class": "alias-metadata"}))


if __name__ == "__main__":
    main()
