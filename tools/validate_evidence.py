#!/usr/bin/env python3
"""Validate evidence/<id>.json the way the harness does: JSON schema, level equal to the level claimed in
MANIFEST.json, and for a proof-level record discharged == obligations.  usage: validate_evidence.py [ID ...]"""
import json
import os
import subprocess
import sys

VERIF = os.path.dirname(os.path.dirname(os.path.abspath(__file__)))
SCHEMA = "/root/.vp/EVIDENCE.schema.json"


def problems(pid, manifest, schema):
    chk = [c for c in manifest["checks"] if c["property_id"] == pid]
    if not chk:
        return ["not in MANIFEST.checks"]
    chk = chk[0]
    path = os.path.join(VERIF, chk["evidence_file"]) if not os.path.isabs(chk["evidence_file"]) else chk["evidence_file"]
    if not os.path.exists(path):
        return ["evidence file missing: %s" % path]
    try:
        ev = json.load(open(path))
    except ValueError as e:
        return ["not JSON: %s" % e]
    out = []
    if schema is not None:
        import jsonschema
        for e in jsonschema.Draft202012Validator(schema).iter_errors(ev):
            out.append("schema: %s at %s" % (e.message[:200], "/".join(map(str, e.path))))
    if ev.get("property_id") != pid:
        out.append("property_id %r" % ev.get("property_id"))
    want = chk["level_claimed"]["category"]
    if ev.get("level") != want:
        out.append("level is %r but MANIFEST level_claimed.category is %r" % (ev.get("level"), want))
    cov = ev.get("coverage", {})
    if ev.get("level") == "proof" and cov.get("discharged") != cov.get("obligations"):
        out.append("coverage.discharged (%s) != obligations (%s)" % (cov.get("discharged"), cov.get("obligations")))
    if not cov.get("samples"):
        out.append("no samples")
    return out


def main():
    manifest = json.load(open(os.path.join(VERIF, "MANIFEST.json")))
    try:
        import jsonschema  # noqa: F401
        schema = json.load(open(SCHEMA)) if os.path.exists(SCHEMA) else None
    except ImportError:
        schema = None
    ids = sys.argv[1:] or [c["property_id"] for c in manifest["checks"]]
    bad = 0
    for pid in ids:
        p = problems(pid, manifest, schema)
        if p:
            bad += 1
            print("%s: %s" % (pid, "; ".join(p)))
        else:
            print("ok %s%s" % (pid, "" if schema is not None else " (schema not checked: jsonschema/schema file absent)"))
    return 1 if bad else 0


if __name__ == "__main__":
    if os.environ.get("_VE_REEXEC") != "1":
        try:
            import jsonschema  # noqa: F401
        except ImportError:
            os.environ["_VE_REEXEC"] = "1"
            try:
                os.execvp("python3-vt", ["python3-vt", os.path.abspath(__file__)] + sys.argv[1:])
            except OSError:
                pass
    sys.exit(main())
