"""C06 replay / bounded stand-in: interleavings of deepcopy, AST edits and flatten on real parsed libraries."""
import copy
import itertools
import json
import sys

LIB = """package L
  function f input Real a; output Real r; algorithm r := 2 * a; end f;
  model Leaf Real x; equation x = 1; end Leaf;
  model Base Real b; equation b = 2; end Base;
  model Mid extends Base; Leaf leaf; Real m; equation m = leaf.x + b + f(b); end Mid;
  model Top Mid mid; Real t; equation t = mid.m; end Top;
end L;"""
# a package that uses another package's classes through an unqualified import, listed BEFORE it (deepcopy reaches P first)
LIB2 = """package P
  import Q.*;
  model User Part part; Real u; equation u = part.x; end User;
end P;
package Q
  model Part Real x; equation x = 3; end Part;
end Q;"""
EDIT_TARGETS = ["L.Leaf", "L.Base", "L.f"]
FLATTEN = ["L.Top", "L.Mid", "L.Leaf", "L.f"]


def get_class(tree, path):
    c = tree
    for n in path.split("."):
        c = c.classes[n]
    return c


def dump(tree, cls):
    import pymoca.ast as ast
    from pymoca.tree import flatten
    # flatten works on a private deep copy so that flattening itself cannot disturb the experiment (C05 is separate)
    t = copy.deepcopy(tree)
    try:
        c = flatten(t, ast.ComponentRef.from_string(cls)).classes[cls]
    except Exception as e:  # noqa
        return "%s: %s" % (type(e).__name__, str(e)[:80])
    return json.dumps({"symbols": sorted(c.symbols), "n_eq": len(c.equations), "n_stmt": len(c.statements)}, sort_keys=True)


def edit(tree, target, k):
    import pymoca.ast as ast
    c = get_class(tree, target)
    if c.type == "function":
        c.add_symbol(ast.Symbol(name="extra%d" % k, type=ast.ComponentRef(name="Real"), prefixes=["protected"]))
    elif k % 2 == 0:
        c.add_symbol(ast.Symbol(name="extra%d" % k, type=ast.ComponentRef(name="Real")))
        c.add_equation(ast.Equation(left=ast.ComponentRef(name="extra%d" % k), right=ast.Primary(value=k)))
    else:
        c.add_equation(ast.Equation(left=ast.ComponentRef(name=list(c.symbols)[0]), right=ast.Primary(value=10 + k)))


def judge(hist, lib=LIB, classes=None):
    """hist: list of steps ('copy', src) | ('edit', tree_index, target) | ('flatten', tree_index, class: flatten on the tree ITSELF).
    Reference = replaying the edits on fresh parses."""
    import pymoca.parser
    import pymoca.ast as ast_
    from pymoca.tree import flatten as flatten_
    LIB_, FLATTEN_ = lib, (classes or FLATTEN)
    trees = [pymoca.parser.parse(LIB_)]
    edits = [[]]
    for k, st in enumerate(hist):
        if st[0] == "copy":
            trees.append(copy.deepcopy(trees[st[1]]))
            edits.append(list(edits[st[1]]))
        elif st[0] == "flatten":
            flatten_(trees[st[1]], ast_.ComponentRef.from_string(st[2]))
        elif st[0] == "carry":
            # carry a looked-up (class-level) copy of an unedited class of tree src over into tree dst, replacing dst's equal class
            src, dst, target = st[1], st[2], st[3]
            c = trees[src].find_class(ast_.ComponentRef.from_string(target), copy=True)
            get_class(trees[dst], target.rsplit(".", 1)[0]).add_class(c)
        else:
            edit(trees[st[1]], st[2], k)
            edits[st[1]].append((st[2], k))
    for i, t in enumerate(trees):
        ref = pymoca.parser.parse(LIB_)
        for target, k in edits[i]:
            edit(ref, target, k)
        for cls in FLATTEN_:
            got, want = dump(t, cls), dump(ref, cls)
            if got != want:
                return "tree %d (edits %s): flatten(%s) gives %s, a fresh parse with the same edits gives %s" % (i, edits[i], cls, got, want)
        for c in _classes(t):
            if c.parent is not None and not _within(c.parent, t):
                return "tree %d: class %s has a parent outside its tree" % (i, c.name)
    return None


def _classes(t):
    out = []
    for c in t.classes.values():
        out.append(c)
        out += _classes(c)
    return out


def _within(c, t):
    while c is not None:
        if c is t:
            return True
        c = c.parent
    return False


def histories(tier):
    out = []
    for tgt in EDIT_TARGETS:
        out.append([("copy", 0), ("edit", 1, tgt)])
        out.append([("copy", 0), ("edit", 0, tgt)])
        out.append([("copy", 0), ("edit", 1, tgt), ("copy", 1), ("edit", 2, tgt)])
        out.append([("edit", 0, tgt), ("copy", 0), ("copy", 1), ("edit", 1, tgt)])
        out.append([("copy", 0), ("copy", 1), ("edit", 2, tgt), ("edit", 0, "L.Leaf")])
    for tgt in ("L.Base", "L.Leaf"):
        out.append([("copy", 0), ("carry", 0, 1, tgt)])
        out.append([("copy", 0), ("copy", 1), ("carry", 1, 2, tgt), ("edit", 2, tgt)])
        out.append([("copy", 0), ("carry", 1, 0, tgt), ("edit", 0, "L.f")])
    # look-ups made while flattening on the tree itself (memoised imports) must not make later copies share classes
    for tgt in ("Q.Part", "P.User"):
        out.append(("LIB2", [("flatten", 0, "P.User"), ("copy", 0), ("edit", 1, tgt)]))
        out.append(("LIB2", [("flatten", 0, "P.User"), ("copy", 0), ("edit", 0, tgt), ("copy", 1), ("edit", 2, tgt)]))
        out.append(("LIB2", [("copy", 0), ("flatten", 1, "P.User"), ("copy", 1), ("edit", 2, tgt), ("flatten", 0, "P.User"), ("copy", 0), ("edit", 0, tgt)]))
    if tier != "quick":
        for a, b in itertools.product(EDIT_TARGETS, repeat=2):
            out.append([("copy", 0), ("edit", 1, a), ("copy", 1), ("edit", 1, b), ("copy", 0), ("edit", 3, a)])
    return out


def main():
    payload = json.load(sys.stdin)
    failures, n = [], 0
    for h in histories(payload.get("tier", "quick")):
        n += 1
        try:
            bad = judge(h[1], LIB2, ["P.User", "Q.Part"]) if isinstance(h, tuple) else judge(h)
        except BaseException as e:  # noqa
            bad = "%s: %s" % (type(e).__name__, str(e)[:150])
        if bad:
            failures.append({"class": "copy-history", "input": ([h[0]] + [list(s) for s in h[1]]) if isinstance(h, tuple) else [list(s) for s in h], "observed": bad, "expected": "every tree flattens like a fresh parse with exactly its own edits"})
            if len(failures) >= 3:
                break
    if payload.get("mode") == "bounded":
        print(json.dumps({"performed": True, "cases": n, "distinct_nontrivial": n, "failures": failures,
                          "rule": "histories of deepcopy (incl. copies of copies), add_symbol/add_equation edits and carrying a looked-up class copy from one tree into another on a model, a base class and a function of a real library; every tree is flattened (4 classes that reach the edited ones through components, extends and calls) and compared with a fresh parse carrying exactly that tree's edits; a second library with an unqualified import (importing package listed first) is flattened ON the tree before it is copied; parents must lie inside the tree",
                          "bound": "%d histories" % n}))
    else:
        f = failures[0] if failures else None
        print(json.dumps({"performed": True, "reproduces": f is not None, "input": f and f["input"], "observed": f and f["observed"],
                          "expected": f and f["expected"], "input_class": "copy-history"}))


if __name__ == "__main__":
    main()
