"""C07 -- hierarchical flattening instantiates every component once.

Modular contracts on the real functions of pymoca.tree, each proved with its callees (and its own recursive
calls) under contract, so that the composition holds for every depth by structural induction:

  flatten_symbols (real body; recursive call, flatten_component_refs, apply_symbol_modifications,
      fully_scope_function_calls under contract): for an arbitrary (symbolic) non-empty instance name and for
      the top level, a class with an elementary variable, a variable of a type alias, a component and an own
      equation: flat names are instance prefix + declared name; the component is flattened exactly once, under
      its dotted name, and every variable / equation it returns is taken over (dimensions prefixed by the
      component's); declared type kept; parameter/constant/discrete/flow prefixes kept; input/output dropped
      iff nested; own equations renamed with the instance prefix against the flat container.
  ComponentRefFlattener.enterComponentRef (real body): a reference a.b.c under prefix p becomes the flat name
      p+a.b.c exactly when that flat variable exists; its indices are the concatenated indices; otherwise the
      reference is left alone, and so are references inside pending modifications.
  flatten_extends (real body; find_class and the recursive call under contract): inherited symbols and
      equations of every base and the class's own are all present exactly once; own declarations win;
      each base is flattened once with the extends clause's modification.
  build_instance_tree symbol loop (real fragment): every non-elementary symbol gets an instance tree built
      from ITS OWN copy of the class (two components of one class never share an instance).
"""
import z3

from pyvc import ops
from pyvc.values import Ext, NoOp, PyRaise, Unsupported, VBound, VDict, VList, VObj, stub

from . import copy_model
from .api_common import ModuleStub
from .ast_common import AstFactory, base_modules

AST = "pymoca.ast"
TREE = "pymoca.tree"


def setup(eng):
    base_modules(eng)
    eng.ext_modules["copy"] = copy_model.module()
    return AstFactory(eng)


def put(eng, d, k, v):
    ops.setitem(eng, d, k, v)


def sval(x):
    return x if isinstance(x, str) else None


def same_str(eng, a, b):
    """z3 claim that two (possibly symbolic) strings are equal"""
    if isinstance(a, str) and isinstance(b, str):
        return z3.BoolVal(a == b)
    ta = z3.StringVal(a) if isinstance(a, str) else a
    tb = z3.StringVal(b) if isinstance(b, str) else b
    return ta == tb


def cat(*parts):
    if all(isinstance(p, str) for p in parts):
        return "".join(parts)
    return z3.Concat(*[z3.StringVal(p) if isinstance(p, str) else p for p in parts])


PREFIX_SETS = [[], ["parameter"], ["constant"], ["discrete"], ["flow"], ["input"], ["output"], ["input", "parameter"]]


# ------------------------------------------------------------------------------------------------ flatten_symbols step
def h_flatten_symbols_step(eng):
    A = setup(eng)
    f = eng.find_function(TREE, "flatten_symbols")
    nested = eng.choice(2)
    if nested:
        N = eng.fresh_str("instance_name")
        eng.assume(N != z3.StringVal(""))
    else:
        N = ""
    eng.input("instance_name", N)
    pre = cat(N, ".") if nested else ""
    prefixes = PREFIX_SETS[eng.choice(len(PREFIX_SETS))]
    eng.input("declared_prefixes", prefixes)
    cls = A.new("InstanceClass", name="C", type="model")
    # an elementary variable with prefixes, declared type Integer, one dimension
    e = A.new("Symbol", name="e", type=A.ref("Integer"), prefixes=VList(list(prefixes)))
    edim = A.prim(3)
    e.fields["dimensions"] = VList([VList([edim])])
    put(eng, cls.fields["symbols"], "e", e)
    # a variable of a type alias (type Volt = Real)
    alias = A.new("InstanceClass", name="Volt", type="__builtin")
    val = A.new("Symbol", name="__value", type=A.ref("Real"))
    val.fields["class_modification"] = A.new("ClassModification")
    put(eng, alias.fields["symbols"], "__value", val)
    t = A.new("Symbol", name="t", type=alias, prefixes=VList(list(prefixes)))
    put(eng, cls.fields["symbols"], "t", t)
    # a component with array dimension [2]
    sub = A.new("InstanceClass", name="S", type="model")
    s = A.new("Symbol", name="s", type=sub)
    sdim = A.prim(2)
    s.fields["dimensions"] = VList([VList([sdim])])
    put(eng, cls.fields["symbols"], "s", s)
    own_eq = A.new("Equation", left=A.ref("e"), right=A.ref("s", child=VList([A.ref("u")])))
    cls.fields["equations"] = VList([own_eq])
    calls = {"rec": [], "refs": []}
    state = {"outer": True}
    sub_eq = A.new("Equation", left=A.ref("SUBEQ"), right=A.prim(0))
    udim = A.prim(5)

    def rec(eng, args, kwargs):
        if state["outer"]:
            state["outer"] = False
            return eng.call_function(f, list(args), kwargs, bypass_contract=True)
        c, name = args[0], (args[1] if len(args) > 1 else kwargs.get("instance_name", ""))
        calls["rec"].append((c, name))
        # assumed contract of the recursive call (the induction hypothesis): variables named name.<leaf>, equations already renamed
        out = A.new("Class", name="S", type="model")
        for leaf, pf in (("u", ["parameter"]), ("w.z", [])):
            k = cat(name, ".", leaf)
            sym = A.new("Symbol", name=k, type=A.ref("Real"), prefixes=VList(list(pf)))
            if leaf == "u":
                sym.fields["dimensions"] = VList([VList([udim])])
            put(eng, out.fields["symbols"], k, sym)
        out.fields["equations"] = VList([sub_eq])
        return out

    def refs(eng, args, kwargs):
        calls["refs"].append((args[0], args[1], args[2]))
        return args[1]
    eng.call_contracts["flatten_symbols"] = rec
    eng.call_contracts["flatten_component_refs"] = refs
    eng.call_contracts["fully_scope_function_calls"] = lambda eng, args, kwargs: args[1]
    eng.call_contracts["apply_symbol_modifications"] = lambda eng, args, kwargs: None
    flat = eng.call(f, [cls, N], {})
    eng.cover("step.nested" if nested else "step.top")
    syms = flat.fields["symbols"]

    def lookup(key):
        for k, v in zip(syms.keys, syms.vals):
            d = eng.decided(same_str(eng, k, key)) if (ops.is_sym(k) or ops.is_sym(key)) else (k == key)
            if d:
                return v
        return None
    fe, ft = lookup(cat(pre, "e")), lookup(cat(pre, "t"))
    # (P) one flat variable per elementary leaf, named by its dotted instance path
    eng.prove("step.elementary_variable_named_by_instance_path", z3.BoolVal(fe is not None) if fe is None else same_str(eng, fe.fields["name"], cat(pre, "e")))
    eng.prove("step.alias_typed_variable_named_by_instance_path", z3.BoolVal(ft is not None) if ft is None else same_str(eng, ft.fields["name"], cat(pre, "t")))
    eng.prove("step.exactly_the_leaf_variables", z3.BoolVal(len(syms.keys) == 4), keys=[str(k) for k in syms.keys])
    # (P) declared type kept
    eng.prove("step.elementary_variable_keeps_declared_type_and_dimensions",
              z3.BoolVal(fe is not None and fe.fields["type"].fields["name"] == "Integer" and fe.fields["dimensions"].items[0].items[0] is edim))
    eng.prove("step.alias_typed_variable_gets_the_base_type", z3.BoolVal(ft is not None and isinstance(ft.fields["type"], VObj) and ft.fields["type"].cls.name == "ComponentRef" and
                                                                        ft.fields["type"].fields["name"] == "Real"))
    # (P) parameter/constant/discrete/flow kept; input/output only at top level
    want = [p for p in prefixes if not (nested and p in ("input", "output"))]
    for label, fs in (("elementary", fe), ("alias_typed", ft)):
        got = list(fs.fields["prefixes"].items) if fs is not None else None
        eng.prove("step.%s_prefixes_kept_and_input_output_only_at_top_level" % label, z3.BoolVal(got == want), got=got, want=want)
    # (P) the component is flattened exactly once, under its dotted name, and everything it returns is taken over
    eng.prove("step.component_flattened_exactly_once", z3.BoolVal(len(calls["rec"]) == 1 and calls["rec"][0][0] is sub), calls=len(calls["rec"]))
    if calls["rec"]:
        eng.prove("step.component_flattened_under_its_dotted_name", same_str(eng, calls["rec"][0][1], cat(pre, "s")))
    fu, fw = lookup(cat(pre, "s", ".", "u")), lookup(cat(pre, "s", ".", "w.z"))
    eng.prove("step.component_variables_taken_over", z3.BoolVal(fu is not None and fw is not None))
    if fu is not None:
        dims = fu.fields["dimensions"].items
        eng.prove("step.component_array_dimensions_prefix_the_leaf_dimensions",
                  z3.BoolVal(len(dims) == 2 and dims[0].items[0] is sdim and dims[1].items[0] is udim and list(fu.fields["prefixes"].items) == ["parameter"]))
    # (P) equations of every instance: the component's (already renamed) and the class's own, renamed with this prefix against the flat class
    eqs = flat.fields["equations"].items
    eng.prove("step.component_equations_and_own_equations_each_once", z3.BoolVal(sorted(map(id, eqs)) == sorted(map(id, [sub_eq, own_eq]))), n=len(eqs))
    own_calls = [c for c in calls["refs"] if c[1] is own_eq]
    eng.prove("step.own_equation_renamed_once_against_the_flat_class", z3.BoolVal(len(own_calls) == 1 and own_calls[0][0] is flat))
    if own_calls:
        eng.prove("step.own_equation_renamed_with_the_instance_prefix", same_str(eng, own_calls[0][2], pre))
    # every symbol definition is also passed through the renamer with the same prefix
    sym_calls = [c for c in calls["refs"] if isinstance(c[1], VObj) and c[1].cls.name == "Symbol"]
    eng.prove("step.symbol_definitions_renamed_with_the_instance_prefix", z3.BoolVal(len(sym_calls) == 4) if len(sym_calls) != 4 else
              z3.And([same_str(eng, c[2], pre) for c in sym_calls]))


# ------------------------------------------------------------------------------------------------ reference renaming
def h_reference_renaming(eng):
    A = setup(eng)
    cls = eng.module_global(eng.load_module(TREE), "ComponentRefFlattener")
    nested = eng.choice(2)
    P = eng.fresh_str("prefix") if nested else ""
    if nested:
        eng.assume(z3.SuffixOf(z3.StringVal("."), P))
        eng.assume(z3.Length(P) <= 6)
    eng.input("instance_prefix", P)
    depth = 1 + eng.choice(3)
    names = ["a", "b", "c"][:depth]
    idx = [A.prim(i + 1) for i in range(depth)]
    ref = None
    for n, ix in reversed(list(zip(names, idx))):
        r = A.ref(n)
        r.fields["indices"] = VList([VList([ix])])
        if ref is not None:
            r.fields["child"] = VList([ref])
        ref = r
    dotted = ".".join(names)
    exists = eng.choice(2)
    inside_mod = eng.choice(2)
    container = A.new("Class", name="flat", type="model")
    put(eng, container.fields["symbols"], cat(P, "zz"), A.new("Symbol", name="other"))
    if exists:
        put(eng, container.fields["symbols"], cat(P, dotted), A.new("Symbol", name="target"))
    eng.input("reference", dotted)
    eng.input("flat_variable_exists", bool(exists))
    listener = eng.call(cls, [container, P], {})
    if inside_mod:
        arg = A.new("ClassModificationArgument", scope=container)
        eng.call(eng.getattr(listener, "enterClassModificationArgument", None, None), [arg], {})
    eng.call(eng.getattr(listener, "enterComponentRef", None, None), [ref], {})
    eng.cover("rename.depth%d" % depth)
    eng.cover("rename.%s" % ("found" if exists else "missing"))
    if inside_mod:
        eng.cover("rename.inside_modification")
    if exists and not inside_mod:
        # (P) renamed to the flat name of the instance variable it denotes
        eng.prove("rename.reference_becomes_the_flat_name", same_str(eng, ref.fields["name"], cat(P, dotted)))
        eng.prove("rename.flat_reference_has_no_children", z3.BoolVal(len(ref.fields["child"].items) == 0))
        got = [x.items[0] for x in ref.fields["indices"].items]
        eng.prove("rename.indices_are_concatenated_in_path_order", z3.BoolVal(len(got) == depth and all(a is b for a, b in zip(got, idx))))
    else:
        eng.prove("rename.unknown_or_pending_references_are_left_alone", z3.BoolVal(ref.fields["name"] == "a" and len(ref.fields["child"].items) == (1 if depth > 1 else 0)))


# ------------------------------------------------------------------------------------------------ flatten_extends
def h_flatten_extends(eng):
    A = setup(eng)
    f = eng.find_function(TREE, "flatten_extends")
    nbases = eng.choice(5 if getattr(eng, "tier", "quick") == "thorough" else 3)
    eng.input("bases", nbases)
    own_wins = eng.choice(2)
    me = A.new("Class", name="D", type="model")
    root = A.new("Tree", name="root")
    eng.call(VBound(eng.find_function(AST, "Class.add_class"), root), [me], {})
    own_x = A.new("Symbol", name="x")
    own_eq = A.new("Equation", left=A.ref("x"), right=A.prim(1))
    put(eng, me.fields["symbols"], "x", own_x)
    if own_wins:
        put(eng, me.fields["symbols"], "b0", A.new("Symbol", name="b0"))     # redeclares what base 0 declares
    me.fields["equations"] = VList([own_eq])
    bases, mods, base_eqs, base_syms = [], [], [], []
    for i in range(nbases):
        m = A.new("ClassModification")
        mods.append(m)
        me.fields["extends"].items.append(A.new("ExtendsClause", component=A.ref("B%d" % i), class_modification=m))
        b = A.new("Class", name="B%d" % i, type="model")
        eng.call(VBound(eng.find_function(AST, "Class.add_class"), root), [b], {})
        bases.append(b)
    calls = []
    state = {"outer": True}

    def rec(eng, args, kwargs):
        if state["outer"]:
            state["outer"] = False
            return eng.call_function(f, list(args), kwargs, bypass_contract=True)
        c = args[0]
        i = bases.index(c.origin) if hasattr(c, "origin") else -1
        calls.append((i, args[1] if len(args) > 1 else kwargs.get("modification_environment")))
        # induction hypothesis: the base, with everything IT inherits, as an instance class
        out = A.new("InstanceClass", name=c.fields["name"], type="model")
        sy = A.new("Symbol", name="b%d" % i)
        eq = A.new("Equation", left=A.ref("b%d" % i), right=A.prim(i))
        put(eng, out.fields["symbols"], "b%d" % i, sy)
        put(eng, out.fields["symbols"], "shared", A.new("Symbol", name="shared"))
        out.fields["equations"] = VList([eq])
        base_eqs.append(eq)
        base_syms.append(sy)
        return out

    def find_class(eng, args, kwargs):
        name = args[1].fields["name"]
        b = bases[int(name[1:])]
        cp = A.new("Class", name=b.fields["name"], type="model")     # a copy, with the lexical parent
        cp.fields["parent"] = root
        cp.origin = b
        return cp
    eng.call_contracts["flatten_extends"] = rec
    eng.call_contracts["Class.find_class"] = find_class
    out = eng.call(f, [me], {})
    eng.cover("extends.%d_bases" % nbases)
    if own_wins:
        eng.cover("extends.own_redeclares")
    # (P) every base flattened exactly once, in order, with the extends clause's modification
    eng.prove("extends.each_base_flattened_once_with_its_modification", z3.BoolVal(sorted(c[0] for c in calls) == list(range(nbases)) and all(c[1] is mods[c[0]] for c in calls)))
    # (P) inherited equations of every base (in order), then the own ones
    # (P) inherited equations of every base and the own ones, each exactly once (their order is not part of the property)
    eng.prove("extends.inherited_and_own_equations_each_once", z3.BoolVal(sorted(id(e) for e in out.fields["equations"].items) == sorted(id(e) for e in base_eqs + [own_eq])))
    keys = list(out.fields["symbols"].keys)
    want = []
    for i in range(nbases):
        for k in ("b%d" % i, "shared"):
            if k not in want:
                want.append(k)
    for k in ["x"] + (["b0"] if own_wins else []):
        if k not in want:
            want.append(k)
    eng.prove("extends.inherited_and_own_symbols_each_once", z3.BoolVal(sorted(keys) == sorted(want)), got=keys, want=want)
    vals = dict(zip(out.fields["symbols"].keys, out.fields["symbols"].vals))
    eng.prove("extends.own_symbol_is_the_declared_object", z3.BoolVal(vals.get("x") is own_x))
    if own_wins and nbases:
        eng.prove("extends.own_declaration_wins_over_inherited", z3.BoolVal(vals.get("b0") is me.fields["symbols"].vals[1]))
    eng.prove("extends.result_is_a_new_instance_class", z3.BoolVal(out is not me and out.cls.name == "InstanceClass" and out.fields["symbols"] is not me.fields["symbols"]))
    # (P, carried across two sites) build_instance_tree instantiates nested classes first and later runs flatten_extends AGAIN on a deep
    # copy of such an already-extended instance class (one per component of that type): "each inherited equation exactly once" survives
    # only if an instance class inherits nothing further, i.e. the result carries no extends clause of its own
    ext_after = out.fields.get("extends")
    eng.prove("extends.result_inherits_nothing_further", z3.BoolVal(isinstance(ext_after, VList) and len(ext_after.items) == 0))
    # ... and then a second application on the result is the identity on equations and symbols (checked by running the real function again)
    state["outer"] = True
    n_calls = len(calls)
    try:
        again = eng.call(f, [out], {})
    except PyRaise as e:
        eng.prove("extends.second_application_adds_nothing", False, exc=repr(e.exc))
        return
    eng.prove("extends.second_application_adds_nothing", z3.BoolVal(
        len(calls) == n_calls and [id(e) for e in again.fields["equations"].items] == [id(e) for e in out.fields["equations"].items]
        and list(again.fields["symbols"].keys) == list(out.fields["symbols"].keys)))


# ------------------------------------------------------------------------------------------------ one instance per component
def symbol_loop_selector(fn):
    import ast as _ast
    for st in fn.body:
        if isinstance(st, _ast.For) and isinstance(st.target, _ast.Tuple) and [getattr(e, "id", None) for e in st.target.elts] == ["sym_name", "sym"]:
            return [st]
    raise KeyError("symbol loop")


def h_one_instance_per_component(eng):
    A = setup(eng)
    ext = A.new("InstanceClass", name="M", type="model")
    ext.fields["modification_environment"] = A.new("ClassModification")
    comp_class = A.new("Class", name="Comp", type="model")
    names = ["c1", "c2", "r"]
    for n in names:
        put(eng, ext.fields["symbols"], n, A.new("Symbol", name=n, type=A.ref("Comp" if n != "r" else "Real")))
    copies, built = [], []

    def find_class(eng, args, kwargs):
        if args[1].fields["name"] == "Real":
            raise PyRaise(eng.make_exc("FoundElementaryClassError", ""))
        cp = A.new("Class", name="Comp", type="model")
        cp.fields["parent"] = ext
        copies.append(cp)
        return cp

    def bit(eng, args, kwargs):
        inst = A.new("InstanceClass", name="Comp", type="model")
        built.append((args[0], inst))
        return inst
    eng.call_contracts["Class.find_class"] = find_class
    eng.call_contracts["build_instance_tree"] = bit
    eng.call_contracts["extends_builtin"] = lambda eng, args, kwargs: False
    eng.exec_fragment(TREE, "build_instance_tree", symbol_loop_selector, {"extended_orig_class": ext, "orig_class": ext}, label="symbol-loop")
    eng.cover("instances.loop")
    vals = dict(zip(ext.fields["symbols"].keys, ext.fields["symbols"].vals))
    t1, t2 = vals["c1"].fields["type"], vals["c2"].fields["type"]
    # (P) every component is instantiated once, from its own copy of the class
    eng.prove("instances.each_component_gets_an_instance_tree", z3.BoolVal(len(built) == 2 and t1 is built[0][1] and t2 is built[1][1]))
    eng.prove("instances.two_components_of_one_class_do_not_share_an_instance", z3.BoolVal(t1 is not t2 and len(copies) == 2 and built[0][0] is copies[0] and built[1][0] is copies[1] and copies[0] is not copies[1]))
    eng.prove("instances.elementary_variables_keep_their_type_reference", z3.BoolVal(vals["r"].fields["type"].cls.name == "ComponentRef" and vals["r"].fields["type"].fields["name"] == "Real"))
    eng.prove("instances.pending_symbol_modification_is_cleared_after_instantiation", z3.BoolVal(vals["c1"].fields["class_modification"] is None and vals["c2"].fields["class_modification"] is None))


# ------------------------------------------------------------------------------------------------ class look-up rules
def spec_lookup(scope, names):
    """Modelica's look-up of a (dotted) class name from a scope, on the harness's object tree: the FIRST name is searched in the scope's
    own classes, then its qualified imports, then its unqualified imports, then the enclosing scope (unless encapsulated); the REST of the
    name is searched strictly inside what the first name denotes.  Returns the class object or None."""
    def child(c, n):
        d = c.fields["classes"]
        return d.vals[d.keys.index(n)] if n in d.keys else None

    def root_of(c):
        while c.fields.get("parent") is not None:
            c = c.fields["parent"]
        return c

    def full(start, path):
        cur = start
        for n in path:
            cur = child(cur, n)
            if cur is None:
                return None
        return cur

    def first(sc, n):
        c = child(sc, n)
        if c is not None:
            return c
        imps = sc.fields["imports"]
        if n in imps.keys:
            return full(root_of(sc), sc.import_paths[n])
        for pkg in getattr(sc, "wildcards", []):
            c = full(root_of(sc), pkg + [n])
            if c is not None:
                return c
        par = sc.fields.get("parent")
        if par is not None and not sc.fields.get("encapsulated"):
            return first(par, n)
        return None
    c = first(scope, names[0])
    for n in names[1:]:
        if c is None:
            return None
        c = child(c, n)
    return c


def h_lookup_rules(eng):
    """ast.Class._find_class (real, recursive) against the look-up rules, for simple and DOTTED names through own classes, qualified
    and unqualified imports and enclosing scopes; every query is made twice on the same tree (the unqualified-import branch memoises
    its hit) and must give the same, specified class both times."""
    A = setup(eng)
    f = eng.find_function(AST, "Class._find_class")
    add = eng.find_function(AST, "Class.add_class")
    root = A.new("Tree", name="root")

    def mk(name, typ, parent):
        c = A.new("Class", name=name, type=typ)
        eng.call(VBound(add, parent), [c], {})
        return c
    lib = mk("Lib", "package", root)
    parts = mk("Parts", "package", lib)
    tank = mk("Tank", "model", parts)
    valve = mk("Valve", "model", tank)
    seat = mk("Seat", "model", valve)
    pump = mk("Pump", "model", parts)
    other = mk("Other", "package", lib)
    gauge = mk("Gauge", "model", other)
    dial = mk("Dial", "model", gauge)
    plants = mk("Plants", "package", lib)
    drain = mk("Drain", "model", plants)
    local = mk("Local", "model", plants)
    inner = mk("Inner", "model", local)
    top_valve = mk("Valve", "model", lib)         # the short name Valve denotes THIS class from inside Lib.Plants
    star = A.new("ImportClause", components=VList([A.ref("Lib", child=VList([A.ref("Parts")]))]), unqualified=True)
    put(eng, plants.fields["imports"], "*", star)
    put(eng, plants.fields["imports"], "G", A.new("ImportClause", components=VList([A.ref("Lib", child=VList([A.ref("Other", child=VList([A.ref("Gauge")]))]))]), short_name="G"))
    plants.wildcards = [["Lib", "Parts"]]
    plants.import_paths = {"G": ["Lib", "Other", "Gauge"]}
    for c in (root, lib, parts, tank, valve, seat, pump, other, gauge, dial, drain, local, inner, top_valve):
        c.wildcards, c.import_paths = getattr(c, "wildcards", []), getattr(c, "import_paths", {})
    QUERIES = [["Tank"], ["Tank", "Valve"], ["Tank", "Valve", "Seat"], ["Pump"], ["Valve"], ["Local"], ["Local", "Inner"], ["G"], ["G", "Dial"],
               ["Lib", "Parts", "Tank", "Valve"], ["Parts", "Pump"], ["Other", "Gauge"], ["Missing"], ["Tank", "Missing"], ["Pump", "Valve"]]
    q = QUERIES[eng.choice(len(QUERIES))]
    scope = [plants, drain][eng.choice(2)]
    eng.input("query", ".".join(q))
    eng.input("from_scope", scope.fields["name"])

    def ref_of(names):
        r = None
        for n in reversed(names):
            r = A.ref(n, child=VList([r] if r is not None else []))
        return r
    want = spec_lookup(scope, q)
    got = []
    for attempt in range(2):
        try:
            got.append(eng.call(VBound(f, scope), [ref_of(q)], {}))
        except PyRaise as e:
            got.append(("raises", e.exc.cls.name if isinstance(e.exc, VObj) else "?"))
    eng.cover("lookup.found" if want is not None else "lookup.missing")
    def same(g):
        return g is want if want is not None else (isinstance(g, tuple) and g[1] in ("ClassNotFoundError", "KeyError"))
    label = lambda g: g.fields.get("name") if isinstance(g, VObj) else repr(g)
    eng.prove("lookup.dotted_and_simple_names_denote_the_class_the_rules_select", z3.BoolVal(bool(same(got[0]))), got=label(got[0]),
              want=want.fields["name"] if want is not None else "not found")
    eng.prove("lookup.repeating_a_lookup_on_the_same_tree_gives_the_same_class", z3.BoolVal(bool(same(got[1]) and (got[0] is got[1] or got[0] == got[1]))),
              first=label(got[0]), second=label(got[1]))


def h_instances_share_nothing_with_the_tree(eng):
    """Every instance is built from its OWN copy of the classes it uses: flatten_symbols edits prefix lists in place (it strips
    input / output from nested symbols), so a symbol or prefix list shared between the parsed tree, a nested instance and a
    top-level instance would let the flattening of one component change the prefixes of another variable.  This is C05's ownership
    contract of tree.py (objects of the tree only flow into parent links, look-ups or copies), which C07 depends on for
    "each flat variable keeps its declared prefixes; input/output survive on top-level components"."""
    from contracts import C05
    C05.h_ownership(eng)


HARNESSES = [("flatten_symbols: one level, recursive call under contract", h_flatten_symbols_step),
             ("ComponentRefFlattener.enterComponentRef", h_reference_renaming),
             ("flatten_extends: bases under contract", h_flatten_extends),
             ("build_instance_tree: symbol loop", h_one_instance_per_component), ("ast.Class._find_class: look-up rules", h_lookup_rules),
             ("tree.py: instances are built from copies (ownership)", h_instances_share_nothing_with_the_tree)]
EXPECTED_COVER = {"step.nested", "step.top", "rename.depth1", "rename.depth2", "rename.depth3", "rename.found", "rename.missing", "rename.inside_modification",
                  "extends.0_bases", "extends.1_bases", "extends.2_bases", "extends.own_redeclares", "instances.loop", "lookup.found", "lookup.missing", "ownership.tree"}
BOUNDED = True
LEVEL = "proof"
TRUSTED = ["copy.deepcopy follows CPython's documented protocol (contracts/copy_model.py)", "Class.find_class returns a copy of the class the Modelica lookup rules select (lookup rules themselves are not under contract here; sampled by the bounded replay)",
           "TreeWalker visits every ComponentRef of an expression once, parents before children (the renamer is proved per visited reference)"]
ASSUMPTIONS = [
    "induction over the hierarchy depth: each function is proved for one level with its recursive call replaced by the contract it proves (names = prefix + path, equations already renamed); the base case is the class without components",
    "width: the step is proved for a class with one variable of each kind (elementary, alias-typed, component) and one own equation; loop iterations write disjoint keys, which is visible in the step but not proved for arbitrarily many symbols",
    "instance names are arbitrary non-empty strings (symbolic); declared names, reference paths (depth 1-3) and prefix lists (8 patterns) are enumerated",
    "functions pulled into the flat class, connectors (C09) and modifications (C08) are outside this property's contracts",
]
EXPLANATION = ("Modular proof by structural induction: flatten_symbols, flatten_extends, the reference renamer and build_instance_tree's symbol loop are each executed symbolically (real source) "
               "with callees and recursive calls under contract; instance names are symbolic strings. A bounded replay generates whole hierarchies and compares the real flatten result with an independent reference flattening.")
MANIFEST = {
    "category": "proof",
    "text": "Structural induction over the component hierarchy on the real source: (1) flatten_symbols for one level with its recursive call under the contract it establishes, for an arbitrary symbolic instance name and at top level, over eight prefix lists: flat names are prefix+declared name, the component is flattened exactly once under its dotted name and everything it returns is taken over with the component's array dimensions in front, declared types kept (alias types resolved to their base), parameter/constant/discrete/flow kept, input/output dropped iff nested, own and inherited equations each once and renamed with the instance prefix against the flat class; (2) the reference renamer: a.b.c (depth 1-3, symbolic prefix) becomes the flat name exactly when that variable exists, with concatenated indices, and is left alone otherwise or inside pending modifications; (3) flatten_extends with bases under contract: each base once with its clause's modification; inherited and own symbols/equations each exactly once, own declarations win; (4) build_instance_tree's symbol loop: each component is instantiated from its own copy of the class. A bounded replay generates hierarchies (depth <= 4, repeated instances, extends chains, multiple and enclosing-scope extends, nested classes, type aliases, arrays) and compares flatten's variables and equations with an independent reference flattening. C05's ownership contract of tree.py (instances are built from copies) is discharged here too, because the in-place strip of input/output relies on it.",
    "note": "Induction hypotheses are assumed contracts of the recursive calls; class lookup rules and TreeWalker's traversal are trusted and only sampled by the replay; width (number of symbols per class) is enumerated, not quantified.",
    "technique": "contract-based deductive verification: symbolic execution of the real functions with callees and recursive calls under contract (structural induction), z3 strings for instance names; bounded replay against a reference flattening",
}
