"""C11 -- the DAE residual equals the Modelica meaning of the flat equations (pymoca-side kernels).

Functions under contract (real source, whole functions):
  Generator.exitExpression      operator dispatch: every operator of the statement reaches a CasADi
                                method that EXISTS (interface facts introspected from the installed
                                casadi on every run) and that denotes the Modelica operator
  Generator.exitIfExpression    fold = ite(c1, e1, ite(c2, e2, ... else)) for any number of branches
  Generator.exitIfEquation      same fold over equation blocks, first true branch wins
  Generator.exitEquation        residual = left - right
  ForLoop.__init__              loop values = Modelica's range {start + k*step <= stop}
  Generator.exitForEquation     the loop body is one function of (index, indexed symbols, free symbols) mapped over EVERY loop
                                value, each formal bound to its own actual (x_j[indices_j], transposed iff flagged), free symbols
                                not iterated; the body stacks the equations in order; an empty range contributes nothing
  Generator.exitForStatement    same mapping; iteration i assigns variable j from row j, column i, iterations in loop order,
                                statements in body order inside an iteration
  Generator.exitIfStatement / exitAssignmentStatement   first true branch wins per assigned variable
  Generator.get_function        algorithm sections: statement k is substituted with the values assigned by statements < k
                                (sequential semantics), outputs in declaration order, translated once
  Generator.exitEquation (shapes)  surplus outputs of a function call are discarded from the END, row/column mismatch transposes
CasADi values are opaque terms recording which method produced them; the numeric meaning of each
CasADi method is assumed (sampled by the bounded replay, which evaluates real residuals).
"""
import json
import os
import subprocess

import z3

from pyvc import ops
from pyvc.values import Ext, NoOp, PyRaise, Unsupported, VBound, VClass, VDict, VList, VObj, VSlice, stub

from .api_common import CollectionsStub, ModuleStub
from .ast_common import AstFactory, base_modules

GEN = "pymoca.backends.casadi.generator"
from .casadi_facts import casadi_facts  # noqa: E402


class MXT(Ext):
    """casadi.MX term: attribute lookup follows the introspected interface"""
    type_names = ("MX",)

    def __init__(self, kind, args=(), shape=(1, 1)):
        self.kind, self.args, self.shape = kind, tuple(args), shape

    def sym_getattr(self, eng, name):
        if name == "shape":
            return self.shape
        if name in ("size1", "size2"):
            return stub(lambda eng: self.shape[0 if name == "size1" else 1])
        if name == "size":
            return stub(lambda eng, *a: self.shape if not a else self.shape[a[0] - 1])
        if name == "T":
            return MXT("T", (self,), self.shape[::-1])
        if name not in casadi_facts()["mx_attributes"]:
            raise PyRaise(eng.make_exc("AttributeError", "'MX' object has no attribute '%s'" % name))
        me = self
        return stub(lambda eng, *a: MXT("method:" + name, (me,) + tuple(a), me.shape))

    def sym_unop(self, eng, op):
        return MXT("unary:" + op, (self,), self.shape)

    def sym_binop(self, eng, op, other, reflected):
        return MXT("binop:" + op, (other, self) if reflected else (self, other), self.shape)

    def sym_getitem(self, eng, key):
        return MXT("getitem", (self, key))

    def sym_eq(self, eng, other):
        return self is other

    def __repr__(self):
        return "MXT(%s)" % self.kind


class CasadiModule(ModuleStub):
    """the casadi module: besides the functions modelled by hand, every function the installed module really has (introspected)
    exists; one that is also an MX method denotes the same operation as that method (assumed: CasADi binds both to one
    implementation), any other is an opaque CasADi operation `ca.<name>`; a name the module does not have raises AttributeError"""

    def sym_getattr(self, eng, name):
        if name in self.attrs:
            return self.attrs[name]
        facts = casadi_facts()
        if name in facts["module_functions"]:
            if name in facts["mx_attributes"]:
                return stub((lambda n: lambda eng, *a: MXT("method:" + n, a, a[0].shape if a and isinstance(a[0], MXT) else (1, 1)))(name))
            return stub((lambda n: lambda eng, *a: MXT("ca." + n, a))(name))
        if name.startswith("OP_") or name in ("pi", "inf", "nan"):
            raise Unsupported("casadi.%s" % name)
        raise PyRaise(eng.make_exc("AttributeError", "module 'casadi' has no attribute '%s'" % name))


def install(eng):
    base_modules(eng)
    mx = VClass("MX")
    mx.constructor = lambda eng, c, a, k: MXT("empty") if not a else (a[0] if isinstance(a[0], MXT) else MXT("const", (a[0],)))
    fns = {}
    for nme in ("if_else", "mtimes", "vertcat", "transpose", "sum1", "fmin", "fmax"):
        fns[nme] = stub((lambda n: lambda eng, *a: MXT("ca." + n, a))(nme))
    cas = CasadiModule("casadi", dict(fns, MX=mx, DM=VClass("DM")))
    eng.ext_modules["casadi"] = cas
    eng.ext_modules["numpy"] = ModuleStub("numpy", {"arange": stub(lambda eng, a, b, s=1, dtype=None: Arange(a, b, s))})
    eng.ext_modules["pymoca.tree"] = ModuleStub("pymoca.tree", {"TreeListener": VClass("TreeListener"), "TreeWalker": VClass("TreeWalker"), "flatten": None})
    gm = eng.load_module(GEN)
    return gm


class Arange(Ext):
    """np.arange(a, b, s): assumed contract {a + k*s | k >= 0, a + k*s < b} for s > 0 (> b for s < 0)"""

    def __init__(self, a, b, s):
        self.a, self.b, self.s = a, b, s


# Modelica operator -> the CasADi operation that denotes it
BINARY = {"+": "method:__add__", "-": "method:__sub__", "/": "method:__truediv__", "^": "method:__pow__", ">": "method:__gt__",
          "<": "method:__lt__", "<=": "method:__le__", ">=": "method:__ge__", "==": "method:__eq__", "<>": "method:__ne__",
          "and": "method:__mul__", "or": "method:__add__", "min": "method:fmin", "max": "method:fmax",
          ".*": "method:__mul__", "./": "method:__truediv__", ".+": "method:__add__", ".-": "method:__sub__", ".^": "method:__pow__",
          }
# elementary functions pymoca translates through the MX method of the same name (asin/acos/atan/atan2 are
# not among them: CasADi spells them arcsin..., and pymoca rejects them with "Unknown function" -- a loud
# failure, outside the supported subset, not a wrong residual)
UNARY_FN = ["abs", "sin", "cos", "tan", "exp", "log", "sqrt", "sinh", "cosh", "tanh", "log10", "floor", "ceil", "sign"]


def gen_obj(eng, gm, operands):
    from .gen_common import new_generator
    g = new_generator(eng, gm, {"src": VDict(), "function_mode": (True, False), "for_loops": VList([])})
    terms = {}

    def get_mx(eng, args, kw):
        t = args[1]
        if t in terms:
            return terms[t]
        for o, mt in operands:
            if t is o:
                return mt
        raise Unsupported("get_mx of an unexpected node")
    eng.call_contracts["Generator.get_mx"] = get_mx
    return g


def h_operator_dispatch(eng):
    gm = install(eng)
    A = AstFactory(eng)
    f = eng.find_function(GEN, "Generator.exitExpression")
    cases = [("binary", op) for op in BINARY] + [("unary-fn", fn) for fn in UNARY_FN] + [("neg", "-"), ("pos", "+"), ("not", "not"), ("mtimes", "*")]
    kind, op = cases[eng.choice(len(cases))]
    eng.input("operator", op)
    eng.input("kind", kind)
    n = 1 if kind in ("unary-fn", "neg", "pos", "not") else 2
    if kind == "mtimes":
        n = 2 + eng.choice(2)
    nodes = [A.ref("o%d" % i) for i in range(n)]
    terms = [MXT("operand%d" % i) for i in range(n)]
    g = gen_obj(eng, gm, list(zip(nodes, terms)))
    is_fn = kind == "unary-fn" or op in ("min", "max")
    tree = A.expr(A.ref(op) if is_fn else op, *nodes)
    try:
        eng.call(VBound(f, g), [tree], {})
    except PyRaise as e:
        eng.cover("op.raises")
        # (P) every operator of the statement is translated; in particular the CasADi method exists
        eng.prove("op.every_listed_operator_is_translated", False, exc=repr(e.exc), operator=op)
        return
    eng.cover("op.done")
    eng.prove("op.every_listed_operator_is_translated", True)
    r = ops.getitem(eng, g.fields["src"], tree)
    if kind == "binary":
        ok = isinstance(r, MXT) and r.kind == BINARY[op] and r.args[0] is terms[0] and r.args[1] is terms[1]
        eng.prove("op.binary_denotes_modelica_operator_on_left_right", z3.BoolVal(bool(ok)), got=repr(r), operator=op)
    elif kind == "unary-fn":
        want = "method:" + {"abs": "fabs"}.get(op, op)
        ok = isinstance(r, MXT) and r.kind == want and r.args[0] is terms[0] and len(r.args) == 1
        eng.prove("op.elementary_function_of_operand", z3.BoolVal(bool(ok)), got=repr(r), operator=op)
    elif kind == "neg":
        eng.prove("op.unary_minus", z3.BoolVal(isinstance(r, MXT) and r.kind == "unary:USub" and r.args[0] is terms[0]))
    elif kind == "pos":
        eng.prove("op.unary_plus", z3.BoolVal(r is terms[0]))
    elif kind == "not":
        ok = isinstance(r, MXT) and r.kind == "ca.if_else" and r.args[0] is terms[0] and r.args[1] == 0 and r.args[2] == 1
        eng.prove("op.not_is_one_minus_truth", z3.BoolVal(bool(ok)))
    else:
        cur, ok = r, True
        for t in reversed(terms[1:]):
            ok = ok and isinstance(cur, MXT) and cur.kind == "ca.mtimes" and cur.args[1] is t
            cur = cur.args[0] if ok else None
        ok = ok and cur is terms[0]
        eng.prove("op.matrix_product_left_associated_in_order", z3.BoolVal(bool(ok)))


def expected_ite(conds, exprs):
    """ite(c1, e1, ite(c2, e2, ... else)) as nested tuples"""
    out = exprs[-1]
    for c, e in zip(reversed(conds), reversed(exprs[:-1])):
        out = ("ite", c, e, out)
    return out


def shape_of(r):
    if isinstance(r, MXT) and r.kind == "ca.if_else":
        return ("ite", r.args[0], shape_of(r.args[1]), shape_of(r.args[2]))
    if isinstance(r, MXT) and r.kind == "ca.vertcat" and len(r.args) == 1:
        return r.args[0]
    return r


def h_if_expression(eng):
    gm = install(eng)
    A = AstFactory(eng)
    k = 1 + eng.choice(4)
    eng.input("branches_with_condition", k)
    cn = [A.ref("c%d" % i) for i in range(k)]
    en = [A.ref("e%d" % i) for i in range(k + 1)]
    ct = [MXT("cond%d" % i) for i in range(k)]
    et = [MXT("expr%d" % i) for i in range(k + 1)]
    g = gen_obj(eng, gm, list(zip(cn + en, ct + et)))
    tree = VObj(VClass("IfExpression"), {"conditions": VList(cn), "expressions": VList(en)})
    eng.call(VBound(eng.find_function(GEN, "Generator.exitIfExpression"), g), [tree], {})
    eng.cover("ifexpr.done")
    r = ops.getitem(eng, g.fields["src"], tree)
    eng.prove("ifexpr.first_true_branch_wins", z3.BoolVal(shape_of(r) == expected_ite(ct, et)))


def h_if_equation(eng):
    gm = install(eng)
    A = AstFactory(eng)
    k = 1 + eng.choice(3)
    eng.input("branches_with_condition", k)
    cn = [A.ref("c%d" % i) for i in range(k)] + [True]
    blocks, bt = [], []
    pairs = []
    for i in range(k + 1):
        e = A.ref("b%d" % i)
        t = MXT("block%d" % i)
        blocks.append(VList([e]))
        bt.append(t)
        pairs.append((e, t))
    ct = [MXT("cond%d" % i) for i in range(k)]
    g = gen_obj(eng, gm, pairs + list(zip(cn[:-1], ct)))
    tree = VObj(VClass("IfEquation"), {"conditions": VList(cn), "blocks": VList(blocks)})
    eng.call(VBound(eng.find_function(GEN, "Generator.exitIfEquation"), g), [tree], {})
    eng.cover("ifeq.done")
    r = ops.getitem(eng, g.fields["src"], tree)
    eng.prove("ifeq.first_true_branch_wins", z3.BoolVal(shape_of(r) == expected_ite(ct, bt)))


def h_equation(eng):
    gm = install(eng)
    A = AstFactory(eng)
    l, r = A.ref("l"), A.ref("r")
    lt, rt = MXT("left", shape=(3, 1)), MXT("right", shape=(3, 1))
    g = gen_obj(eng, gm, [(l, lt), (r, rt)])
    g.fields["root"] = VObj(VClass("Tree"), {"classes": VDict()})
    tree = A.new("Equation", left=l, right=r)
    eng.call(VBound(eng.find_function(GEN, "Generator.exitEquation"), g), [tree], {})
    eng.cover("eq.done")
    res = ops.getitem(eng, g.fields["src"], tree)
    eng.prove("eq.residual_is_left_minus_right", z3.BoolVal(isinstance(res, MXT) and res.kind == "binop:Sub" and res.args[0] is lt and res.args[1] is rt))


def h_for_range(eng):
    gm = install(eng)
    fl_cls = eng.module_global(gm, "ForLoop")
    eng.find_function(GEN, "ForLoop.__init__")
    start = eng.input("start", eng.fresh_int("start"))
    step = eng.input("step", eng.fresh_int("step"))
    stop = eng.input("stop", eng.fresh_int("stop"))
    eng.assume(step != 0)
    A = AstFactory(eng)
    stop_node = A.ref("n")
    rng = VObj(VClass("Slice"), {"start": A.prim(start), "step": A.prim(step), "stop": stop_node})
    idx = VObj(VClass("ForIndex"), {"name": "i", "expression": rng})
    tree = VObj(VClass("ForEquation"), {"indices": VList([idx])})
    gen = VObj(VClass("GeneratorStub"), {})
    gen.cls.attrs["get_integer"] = _get_integer(stop_node, stop)
    eng.call_contracts["_new_mx"] = lambda eng, args, kw: MXT("loopvar:" + str(args[0]))
    loop = eng.call(fl_cls, [gen, tree], {})
    eng.cover("range.done")
    vals = loop.fields.get("values")
    if not isinstance(vals, Arange):
        eng.prove("range.values_are_an_arange", False)
        return
    a, b, s = ops.to_arith(vals.a), ops.to_arith(vals.b), ops.to_arith(vals.s)
    x = z3.Int("xr")
    # (P) x is iterated  <=>  x = start + k*step for some k >= 0 and x does not pass stop
    in_arange = z3.If(s > 0, x < b, x > b)
    in_modelica = z3.If(step > 0, x <= stop, x >= stop)
    eng.prove("range.first_value_and_step", z3.And(a == start, s == step))
    eng.prove("range.upper_end_is_modelica_stop", z3.ForAll([x], in_arange == in_modelica))
    eng.prove("range.loop_variable_named", z3.BoolVal(loop.fields.get("name") == "i"))


def _get_integer(node, value):
    def gi(eng, selfobj, t):
        if t is node:
            return value
        raise Unsupported("get_integer of unexpected node")
    gi._pyvc_method = True
    return gi


# ---------------------------------------------------------------------------------------------
# round 3: for-loop mapping, algorithm sections (functions), shape adaptation of exitEquation
class MXSym(MXT):
    """a named CasADi symbol"""

    def __init__(self, name, shape=(1, 1)):
        MXT.__init__(self, "sym:" + name, (), shape)
        self.nm = name

    def sym_getattr(self, eng, name):
        if name == "name":
            return stub(lambda eng: self.nm)
        return MXT.sym_getattr(self, eng, name)


class Vals(Ext):
    """the loop's value array (np.ndarray of the range); only its length matters here"""

    def __init__(self, n):
        self.n = n

    def sym_len(self, eng):
        return self.n


class FnRec(Ext):
    """ca.Function / mapped function: records how it was built and called"""
    type_names = ("Function",)

    def __init__(self, log, name, inputs, outputs, parent=None, mapinfo=None):
        self.log, self.name, self.inputs, self.outputs, self.parent, self.mapinfo = log, name, inputs, outputs, parent, mapinfo

    def sym_getattr(self, eng, name):
        me = self
        if name == "map":
            def mp(eng, nm, mode, n, nonrep, nonrep_out):
                return FnRec(me.log, nm, me.inputs, me.outputs, parent=me, mapinfo=(mode, n, [x for x in eng.iterate(nonrep)], eng.iterate(nonrep_out)))
            return stub(mp)
        if name == "call":
            def cl(eng, args, *modes):
                a = eng.iterate(args)
                out = MXT("call-result", (me, tuple(a)), shape=(1, me.mapinfo[1]) if me.mapinfo is not None else (1, 1))
                me.log.append(("call", me, a, out))
                return VList([out])
            return stub(cl)
        raise Unsupported("Function.%s" % name)


def install_loops(eng, log):
    gm = install(eng)
    cas = eng.ext_modules["casadi"]
    cas.attrs["vec"] = stub(lambda eng, x: MXT("ca.vec", (x,)))
    cas.attrs["vcat"] = stub(lambda eng, xs: MXT("ca.vcat", tuple(eng.iterate(xs))))
    fn = VClass("Function")
    fn.constructor = lambda eng, c, a, k: FnRec(log, a[0], eng.iterate(a[1]), eng.iterate(a[2]))
    cas.attrs["Function"] = fn
    return gm, cas


SYMVAR_ORDERS = [lambda idx, ks, fr: fr + ks + [idx], lambda idx, ks, fr: [idx] + ks + fr,
                 lambda idx, ks, fr: ks[::-1] + fr[::-1] + [idx], lambda idx, ks, fr: fr[:1] + [idx] + ks + fr[1:]]


def _loop_fixture(eng, gm, cas, A, nk, nfree, statement_form):
    """a Generator with one open for-loop over `n` values, nk indexed symbols, nfree free symbols"""
    n = eng.input("number_of_loop_values", eng.fresh_int("nvals"))
    eng.assume(n >= 0)
    idx = MXSym("i")
    ks = [MXSym("x%d[i]" % j) for j in range(nk)]
    frees = [MXSym("p%d" % j) for j in range(nfree)]
    origs = [MXSym("x%d" % j, shape=(5, 1)) for j in range(nk)]
    transposes = [bool(eng.choice(2)) for _ in range(nk)]
    eng.input("transpose_flags", transposes)
    order = eng.choice(len(SYMVAR_ORDERS))
    eng.input("symvar_order", order)
    cas.attrs["symvar"] = stub(lambda eng, e: VList(SYMVAR_ORDERS[order](idx, ks, frees)))
    fl_cls = eng.module_global(gm, "ForLoop")
    nt = eng.module_global(gm, "ForLoopIndexedSymbol")
    isyms = VDict()
    isyms.ordered = True
    index_terms = []
    for j in range(nk):
        it = MXT("indices%d" % j)
        index_terms.append(it)
        isyms.keys.append(ks[j])
        isyms.vals.append(eng.call(nt, [A.ref("x%d" % j), transposes[j], it], {}))
    vals = Vals(n)
    loop = VObj(fl_cls, {"values": vals, "index_variable": idx, "name": "i", "indexed_symbols": isyms})
    klass = VObj(VClass("Class"), {"name": "M"})
    nodes = VDict([(klass, VDict([("x%d" % j, origs[j]) for j in range(nk)]))])
    model = VObj(VClass("Model"), {"delay_states": VList([]), "delay_arguments": VList([]), "inputs": VList([])})
    mode = "inline" if eng.choice(2) else "serial"
    from .gen_common import new_generator
    g = new_generator(eng, gm, {"src": VDict(), "for_loops": VList([loop]), "model": model, "nodes": nodes,
                                "entered_classes": VList([klass]), "map_mode": mode, "function_mode": (True, False)})
    return dict(n=n, idx=idx, ks=ks, frees=frees, origs=origs, transposes=transposes, index_terms=index_terms, vals=vals, g=g, mode=mode, loop=loop)


def _check_mapping(eng, fx, log, body_expr, prefix):
    """(P) the loop body function is mapped over every loop value with each formal argument bound to its own actual"""
    calls = [c for c in log if c[0] == "call"]
    ok = len(calls) == 1
    if not ok:
        eng.prove(prefix + ".body_mapped_once", False)
        return None
    _, fmap, actual, out = calls[0]
    eng.prove(prefix + ".body_mapped_once", z3.BoolVal(fmap.mapinfo is not None and fmap.parent is not None and fmap.parent.mapinfo is None))
    F = fmap.parent
    formals = F.inputs
    k, m = len(fx["ks"]), len(fx["frees"])
    want_formals = [fx["idx"]] + fx["ks"]
    head_ok = len(formals) == 1 + k + m and all(a is b for a, b in zip(formals[:1 + k], want_formals))
    tail = formals[1 + k:]
    tail_ok = len(tail) == m and all(any(t is f for f in fx["frees"]) for t in tail) and len({id(t) for t in tail}) == m
    eng.prove(prefix + ".formals_are_index_then_indexed_symbols_then_each_free_symbol_once", z3.BoolVal(bool(head_ok and tail_ok)))
    eng.prove(prefix + ".body_is_the_loop_body", z3.BoolVal(len(F.outputs) == 1 and F.outputs[0] is body_expr))
    mode, nmap, nonrep, nonrep_out = fmap.mapinfo
    eng.prove(prefix + ".mapped_over_every_loop_value", ops.to_arith(nmap) == fx["n"])
    eng.prove(prefix + ".map_mode_is_the_configured_one", z3.BoolVal(mode == fx["mode"]))
    eng.prove(prefix + ".only_the_free_symbols_are_not_iterated", z3.BoolVal(sorted(nonrep) == list(range(1 + k, 1 + k + m)) and nonrep_out == []))
    # actuals: values, then x_j[indices_j] (transposed iff flagged), then the free symbols in the formals' order
    act_ok = len(actual) == len(formals) and actual[0] is fx["vals"]
    for j in range(k):
        if not act_ok:
            break
        a = actual[1 + j]
        if fx["transposes"][j]:
            act_ok = isinstance(a, MXT) and a.kind == "ca.transpose" and len(a.args) == 1
            a = a.args[0] if act_ok else None
        act_ok = act_ok and isinstance(a, MXT) and a.kind == "getitem" and a.args[0] is fx["origs"][j] and a.args[1] is fx["index_terms"][j]
    act_ok = act_ok and all(a is f for a, f in zip(actual[1 + k:], tail))
    eng.prove(prefix + ".each_formal_bound_to_its_own_actual", z3.BoolVal(bool(act_ok)))
    return out


def h_for_equation(eng):
    log = []
    gm, cas = install_loops(eng, log)
    A = AstFactory(eng)
    wide = getattr(eng, "tier", "quick") == "thorough"
    if wide:
        eng.max_paths = max(eng.max_paths, 20000)      # the wider enumeration needs more than the default path budget
    nk, nfree = eng.choice(5 if wide else 4), eng.choice(4 if wide else 3)
    eng.input("indexed_symbols", nk)
    eng.input("free_symbols", nfree)
    fx = _loop_fixture(eng, gm, cas, A, nk, nfree, False)
    neq = 1 + eng.choice(2)
    eqs = [A.ref("eq%d" % j) for j in range(neq)]
    eterms = [MXT("residual%d" % j) for j in range(neq)]
    g = fx["g"]
    eng.call_contracts["Generator.get_mx"] = lambda eng, args, kw: next(t for e, t in zip(eqs, eterms) if e is args[1])
    tree = VObj(VClass("ForEquation"), {"equations": VList(eqs)})
    eng.call(VBound(eng.find_function(GEN, "Generator.exitForEquation"), g), [tree], {})
    r = ops.getitem(eng, g.fields["src"], tree)
    eng.prove("forloop.loop_is_closed", z3.BoolVal(len(g.fields["for_loops"].items) == 0))
    if not log:
        eng.cover("forloop.empty")
        eng.prove("forloop.empty_range_contributes_no_equation", z3.And(fx["n"] == 0, z3.BoolVal(isinstance(r, MXT) and r.kind == "empty")))
        return
    eng.cover("forloop.mapped")
    eng.prove("forloop.nonempty_range_is_mapped", fx["n"] > 0)
    body = None
    calls = [c for c in log if c[0] == "call"]
    if calls and calls[0][1].parent is not None:
        outs = calls[0][1].parent.outputs
        body = outs[0] if len(outs) == 1 else None
    body_ok = isinstance(body, MXT) and body.kind == "ca.vcat" and len(body.args) == neq and \
        all(isinstance(v, MXT) and v.kind == "ca.vec" and v.args[0] is t for v, t in zip(body.args, eterms))
    eng.prove("forloop.body_stacks_the_equations_in_order", z3.BoolVal(bool(body_ok)))
    out = _check_mapping(eng, fx, log, body, "forloop")
    eng.prove("forloop.result_is_the_mapped_residual", z3.BoolVal(out is not None and isinstance(r, MXT) and r.kind == "T" and r.args[0] is out))


def h_for_equation_with_delayed_symbol(eng):
    """exitForEquation when one of the loop's indexed symbols stands for delay(expr(i), duration): the delayed expression is mapped
    over the loop values exactly like the body (free symbols not iterated, the index bound to the values, every indexed symbol
    registered BEFORE it bound to its own slice), the delay argument keeps its duration and becomes that mapped expression, the
    model input that stands for the delayed value gets a symbol of the mapped size under the same name, and the loop body sees
    that whole symbol element by element.  Nothing else in the model's delay lists moves."""
    log = []
    gm, cas = install_loops(eng, log)
    A = AstFactory(eng)
    wide = getattr(eng, "tier", "quick") == "thorough"
    nk = 1 + eng.choice(3 if wide else 2)
    nfree = eng.choice(3 if wide else 2)
    pos = eng.choice(nk)                       # which indexed symbol is the delayed one
    eng.input("indexed_symbols", nk)
    eng.input("free_symbols", nfree)
    eng.input("delayed_symbol_position", pos)
    fx = _loop_fixture(eng, gm, cas, A, nk, nfree, False)
    g, ks, frees, idx = fx["g"], fx["ks"], fx["frees"], fx["idx"]
    mm = eng.load_module("pymoca.backends.casadi.model")
    DA = eng.module_global(mm, "DelayArgument")
    var_cls = eng.module_global(mm, "Variable")
    # the delayed symbol was created by exitExpression under the name of the delay state
    dname = "_pymoca_delay_1"
    ks[pos].nm = dname
    ks[pos].kind = "sym:" + dname
    dexpr, ddur = MXT("delayed-expression"), MXT("duration")
    other = eng.call(DA, [MXT("other-expression"), MXT("other-duration")], {})
    mine = eng.call(DA, [dexpr, ddur], {})
    inp_other = VObj(var_cls, {"symbol": MXSym("_pymoca_delay_0")})
    inp_mine = VObj(var_cls, {"symbol": ks[pos]})
    model = g.fields["model"]
    model.fields["delay_states"] = VList(["_pymoca_delay_0", dname])
    model.fields["delay_arguments"] = VList([other, mine])
    model.fields["inputs"] = VList([inp_other, inp_mine])
    # the delayed expression may mention free symbols, the index and the indexed symbols registered before the delayed one
    dvars = frees[:1] + [idx] + ks[:pos]
    body_symvar = cas.attrs["symvar"]
    cas.attrs["symvar"] = stub(lambda eng, e: VList(list(dvars)) if e is dexpr else eng.call(body_symvar, [e], {}))
    eng.call_contracts["_new_mx"] = lambda eng, args, kw: MXSym(str(args[0]), shape=tuple(args[1:]) if len(args) > 1 else (1, 1))
    eqs = [A.ref("eq0")]
    eterm = MXT("residual0")
    eng.call_contracts["Generator.get_mx"] = lambda eng, args, kw: eterm
    tree = VObj(VClass("ForEquation"), {"equations": VList(eqs)})
    try:
        eng.call(VBound(eng.find_function(GEN, "Generator.exitForEquation"), g), [tree], {})
    except PyRaise as e:
        eng.prove("fordelay.no_exception", False, exc=repr(e.exc))
        return
    if not log:
        eng.cover("fordelay.empty")
        eng.prove("fordelay.empty_range_leaves_the_delay_lists_alone", z3.And(fx["n"] == 0, z3.BoolVal(model.fields["delay_arguments"].items == [other, mine])))
        return
    eng.cover("fordelay.mapped")
    eng.prove("fordelay.no_exception", True)
    calls = [c for c in log if c[0] == "call"]
    dcalls = [c for c in calls if c[1].parent is not None and c[1].parent.name == "delay_expr"]
    bcalls = [c for c in calls if c[1].parent is not None and c[1].parent.name == "loop_body"]
    eng.prove("fordelay.delayed_expression_and_body_are_each_mapped_once", z3.BoolVal(len(dcalls) == 1 and len(bcalls) == 1 and len(calls) == 2))
    if len(dcalls) != 1 or len(bcalls) != 1:
        return
    _, dmap, dact, dout = dcalls[0]
    D = dmap.parent
    # formals: the free symbols of the loop body, the index, the indexed symbols registered before the delayed one
    body_formals = bcalls[0][1].parent.inputs
    free_formals = body_formals[1 + nk:]
    want = list(free_formals) + [idx] + ks[:pos]
    eng.prove("fordelay.delay_function_formals", z3.BoolVal(len(D.inputs) == len(want) and all(a is b for a, b in zip(D.inputs, want))), got=[repr(x) for x in D.inputs])
    eng.prove("fordelay.delay_function_body_is_the_delayed_expression", z3.BoolVal(len(D.outputs) == 1 and D.outputs[0] is dexpr))
    mode, nmap, nonrep, nonrep_out = dmap.mapinfo
    eng.prove("fordelay.delay_mapped_over_every_loop_value", z3.And(ops.to_arith(nmap) == fx["n"], z3.BoolVal(mode == fx["mode"])))
    eng.prove("fordelay.only_the_free_symbols_are_not_iterated", z3.BoolVal(sorted(nonrep) == list(range(len(free_formals))) and nonrep_out == []))
    # actuals: free symbols, the loop values, then the slices of the earlier indexed symbols
    ok = len(dact) == len(want) and all(a is b for a, b in zip(dact[:len(free_formals)], free_formals)) and dact[len(free_formals)] is fx["vals"]
    for j in range(pos):
        if not ok:
            break
        a = dact[len(free_formals) + 1 + j]
        if fx["transposes"][j]:
            ok = isinstance(a, MXT) and a.kind == "ca.transpose"
            a = a.args[0] if ok else None
        ok = ok and isinstance(a, MXT) and a.kind == "getitem" and a.args[0] is fx["origs"][j] and a.args[1] is fx["index_terms"][j]
    eng.prove("fordelay.each_formal_of_the_delay_function_bound_to_its_own_actual", z3.BoolVal(bool(ok)))
    # the model: argument, input symbol
    das = model.fields["delay_arguments"].items
    new = das[1] if len(das) == 2 else None
    arg_ok = new is not None and das[0] is other and isinstance(new, VObj) and isinstance(new.fields.get("expr"), MXT) and new.fields["expr"].kind == "T" and \
        new.fields["expr"].args[0] is dout and new.fields.get("duration") is ddur
    eng.prove("fordelay.delay_argument_becomes_the_mapped_expression_duration_kept_others_untouched", z3.BoolVal(bool(arg_ok)))
    eng.prove("fordelay.delay_states_unchanged", z3.BoolVal(model.fields["delay_states"].items == ["_pymoca_delay_0", dname]))
    ns = inp_mine.fields["symbol"]
    sym_ok = isinstance(ns, MXSym) and ns.nm == dname and ns is not ks[pos] and inp_other.fields["symbol"].nm == "_pymoca_delay_0" and model.fields["inputs"].items == [inp_other, inp_mine]
    eng.prove("fordelay.input_of_the_delayed_value_renewed_under_the_same_name", z3.BoolVal(bool(sym_ok)))
    if sym_ok:
        eng.prove("fordelay.new_input_has_one_element_per_loop_value", z3.And(ops.to_arith(ns.shape[0]) == fx["n"], ops.to_arith(ns.shape[1]) == 1))
    # the body sees the whole new symbol (and the other indexed symbols as before)
    _, bmap, bact, bout = bcalls[0]
    a = bact[1 + pos] if len(bact) > 1 + pos else None
    if fx["transposes"][pos] and isinstance(a, MXT) and a.kind == "ca.transpose":
        a = a.args[0]
    elif fx["transposes"][pos]:
        a = None
    whole = isinstance(a, MXT) and a.kind == "getitem" and a.args[0] is ns and isinstance(a.args[1], VSlice) and (a.args[1].start, a.args[1].stop) == (None, None)
    eng.prove("fordelay.body_reads_the_renewed_delay_symbol_element_by_element", z3.BoolVal(bool(whole)))
    rest_ok = True
    for j in range(nk):
        if j == pos:
            continue
        b = bact[1 + j]
        if fx["transposes"][j]:
            rest_ok = rest_ok and isinstance(b, MXT) and b.kind == "ca.transpose"
            b = b.args[0] if rest_ok else None
        rest_ok = rest_ok and isinstance(b, MXT) and b.kind == "getitem" and b.args[0] is fx["origs"][j] and b.args[1] is fx["index_terms"][j]
    eng.prove("fordelay.other_indexed_symbols_bound_as_without_delay", z3.BoolVal(bool(rest_ok)))


class ValsC(Vals):
    pass


def h_for_statement(eng):
    log = []
    gm, cas = install_loops(eng, log)
    A = AstFactory(eng)
    nk, nfree = eng.choice(3), eng.choice(2)
    eng.input("indexed_symbols", nk)
    eng.input("free_symbols", nfree)
    fx = _loop_fixture(eng, gm, cas, A, nk, nfree, True)
    nvals = eng.choice(4)
    eng.assume(fx["n"] == nvals)
    fx["vals"].n = nvals
    ns = 1 + eng.choice(2)
    asg = eng.module_global(gm, "Assignment")
    stmts, rights, rterms, lefts = [], [], [], []
    for j in range(ns):
        rn = A.ref("rhs%d" % j)
        st = VObj(VClass("AssignmentStatement"), {"right": rn, "left": VList([A.ref("y%d" % j)])})
        stmts.append(st)
        rights.append(rn)
        rterms.append(MXT("rhs%d" % j))
        lefts.append(MXSym("y%d" % j))
    table = [(rn, t) for rn, t in zip(rights, rterms)] + [(st, VList([eng.call(asg, [l, t], {})])) for st, l, t in zip(stmts, lefts, rterms)]
    eng.call_contracts["Generator.get_mx"] = lambda eng, args, kw: next(v for k, v in table if k is args[1])
    g = fx["g"]
    tree = VObj(VClass("ForStatement"), {"statements": VList(stmts)})
    eng.call(VBound(eng.find_function(GEN, "Generator.exitForStatement"), g), [tree], {})
    r = ops.getitem(eng, g.fields["src"], tree)
    items = eng.iterate(r)
    if nvals == 0:
        eng.cover("forstmt.empty")
        eng.prove("forstmt.empty_range_assigns_nothing", z3.BoolVal(items == [] and not log))
        return
    eng.cover("forstmt.mapped")
    calls = [c for c in log if c[0] == "call"]
    body = calls[0][1].parent.outputs[0] if calls and calls[0][1].parent is not None and len(calls[0][1].parent.outputs) == 1 else None
    body_ok = isinstance(body, MXT) and body.kind == "ca.vcat" and len(body.args) == ns and \
        all(isinstance(v, MXT) and v.kind == "ca.vec" and v.args[0] is t for v, t in zip(body.args, rterms))
    eng.prove("forstmt.body_stacks_the_right_hand_sides_in_order", z3.BoolVal(bool(body_ok)))
    out = _check_mapping(eng, fx, log, body, "forstmt")
    # (P) iteration i assigns row j of column i to the j-th assigned variable, iterations in loop order
    ok = out is not None and len(items) == nvals * ns
    for i in range(nvals):
        for j in range(ns):
            if not ok:
                break
            a = items[i * ns + j]
            lf, rt = a.fields.get("left"), a.fields.get("right")
            ok = lf is lefts[j] and isinstance(rt, MXT) and rt.kind == "T" and isinstance(rt.args[0], MXT) and \
                rt.args[0].kind == "getitem" and rt.args[0].args[0] is out and rt.args[0].args[1] == (j, i)
    eng.prove("forstmt.iteration_i_assigns_variable_j_from_row_j_column_i", z3.BoolVal(bool(ok)))


def h_assignment_and_if_statement(eng):
    gm = install(eng)
    A = AstFactory(eng)
    asg = eng.module_global(gm, "Assignment")
    k = 1 + eng.choice(3)          # branches with a condition (+ else)
    nv = 1 + eng.choice(2)         # variables assigned in every branch
    eng.input("branches_with_condition", k)
    eng.input("assigned_variables", nv)
    lhs = [MXSym("v%d" % j) for j in range(nv)]
    conds = [A.ref("c%d" % i) for i in range(k)]
    cterms = [MXT("cond%d" % i) for i in range(k)]
    table = list(zip(conds, cterms))
    blocks, rhs = [], []
    for b in range(k + 1):
        stmts, row = [], []
        for j in range(nv):
            st = VObj(VClass("AssignmentStatement"), {})
            t = MXT("rhs_b%d_v%d" % (b, j))
            table.append((st, VList([eng.call(asg, [lhs[j], t], {})])))
            stmts.append(st)
            row.append(t)
        blocks.append(VList(stmts))
        rhs.append(row)
    g = gen_obj(eng, gm, table)
    tree = VObj(VClass("IfStatement"), {"conditions": VList(conds + [True]), "blocks": VList(blocks)})
    eng.call(VBound(eng.find_function(GEN, "Generator.exitIfStatement"), g), [tree], {})
    eng.cover("ifstmt.done")
    items = eng.iterate(ops.getitem(eng, g.fields["src"], tree))
    ok = len(items) == nv
    for j in range(nv):
        if not ok:
            break
        a = items[j]
        ok = a.fields.get("left") is lhs[j] and shape_of(a.fields.get("right")) == expected_ite(cterms, [rhs[b][j] for b in range(k + 1)])
    eng.prove("ifstmt.each_variable_gets_the_first_true_branch", z3.BoolVal(bool(ok)))
    # assignment statement: every left-hand component gets the (one) right-hand expression, in order
    nl = 1 + eng.choice(2)
    lrefs = [A.ref("l%d" % j) for j in range(nl)]
    lterms = [MXSym("l%d" % j) for j in range(nl)]
    rn, rt = A.ref("r"), MXT("rhs")
    g2 = gen_obj(eng, gm, list(zip(lrefs, lterms)) + [(rn, rt)])
    st = VObj(VClass("AssignmentStatement"), {"left": VList(lrefs), "right": rn})
    eng.call(VBound(eng.find_function(GEN, "Generator.exitAssignmentStatement"), g2), [st], {})
    its = eng.iterate(ops.getitem(eng, g2.fields["src"], st))
    ok2 = len(its) == nl and all(a.fields.get("left") is l and a.fields.get("right") is rt for a, l in zip(its, lterms))
    eng.prove("assign.each_left_component_assigned_the_right_hand_side", z3.BoolVal(bool(ok2)))


def h_get_function(eng):
    """get_function: algorithm sections have sequential-assignment semantics"""
    gm = install(eng)
    A = AstFactory(eng)
    sublog = []

    def substitute(eng, exprs, keys, vals):
        e, k, v = eng.iterate(exprs), eng.iterate(keys), eng.iterate(vals)
        outs = [MXT("subst", (x, tuple(k), tuple(v))) for x in e]
        sublog.append((e, k, v, outs))
        return VList(outs)
    cas = eng.ext_modules["casadi"]
    cas.attrs["substitute"] = stub(substitute)
    flog = []
    fn = VClass("Function")
    fn.constructor = lambda eng, c, a, k: FnRec(flog, a[0], eng.iterate(a[1]), eng.iterate(a[2]))
    cas.attrs["Function"] = fn
    asg = eng.module_global(gm, "Assignment")
    # declaration shapes: kinds in declaration order
    DECLS = [["input", "output"], ["input", "input", "output"], ["input", "tmp", "output"], ["output", "input", "tmp", "output"],
             ["input", "tmp", "tmp", "output", "input"]]
    decl = DECLS[eng.choice(len(DECLS))]
    eng.input("declarations", decl)
    syms, terms = [], []
    symbols = VDict()
    for j, kd in enumerate(decl):
        s = VObj(VClass("Symbol"), {"name": "s%d" % j, "prefixes": VList([] if kd == "tmp" else [kd])})
        t = MXSym("s%d" % j)
        syms.append(s)
        terms.append(t)
        symbols.keys.append("s%d" % j)
        symbols.vals.append(s)
    ins = [t for t, kd in zip(terms, decl) if kd == "input"]
    outs = [t for t, kd in zip(terms, decl) if kd == "output"]
    tmps = [t for t, kd in zip(terms, decl) if kd == "tmp"]
    assignable = tmps + outs
    # statements: every tmp and output is assigned at least once, in a chosen order, with a possible reassignment
    ORDERS = [lambda a: a, lambda a: a + a[:1], lambda a: a[:1] + a]
    seq = ORDERS[eng.choice(len(ORDERS))](assignable)
    eng.input("assignment_sequence", [t.nm for t in seq])
    stmts, rights = [], []
    table = list(zip(syms, terms))
    for j, l in enumerate(seq):
        st = VObj(VClass("AssignmentStatement"), {})
        r = MXT("rhs%d" % j)
        table.append((st, VList([eng.call(asg, [l, r], {})])))
        stmts.append(st)
        rights.append(r)
    ftree = VObj(VClass("Class"), {"name": "f", "symbols": symbols, "statements": VList(stmts)})
    root = VObj(VClass("Tree"), {"classes": VDict([("f", ftree)])})
    g = gen_obj(eng, gm, table)
    g.fields.update({"functions": VDict(), "root": root})
    fobj = eng.call(VBound(eng.find_function(GEN, "Generator.get_function"), g), ["f"], {})
    eng.cover("fn.done")
    # spec: sequential environment
    env = [(t, t) for t in ins]

    def lookup(e, key):
        for a, b in e:
            if a is key:
                return b
        return None

    def same_env(keys, vals, e):
        return len(keys) == len(vals) == len(e) and all(lookup(e, kk) is vv for kk, vv in zip(keys, vals)) and len({id(x) for x in keys}) == len(keys)
    ok = len(sublog) == len(seq) + 1
    for j, l in enumerate(seq):
        if not ok:
            break
        e, kk, vv, res = sublog[j]
        ok = len(e) == 1 and e[0] is rights[j] and same_env(kk, vv, env)
        if ok:
            env = [(a, b) for a, b in env if a is not l] + [(l, res[0])]
    eng.prove("fn.each_statement_sees_the_values_assigned_before_it", z3.BoolVal(bool(ok)))
    if not ok:
        return
    e, kk, vv, res = sublog[-1]
    fin_ok = len(e) == len(outs) and all(x is lookup(env, o) for x, o in zip(e, outs)) and len(kk) == len(tmps) and \
        all(a is b for a, b in zip(kk, tmps)) and all(v is lookup(env, t) for v, t in zip(vv, tmps))
    eng.prove("fn.outputs_are_the_final_values_in_declaration_order", z3.BoolVal(bool(fin_ok)))
    f_ok = isinstance(fobj, FnRec) and fobj.name == "f" and len(fobj.inputs) == len(ins) and all(a is b for a, b in zip(fobj.inputs, ins)) and \
        len(fobj.outputs) == len(res) and all(a is b for a, b in zip(fobj.outputs, res))
    eng.prove("fn.signature_is_inputs_and_outputs_in_declaration_order", z3.BoolVal(bool(f_ok)))
    again = eng.call(VBound(eng.find_function(GEN, "Generator.get_function"), g), ["f"], {})
    eng.prove("fn.translated_once_per_function", z3.BoolVal(again is fobj and len(sublog) == len(seq) + 1))


def h_declaration_values_of_function_variables(eng):
    """tree.add_variable_value_statements (what turns `output Real y := 0;` / `protected Real d := 2*x;` into statements of the
    function): Modelica evaluates declaration assignments, in declaration order, BEFORE the algorithm section, so -- get_function
    giving the statement list sequential-assignment semantics (fn.*) -- the value statements of outputs and protected variables must
    come first, in declaration order, followed by the algorithm's own statements in their order; the declaration value of an INPUT is
    only a default for an argument that is not passed and must never be executed before a statement of the body."""
    base_modules(eng)
    eng.ext_modules.pop("pymoca.tree", None)      # the real module, not the stub the generator harnesses import in its place
    A = AstFactory(eng)
    f = eng.find_function("pymoca.tree", "add_variable_value_statements")
    KINDS = [("input", False), ("input", True), ("output", True), ("protected", True), ("output", False), ("protected", True)]
    pick = [eng.choice(2) for _ in KINDS]
    used = [k for k, p_ in zip(KINDS, pick) if p_]
    if not used:
        from pyvc.values import PathEnd
        raise PathEnd()
    eng.input("declarations", ["%s%s" % (k, " := value" if v else "") for k, v in used])
    node = A.new("Class", name="f", type="function")
    syms, vals = [], []
    for j, (kind, has_value) in enumerate(used):
        val = A.prim(10 + j) if has_value else None
        sy = A.new("Symbol", name="s%d" % j, prefixes=VList([] if kind == "protected" else [kind]))
        if has_value:
            sy.fields["value"] = val
        ops.setitem(eng, node.fields["symbols"], "s%d" % j, sy)
        syms.append(sy)
        vals.append(val)
    nbody = eng.choice(3)
    body = [A.new("AssignmentStatement", left=VList([A.ref("s0")]), right=A.prim(100 + j)) for j in range(nbody)]
    node.fields["statements"] = VList(list(body))
    eng.call(f, [node], {})
    eng.cover("declvalue.done")
    out = node.fields["statements"].items
    synthetic = [st for st in out if not any(st is b for b in body)]
    def of(st):
        l = st.fields.get("left")
        l = l.items[0] if isinstance(l, VList) and l.items else None
        for j, sy in enumerate(syms):
            if l is sy:
                return j
        return None
    early = [st for st in out[:out.index(body[0])]] if body else list(out)
    want_first = [j for j, (kind, hv) in enumerate(used) if hv and kind != "input"]
    got_first = [of(st) for st in early]
    eng.prove("declvalue.outputs_and_protected_variables_get_their_declaration_value_before_the_body_in_declaration_order",
              z3.BoolVal([j for j in got_first if j in want_first] == want_first), before_the_body=got_first, expected=want_first)
    eng.prove("declvalue.an_input_default_is_never_executed_before_the_body", z3.BoolVal(not any(j is not None and used[j][0] == "input" for j in got_first) or not body))
    eng.prove("declvalue.body_statements_keep_their_order", z3.BoolVal([st for st in out if any(st is b for b in body)] == body))
    eng.prove("declvalue.each_value_becomes_the_right_hand_side_of_its_own_statement",
              z3.BoolVal(all(of(st) is not None and st.fields.get("right") is vals[of(st)] for st in synthetic) and
                         sorted(of(st) for st in synthetic if used[of(st)][0] != "input") == want_first))


def h_equation_shapes(eng):
    """shape adaptation in exitEquation: truncation of a function's outputs, transposition"""
    gm = install(eng)
    A = AstFactory(eng)
    CASES = [("equal", (3, 1), (3, 1), False, False), ("call-right-longer", (2, 1), (3, 1), True, False), ("call-left-longer", (3, 1), (2, 1), False, True),
             ("row-vs-column", (1, 3), (3, 1), False, False), ("call-right-same", (3, 1), (3, 1), True, False), ("plain-longer-right", (2, 1), (3, 1), False, False)]
    name, ls, rs, rcall, lcall = CASES[eng.choice(len(CASES))]
    eng.input("case", name)
    lt, rt = MXT("left", shape=ls), MXT("right", shape=rs)
    # after flattening, the operator of a call of a user function is the function's full name (a string)
    l = A.expr("f", A.ref("a")) if lcall else A.ref("l")
    r = A.expr("f", A.ref("a")) if rcall else A.ref("r")
    g = gen_obj(eng, gm, [(l, lt), (r, rt)])
    fcls = VObj(VClass("Class"), {"name": "f"})
    g.fields["root"] = VObj(VClass("Tree"), {"classes": VDict([("f", fcls)])})
    tree = A.new("Equation", left=l, right=r)
    eng.call(VBound(eng.find_function(GEN, "Generator.exitEquation"), g), [tree], {})
    eng.cover("eqshape.done")
    res = ops.getitem(eng, g.fields["src"], tree)
    ok = isinstance(res, MXT) and res.kind == "binop:Sub"
    a, b = (res.args if ok else (None, None))

    def is_head(t, of, n):
        return isinstance(t, MXT) and t.kind == "getitem" and t.args[0] is of and isinstance(t.args[1], VSlice) and \
            t.args[1].start == 0 and t.args[1].stop == n and t.args[1].step in (None, 1)
    if name in ("equal", "call-right-same", "plain-longer-right"):
        want = a is lt and b is rt
    elif name == "call-right-longer":
        want = a is lt and is_head(b, rt, 2)
    elif name == "call-left-longer":
        want = is_head(a, lt, 2) and b is rt
    else:
        want = a is lt and isinstance(b, MXT) and b.kind == "ca.transpose" and b.args[0] is rt
    eng.prove("eq.residual_is_left_minus_right_after_discarding_surplus_function_outputs", z3.BoolVal(bool(ok and want)), case=name, got=repr(res))


# ---------------------------------------------------------------------------------------------
# der(expression): chain rule over the symbols of the expression (get_derivative, case 4)
class DExpr(MXT):
    """a CasADi expression that is neither constant nor a symbol nor an indexed symbol"""

    def sym_getattr(self, eng, name):
        if name in ("is_constant", "is_symbolic"):
            return stub(lambda eng: False)
        if name == "is_op":
            return stub(lambda eng, code: False)
        return MXT.sym_getattr(self, eng, name)


class DSym(MXSym):
    def __init__(self, name, n):
        MXSym.__init__(self, name, (n, 1))
        self.n = n

    def sym_getattr(self, eng, name):
        if name == "numel":
            return stub(lambda eng: self.n)
        if name == "size":
            return stub(lambda eng: (self.n, 1))
        if name == "size1":
            return stub(lambda eng: self.n)
        if name == "size2":
            return stub(lambda eng: 1)
        return MXSym.sym_getattr(self, eng, name)


class SparsityStub(Ext):
    def __init__(self, rows, cols, nz):
        self.rows, self.cols, self.nz = rows, cols, nz

    def sym_getattr(self, eng, name):
        if name == "has_nz":
            return stub(lambda eng, r, c: (r, c) in self.nz)
        if name == "size1":
            return stub(lambda eng: self.rows)
        if name == "size2":
            return stub(lambda eng: self.cols)
        if name == "nnz":
            return stub(lambda eng: len(self.nz))
        raise Unsupported("Sparsity.%s" % name)


class JFn(Ext):
    def __init__(self, sp):
        self.sp = sp

    def sym_getattr(self, eng, name):
        if name == "sparsity_out":
            return stub(lambda eng, i: self.sp)
        raise Unsupported("Function.%s" % name)

    def sym_call(self, eng, args, kwargs):
        return MXT("J(deps)", tuple(args))


NZ_PATTERNS = [set(), {(0, 0)}, {(0, 1)}, {(0, 2)}, {(0, 3)}, {(0, 5)}, {(0, 1), (0, 4)}, {(0, 2), (0, 3)}, {(0, 0), (0, 1), (0, 2), (0, 3), (0, 4), (0, 5)}]


def h_derivative_of_expression(eng):
    gm = install(eng)
    cas = eng.ext_modules["casadi"]
    deps = [DSym("x", 3), DSym("y", 1), DSym("z", 2)]     # Jacobian columns: x -> 0..2, y -> 3, z -> 4..5
    nz = NZ_PATTERNS[eng.choice(len(NZ_PATTERNS))]
    eng.input("structurally_nonzero_jacobian_entries", sorted(nz))
    sp = SparsityStub(1, 6, nz)
    cas.attrs["symvar"] = stub(lambda eng, e: VList(list(deps)))
    cas.attrs["jacobian"] = stub(lambda eng, e, d: MXT("ca.jacobian", (e, d)))
    cas.attrs["OP_GETNONZEROS"] = 77
    fn = VClass("Function")
    fn.constructor = lambda eng, c, a, k: JFn(sp)
    cas.attrs["Function"] = fn
    dm = VClass("DM")
    dm.attrs["zeros"] = stub(lambda eng, *size: MXT("zeros", size))
    cas.attrs["DM"] = dm
    f = eng.find_function(GEN, "Generator.get_derivative")
    state = {"outer": True}
    ders = {}

    def rec(eng, args, kwargs):
        if state["outer"]:
            state["outer"] = False
            return eng.call_function(f, list(args), kwargs, bypass_contract=True)
        d = args[1]
        ders.setdefault(id(d), MXT("der:" + getattr(d, "nm", "?")))
        return ders[id(d)]
    eng.call_contracts["Generator.get_derivative"] = rec
    from .gen_common import new_generator
    g = new_generator(eng, gm, {"src": VDict(), "for_loops": VList([]), "derivative": VDict(), "nodes": VDict()})
    expr = DExpr("expression")
    r = eng.call(VBound(f, g), [expr], {})
    eng.cover("derexpr.done")
    ok = isinstance(r, MXT) and r.kind == "ca.mtimes" and len(r.args) == 2 and isinstance(r.args[1], MXT) and r.args[1].kind == "ca.vertcat" and len(r.args[1].args) == 3
    eng.prove("derexpr.chain_rule_is_jacobian_times_derivatives_of_the_symbols", z3.BoolVal(bool(ok)))
    if not ok:
        return
    blocks = {0: range(0, 3), 1: range(3, 4), 2: range(4, 6)}
    good = True
    for j, d in enumerate(deps):
        depends = any((0, c) in nz for c in blocks[j])
        part = r.args[1].args[j]
        is_der = isinstance(part, MXT) and part.kind == "der:" + d.nm
        if depends and not is_der:
            good = False
    # (P) der(e) = sum over the symbols v of e of (de/dv) * der(v): the derivative of a symbol may be replaced by zeros only when the
    # expression does not depend on ANY element of that (possibly vector-valued) symbol
    eng.prove("derexpr.symbol_the_expression_depends_on_contributes_its_derivative", z3.BoolVal(good), nonzeros=sorted(nz),
              parts=[getattr(p_, "kind", "?") for p_ in r.args[1].args])


# ---------------------------------------------------------------------------------------------
# built-in array functions, der, user function calls, array literals, literals
def h_builtin_functions(eng):
    gm = install(eng)
    A = AstFactory(eng)
    cas = eng.ext_modules["casadi"]
    dm = VClass("DM")
    for nme in ("ones", "zeros", "eye"):
        dm.attrs[nme] = stub((lambda n: lambda eng, *a: MXT("DM." + n, a))(nme))
    cas.attrs["DM"] = dm
    cas.attrs["linspace"] = stub(lambda eng, *a: MXT("ca.linspace", a))
    CASES = ["der", "transpose", "sum", "linspace", "fill1", "fill2", "zeros1", "zeros2", "ones1", "ones2", "identity", "cat", "user-function", "array", "primary"]
    case = CASES[eng.choice(len(CASES))]
    eng.input("construct", case)
    f = eng.find_function(GEN, "Generator.exitExpression")
    nodes = [A.ref("o%d" % i) for i in range(4)]
    terms = [MXT("operand%d" % i) for i in range(4)]
    ints = {}
    g = gen_obj(eng, gm, list(zip(nodes, terms)))

    def get_integer(eng, args, kw):
        t = args[1]
        for i, n_ in enumerate(nodes):
            if t is n_:
                ints[i] = 2 + i
                return 2 + i
        raise Unsupported("get_integer of an unexpected node")
    eng.call_contracts["Generator.get_integer"] = get_integer
    der_calls, fn_calls = [], []

    def get_derivative(eng, args, kw):
        der_calls.append(args[1])
        return MXT("derivative-of", (args[1],))
    eng.call_contracts["Generator.get_derivative"] = get_derivative

    class Fn(Ext):
        def sym_getattr(self, eng, name):
            if name == "call":
                def call(eng, args, *modes):
                    fn_calls.append((eng.iterate(args), modes))
                    return VList([MXT("out0"), MXT("out1")])
                return stub(call)
            raise Unsupported("Function.%s" % name)
    facts = casadi_facts()
    # a user function may carry any name, also one the casadi module uses for a function of its own
    clash = [n_ for n_ in ("times", "plus", "solve", "dot", "vec", "transform") if n_ in facts["module_functions"] and n_ not in facts["mx_attributes"]]
    user_names = ["myfn"] + clash[:2]
    eng.call_contracts["Generator.get_function"] = lambda eng, args, kw: Fn() if args[1] in user_names else _uns()
    is_ = lambda r, kind, *args: isinstance(r, MXT) and r.kind == kind and len(r.args) == len(args) and all(a is b or a == b for a, b in zip(r.args, args))

    def run(op, *operands):
        tree = A.expr(op, *operands)
        eng.call(VBound(f, g), [tree], {})
        return ops.getitem(eng, g.fields["src"], tree)
    eng.cover("builtin." + case)
    if case == "der":
        r = run("der", nodes[0])
        eng.prove("builtin.der_is_the_derivative_of_its_operand", z3.BoolVal(is_(r, "derivative-of", terms[0]) and len(der_calls) == 1))
    elif case == "transpose":
        r = run(A.ref("transpose"), nodes[0])
        eng.prove("builtin.transpose", z3.BoolVal(is_(r, "T", terms[0])))
    elif case == "sum":
        r = run(A.ref("sum"), nodes[0])
        eng.prove("builtin.sum_adds_the_elements_of_its_operand", z3.BoolVal(is_(r, "ca.sum1", terms[0])))
    elif case == "linspace":
        r = run(A.ref("linspace"), nodes[0], nodes[1], nodes[2])
        eng.prove("builtin.linspace_from_to_count", z3.BoolVal(is_(r, "ca.linspace", terms[0], terms[1], 4)))
    elif case in ("fill1", "fill2"):
        r = run(A.ref("fill"), *nodes[:2 if case == "fill1" else 3])
        want = (3,) if case == "fill1" else (3, 4)
        ok = isinstance(r, MXT) and r.kind == "binop:Mult" and r.args[0] is terms[0] and is_(r.args[1], "DM.ones", *want)
        eng.prove("builtin.fill_is_value_times_ones_of_the_given_size", z3.BoolVal(bool(ok)))
    elif case in ("zeros1", "zeros2", "ones1", "ones2"):
        name = case[:-1]
        k = int(case[-1])
        r = run(A.ref(name), *nodes[:k])
        eng.prove("builtin.zeros_and_ones_have_the_given_size_rows_first", z3.BoolVal(is_(r, "DM." + name, *[2 + i for i in range(k)])))
    elif case == "identity":
        r = run(A.ref("identity"), nodes[0])
        eng.prove("builtin.identity_of_the_given_size", z3.BoolVal(is_(r, "DM.eye", 2)))
    elif case == "cat":
        lst = VList([MXT("e0"), MXT("e1")])
        g2nodes = list(zip(nodes, [None, terms[1], lst, terms[3]]))
        eng.call_contracts["Generator.get_mx"] = lambda eng, args, kw: next(v for n_, v in g2nodes if n_ is args[1])
        eng.call_contracts["Generator.get_integer"] = lambda eng, args, kw: 1 if args[1] is nodes[0] else _uns()
        r = run(A.ref("cat"), *nodes)
        ok = isinstance(r, MXT) and r.kind == "ca.vertcat" and len(r.args) == 4 and r.args[0] is terms[1] and r.args[1] is lst.items[0] and r.args[2] is lst.items[1] and r.args[3] is terms[3]
        eng.prove("builtin.cat_concatenates_its_arguments_in_order", z3.BoolVal(bool(ok)))
    elif case == "user-function":
        mode = bool(eng.choice(2))
        g.fields["function_mode"] = (True, False) if mode else (False, True)
        fname = user_names[eng.choice(len(user_names))]
        nargs = 1 + eng.choice(3)
        eng.input("function_name", fname)
        eng.input("arguments", nargs)
        r = run(fname, *nodes[:nargs])
        ok = len(fn_calls) == 1 and len(fn_calls[0][0]) == nargs and all(a is b for a, b in zip(fn_calls[0][0], terms[:nargs])) and tuple(fn_calls[0][1]) == g.fields["function_mode"]
        ok = ok and isinstance(r, MXT) and r.kind == "ca.vertcat" and len(r.args) == 2 and r.args[0].kind == "out0" and r.args[1].kind == "out1"
        eng.prove("builtin.user_function_called_with_the_operands_in_order_outputs_stacked_in_order", z3.BoolVal(bool(ok)))
    elif case == "array":
        vals = [A.prim(1), A.prim(2), A.prim(3)]
        for v, t in zip(vals, terms):
            ops.setitem(eng, g.fields["src"], v, t)
        arr = VObj(VClass("Array"), {"values": VList(vals)})
        eng.call(VBound(eng.find_function(GEN, "Generator.exitArray"), g), [arr], {})
        r = ops.getitem(eng, g.fields["src"], arr)
        items = eng.iterate(r)
        eng.prove("builtin.array_literal_keeps_its_elements_in_order", z3.BoolVal(len(items) == 3 and all(a is b for a, b in zip(items, terms[:3]))))
    else:
        v = eng.fresh_real("lit")
        pr = A.prim(v)
        eng.call(VBound(eng.find_function(GEN, "Generator.exitPrimary"), g), [pr], {})
        r = ops.getitem(eng, g.fields["src"], pr)
        eng.prove("builtin.literal_translates_to_its_value", ops.to_arith(r) == v)


class LSym(MXSym):
    """a CasADi symbol whose node questions have definite answers"""

    def __init__(self, name, shape=(1, 1)):
        MXSym.__init__(self, name, shape)
        self.attrs = {}

    def sym_getattr(self, eng, name):
        if name in self.attrs:
            return self.attrs[name]
        if name in ("is_constant", "is_op", "is_zero", "is_one"):
            return stub(lambda eng, *a: False)
        if name == "is_symbolic":
            return stub(lambda eng: True)
        return MXSym.sym_getattr(self, eng, name)

    def sym_setattr(self, eng, name, value):
        self.attrs[name] = value


def h_derivatives_of_two_subscripts_in_one_loop(eng):
    """Generator.get_derivative on loop-indexed symbols: inside `for i loop ... der(x[i+1]) - der(x[i]) ... end for` the generator holds
    two placeholder symbols for the array x -- both NAMED "x[i]", each registered with its own subscript tree.  The derivative of
    each is the derivative symbol of the whole array, indexed with THAT placeholder's own subscripts (one der(x) for both); which of
    the two is asked first makes no difference."""
    gm = install(eng)
    A = AstFactory(eng)
    fl_cls = eng.module_global(gm, "ForLoop")
    nt = eng.module_global(gm, "ForLoopIndexedSymbol")
    made = []

    def new_mx(eng, args, kw):
        t = LSym(str(args[0]), tuple(args[1]) if len(args) > 1 and isinstance(args[1], tuple) else (1, 1))
        made.append(t)
        return t
    eng.call_contracts["_new_mx"] = new_mx
    stop_node = A.ref("n")
    rng = VObj(VClass("Slice"), {"start": A.prim(1), "step": A.prim(1), "stop": stop_node})
    tree = VObj(VClass("ForEquation"), {"indices": VList([VObj(VClass("ForIndex"), {"name": "i", "expression": rng})])})
    gstub = VObj(VClass("GeneratorStub"), {})
    gstub.cls.attrs["get_integer"] = _get_integer(stop_node, 3)
    loop = eng.call(fl_cls, [gstub, tree], {})          # the loop object as its real constructor makes it
    x = LSym("x", (4, 1))
    x.attrs["_modelica_shape"] = ((4,),)
    subs = [VList([VList([A.ref("i")])]), VList([VList([A.new("Expression", operator="+", operands=VList([A.ref("i"), A.prim(1)]))])])]
    holders, trees = [LSym("x[i]"), LSym("x[i]")], []
    for k_ in range(2):
        t = A.ref("x")
        t.fields["indices"] = subs[k_]
        trees.append(t)
        ops.setitem(eng, loop.fields["indexed_symbols"], holders[k_], eng.call(nt, [t, False, MXT("indices%d" % k_)], {}))
    klass = VObj(VClass("Class"), {"name": "M"})
    nodes = VDict([(klass, VDict([("x", x)]))])
    from .gen_common import new_generator
    g = new_generator(eng, gm, {"src": VDict(), "for_loops": VList([loop]), "nodes": nodes, "entered_classes": VList([klass]), "derivative": VDict()})
    loop.fields["generator"] = g
    eng.call_contracts["Generator.get_mx"] = lambda eng, args, kw: x
    asked = []

    def get_indexed_symbol(eng, args, kw):
        r = MXT("indexed", (args[1], args[2]))
        asked.append((args[1], args[2], r))
        return r
    eng.call_contracts["Generator.get_indexed_symbol"] = get_indexed_symbol
    order = [0, 1] if eng.choice(2) == 0 else [1, 0]
    eng.input("asked_first", "der(x[i])" if order[0] == 0 else "der(x[i+1])")
    f = eng.find_function(GEN, "Generator.get_derivative")
    res = {}
    for k_ in order:
        res[k_] = eng.call(VBound(f, g), [holders[k_]], {})
    eng.cover("loopder.done")
    ders = [t for t in made if t.nm == "der(x)"]
    eng.prove("loopder.one_derivative_symbol_for_the_array", z3.BoolVal(len(ders) == 1))
    ok = True
    for k_ in (0, 1):
        r = res[k_]
        ok = ok and isinstance(r, MXT) and r.kind == "indexed" and isinstance(r.args[0], VObj) and r.args[0].fields.get("indices") is subs[k_] and \
            len(ders) == 1 and r.args[1] is ders[0] and r.args[0].fields.get("name") == "der(x)"
    eng.prove("loopder.each_placeholder_gets_the_array_derivative_at_its_own_subscripts", z3.BoolVal(bool(ok)),
              first=order[0], got=[repr(getattr(res[k_], "args", None))[:80] for k_ in (0, 1)])


HARNESSES = [("Generator.get_derivative: two subscripts of one array in one loop", h_derivatives_of_two_subscripts_in_one_loop), ("Generator.exitExpression/operators", h_operator_dispatch), ("Generator.exitIfExpression", h_if_expression),
             ("Generator.exitIfEquation", h_if_equation), ("Generator.exitEquation", h_equation), ("ForLoop.__init__", h_for_range),
             ("Generator.exitForEquation", h_for_equation), ("Generator.exitForEquation with a delayed symbol", h_for_equation_with_delayed_symbol),
             ("Generator.exitForStatement", h_for_statement), ("tree.add_variable_value_statements (declaration values of function variables)", h_declaration_values_of_function_variables),
             ("Generator.exitIfStatement+exitAssignmentStatement", h_assignment_and_if_statement),
             ("Generator.get_function", h_get_function), ("Generator.exitEquation/shapes", h_equation_shapes),
             ("Generator.get_derivative/expression", h_derivative_of_expression),
             ("Generator.exitExpression/built-in array functions, der, calls; exitArray; exitPrimary", h_builtin_functions)]
EXPECTED_COVER = {"loopder.done", "op.done", "ifexpr.done", "ifeq.done", "eq.done", "range.done", "forloop.empty", "forloop.mapped", "forstmt.empty", "forstmt.mapped",
                  "ifstmt.done", "fn.done", "eqshape.done", "derexpr.done", "fordelay.mapped", "fordelay.empty", "declvalue.done"} | {"builtin." + c for c in ("der", "transpose", "sum", "linspace", "fill1", "fill2", "zeros1", "zeros2", "ones1", "ones2", "identity", "cat", "user-function", "array", "primary")}
BOUNDED = True
LEVEL = "proof"
TRUSTED = ["pyvc VC generator", "z3 5.1.0",
           "numeric meaning of the CasADi operations (__add__, __truediv__, fmin, if_else(c, a, b, True), mtimes, ...): assumed, sampled by the bounded replay",
           "np.arange(a, b, s) = {a + k*s | k >= 0} below b (above b for s < 0)",
           "interface facts (which attributes casadi.MX has, which functions the casadi module has) are read from the installed package by tools/introspect_casadi.py on every run",
           "a casadi module function that is also an MX method (ca.sin(x) / x.sin()) denotes the same operation: so either spelling of an elementary function is accepted"]
ASSUMPTIONS = [
    "operator list of the statement: + - / ^ (and element-wise forms), * as matrix product, relations incl. <>, not/and/or, min/max/abs, elementary functions; 1-4 if branches; all integer loop bounds and non-zero steps",
    "arrays / matrix products' numeric layout and interpolation are outside the contracts",
    "for-loop mapping: 0-3 indexed symbols, 0-2 free symbols, 1-2 body equations/statements, four orders of ca.symvar's result, any number of loop values (symbolic) for equations and 0-3 for statements; a delayed symbol inside a for-loop (the delay branch of exitForEquation): 1-2 indexed symbols (1-3 in the thorough tier) of which one is the delayed one at every position, 0-1 (0-2) free symbols",
    "algorithm sections: five declaration patterns (inputs/outputs/protected in any order), every assignable variable assigned once plus one reassignment; nested for/if statements inside a function are composed from the statement contracts, not proved as a whole",
]
EXPLANATION = "Dispatch table against introspected CasADi interface, if-folds, residual sign, loop range."
MANIFEST = {
    "category": "proof",
    "text": "exitExpression is executed for every operator of the statement against the interface of the installed CasADi (introspected each run): the dispatch reaches an existing method that denotes the Modelica operator on the operands in order (/, <>, and/or, min/max/abs, elementary functions, matrix product). The if-expression and if-equation folds give ite(c1,e1,ite(c2,e2,...else)) for 1-4 conditions (first true branch wins), the residual is left - right, and ForLoop's values are exactly Modelica's start:step:stop range for all integers. exitForEquation / exitForStatement map one body function over every loop value with each formal (index, indexed symbols, free symbols) bound to its own actual and the per-iteration assignments emitted iteration by iteration; exitIfStatement folds first-true-wins per variable; get_function gives algorithm sections sequential-assignment semantics (statement k sees the values assigned before it) with inputs/outputs in declaration order; exitEquation discards surplus function outputs from the end; get_derivative's chain rule keeps the derivative of every (vector) symbol the expression depends on. A bounded replay evaluates real residuals per operator, branch pattern and range. get_derivative on loop placeholders: two subscripts of one array in one loop each get the array derivative at their own subscripts.",
    "note": "CasADi's numeric semantics (incl. Function.map / substitute) are assumed; interpolation, array layout and delayed symbols in for-loops are outside the contracts; list shapes are enumerated.",
    "technique": "contract-based deductive verification: symbolic execution with provenance-recording CasADi terms and introspected interface facts, integer VCs for the loop range, z3",
}
