"""C16 -- alias elimination merges variable metadata soundly.

Code under contract (real source, located structurally on every run): in Model._simplify_once the whole
`if options["detect_aliases"]:` block from its first statement to the end of the loop
`for canonical, aliases in self.alias_relation:` -- grouping of the variables, the snapshot that tells
aliases of earlier passes from new ones, the nested _detect_alias (fast path) and _make_alias, and the
attribute-merging / elimination loop -- executed on the REAL AliasRelation (add, aliases,
canonical_signed, copy, __iter__ are run, not assumed).  Model._expand_vectors (whole function) for the
unset-start sentinel.
Symbolic: own and alias bounds (each either the default infinity or any finite real), nominals,
fixed flags, start values (default or explicit real).  Enumerated: number of aliases of the canonical
variable (1..3), their signs, which of them were eliminated in an earlier pass, the kind of the
canonical variable, and (later-pass harness) the sign pairs of an old canonical variable that becomes
an alias.
"""
import ast
import math

import z3

from pyvc import ops
from pyvc.values import Ext, NoOp, PyRaise, Unsupported, VBound, VClass, VDict, VList, VObj, VSet, stub

from .model_common import new_model

MOD = "pymoca.backends.casadi.model"
INF = float("inf")


def selector(fn):
    """the alias-elimination loop inside the detect_aliases block"""
    def is_opt(test, name):
        return (isinstance(test, ast.Subscript) and isinstance(test.value, ast.Name) and test.value.id == "options"
                and isinstance(test.slice, ast.Constant) and test.slice.value == name)
    blk = next(n for n in ast.walk(fn) if isinstance(n, ast.If) and is_opt(n.test, "detect_aliases"))
    loop = next(n for n in blk.body if isinstance(n, ast.For) and isinstance(n.iter, ast.Attribute)
                and n.iter.attr == "alias_relation")
    return [loop]


# ---------------------------------------------------------------- extended reals (A1: +-inf are
# distinguished constants, finite values are mathematical reals)
class XR(Ext):
    """extended real: kind k in {-1: -inf, 0: finite, +1: +inf} (symbolic) and value v (used iff k == 0)"""
    type_names = ("float",)

    def __init__(self, k, v):
        self.k, self.v = k, v

    def sym_isinstance(self, eng, cls):
        return cls.name == "float"

    def sym_unop(self, eng, op):
        if op == "USub":
            return XR(-self.k, -self.v)
        if op in ("UAdd", "float"):
            return self
        if op == "int":
            # int(x): truncation toward zero of a finite value (OverflowError for an infinite one)
            if eng.branch(self.k != 0):
                raise PyRaise(eng.make_exc("OverflowError", "cannot convert float infinity to integer"))
            return XR(z3.IntVal(0), z3.ToReal(z3.If(self.v >= 0, z3.ToInt(self.v), -z3.ToInt(-self.v))))
        raise Unsupported("unary %s on a bound" % op)

    def sym_binop(self, eng, op, other, reflected):
        if op == "Mult" and isinstance(other, int) and other in (1, -1):
            return self if other == 1 else XR(-self.k, -self.v)
        raise Unsupported("operator %s on a bound" % op)

    def sym_eq(self, eng, other):
        return xeq(self, other)


def xr(v):
    if isinstance(v, XR):
        return v
    if isinstance(v, float) and math.isinf(v):
        return XR(z3.IntVal(1 if v > 0 else -1), z3.RealVal(0))
    return XR(z3.IntVal(0), _num(v))


def xle(a, b):
    a, b = xr(a), xr(b)
    return z3.Or(a.k < b.k, z3.And(a.k == b.k, z3.Or(a.k != 0, a.v <= b.v)))


def xmax(a, b):
    if not isinstance(a, XR) and not isinstance(b, XR):
        a, b = _num(a), _num(b)
        return z3.If(a >= b, a, b)
    a, b = xr(a), xr(b)
    c = xle(a, b)
    return XR(z3.If(c, b.k, a.k), z3.If(c, b.v, a.v))


def xmin(a, b):
    if not isinstance(a, XR) and not isinstance(b, XR):
        a, b = _num(a), _num(b)
        return z3.If(a <= b, a, b)
    a, b = xr(a), xr(b)
    c = xle(a, b)
    return XR(z3.If(c, a.k, b.k), z3.If(c, a.v, b.v))


def _num(v):
    if isinstance(v, bool):
        return z3.RealVal(1 if v else 0)
    if isinstance(v, (int, float)):
        return z3.RealVal(repr(float(v)))
    if ops.is_bool_sort(v):
        return z3.If(v, z3.RealVal(1), z3.RealVal(0))
    if ops.is_int_sort(v):
        return z3.ToReal(v)
    return v


def xneg(v):
    v = xr(v)
    return XR(-v.k, -v.v)


def xeq(a, b):
    if not isinstance(a, XR) and not isinstance(b, XR):
        return _num(a) == _num(b)
    a, b = xr(a), xr(b)
    return z3.And(a.k == b.k, z3.Or(a.k != 0, a.v == b.v))


def xite(c, a, b):
    a, b = xr(a), xr(b)
    return XR(z3.If(c, a.k, b.k), z3.If(c, a.v, b.v))


class MX(Ext):
    type_names = ("MX",)

    def __init__(self, label, value=None):
        self.label, self.value = label, value

    def sym_getattr(self, eng, name):
        if name == "is_constant":
            return stub(lambda eng: self.value is not None)
        if name == "is_symbolic":
            return stub(lambda eng: self.value is None)
        if name == "name":
            return stub(lambda eng: self.label)
        if name in ("is_one", "is_zero"):
            target = 1 if name == "is_one" else 0

            def test(eng):
                v = self.value
                if v is None:
                    return False
                if isinstance(v, XR):
                    return z3.And(v.k == 0, v.v == target)
                if ops.is_bool_sort(v):
                    return v if target == 1 else z3.Not(v)
                if ops.is_sym(v):
                    return _num(v) == target
                return float(v) == float(target)
            return stub(test)
        raise Unsupported("MX.%s" % name)

    def sym_binop(self, eng, op, other, reflected):
        if op == "Mult":
            return MX("(%r*%s)" % (other, self.label), None if self.value is None else other * self.value if not ops.is_sym(self.value) and not ops.is_sym(other) else None)
        if op in ("Eq", "NotEq"):
            return eng.fresh_bool("mxcmp")
        raise Unsupported("MX operator %s" % op)

    def sym_eq(self, eng, other):
        return eng.fresh_bool("mxeq")


class CasadiStub(Ext):
    def sym_getattr(self, eng, name):
        if name == "fmax":
            return stub(lambda eng, a, b: xmax(_unbool(a), _unbool(b)))
        if name == "fmin":
            return stub(lambda eng, a, b: xmin(_unbool(a), _unbool(b)))
        if name == "MX":
            cls = VClass("MX")
            cls.constructor = lambda eng, c, a, k: a[0] if isinstance(a[0], MX) else MX("const", a[0])
            cls.attrs["sym"] = stub(lambda eng, name, *shape: MX(name))
            return cls
        raise Unsupported("casadi.%s" % name)


def _unbool(v):
    if isinstance(v, bool):
        return 1.0 if v else 0.0
    if ops.is_bool_sort(v):
        return z3.If(v, z3.RealVal(1), z3.RealVal(0))
    if isinstance(v, int):
        return float(v)
    return v


class NumpyStub(Ext):
    def sym_getattr(self, eng, name):
        if name == "isinf":
            return stub(lambda eng, x: (x.k != 0) if isinstance(x, XR) else (isinstance(x, float) and math.isinf(x)))
        if name == "isnan":
            return stub(lambda eng, x: isinstance(x, float) and x != x)
        if name == "isfinite":
            return stub(lambda eng, x: (x.k == 0) if isinstance(x, XR) else (True if (ops.is_sym(x) or isinstance(x, int)) else (isinstance(x, float) and math.isfinite(x))))
        if name == "isscalar":
            return stub(lambda eng, x: isinstance(x, (XR, int, float)) or ops.is_sym(x))
        if name in ("inf", "nan"):
            return float(name)
        raise Unsupported("numpy.%s" % name)


class OldRelation(Ext):
    """old_alias_relation: only `handled before` matters"""

    def __init__(self, handled):
        self.handled = handled

    def sym_getattr(self, eng, name):
        if name == "aliases":
            return stub(lambda eng, a: HandledProbe(self.handled.get(a.lstrip("-") if isinstance(a, str) else a, False)))
        if name == "canonical_variables":
            return VSet([])
        raise Unsupported("alias relation method %s" % name)


class HandledProbe(Ext):
    def __init__(self, h):
        self.h = h

    def sym_len(self, eng):
        return z3.If(self.h, z3.IntVal(2), z3.IntVal(1)) if ops.is_sym(self.h) else (2 if self.h else 1)


def bound(eng, label, default):
    """a bound: +-infinity or any finite real, symbolically"""
    k = eng.input(label + ".kind(-1:-inf,0:finite,1:+inf)", eng.fresh_int(label + "_k"))
    v = eng.input(label + ".value", eng.fresh_real(label))
    eng.assume(z3.And(k >= -1, k <= 1))
    return XR(k, v)


def make_var(eng, vcls, dvcls, name, explicit_start=None, integer=False):
    v = VObj(vcls)
    # python_type is the builtin the generator stores (float for Real, int for Integer variables)
    v.fields.update({"symbol": MX(name), "python_type": eng.builtins["int" if integer else "float"], "aliases": VSet([]),
                     "value": float("nan"), "min": bound(eng, name + ".min", -INF), "max": bound(eng, name + ".max", INF),
                     "nominal": eng.input(name + ".nominal", eng.fresh_real(name + "_nom")),
                     "fixed": eng.input(name + ".fixed", eng.fresh_bool(name + "_fixed"))})
    eng.assume(v.fields["nominal"] >= 0)
    if eng.choice(2) == 0:
        v.fields["start"] = VObj(dvcls, {"value": 0})
        eng.input(name + ".start", "default")
        v.has_start = False
    else:
        v.fields["start"] = eng.input(name + ".start", eng.fresh_real(name + "_start"))
        v.has_start = True
    return v


SIGN_SHAPES = [[1], [-1], [1, -1], [-1, -1], [-1, 1, 1]]


class EqStub(Ext):
    """an equation residual `a + b` or `a - b` over two symbols (what alias detection's fast path recognises)"""
    type_names = ("MX",)

    def __init__(self, a, b, add):
        self.deps, self.add = [a, b], add

    def sym_getattr(self, eng, name):
        if name == "n_dep":
            return stub(lambda eng: 2)
        if name == "is_op":
            return stub(lambda eng, op: op == ("OP_ADD" if self.add else "OP_SUB"))
        if name == "dep":
            return stub(lambda eng, k: self.deps[k])
        raise Unsupported("equation.%s" % name)


def block_selector(fn):
    """the whole detect_aliases block up to and including the attribute-merging loop"""
    def is_opt(test, name):
        return (isinstance(test, ast.Subscript) and isinstance(test.value, ast.Name) and test.value.id == "options"
                and isinstance(test.slice, ast.Constant) and test.slice.value == name)
    blk = next(n for n in ast.walk(fn) if isinstance(n, ast.If) and is_opt(n.test, "detect_aliases"))
    loop = selector(fn)[0]
    return blk.body[:blk.body.index(loop) + 1]


def install_block(eng):
    eng.call_contracts.clear()
    eng.loop_specs.clear()
    from contracts.api_common import ModuleStub, CollectionsStub, itertools_module
    base_get = CasadiStub().sym_getattr

    class Cas(CasadiStub):
        def sym_getattr(self, eng, name):
            if name == "symvar":
                return stub(lambda eng, eq: VList(list(eq.deps)))
            if name in ("OP_ADD", "OP_SUB"):
                return name
            return base_get(eng, name)
    eng.ext_modules.update({"casadi": Cas(), "numpy": NumpyStub(), "logging": ModuleStub("logging", {"getLogger": stub(lambda eng, *a: NoOp()), "DEBUG": 10}),
                            "itertools": itertools_module(), "re": ModuleStub("re", {}), "sys": ModuleStub("sys", {"maxsize": 2 ** 63 - 1}),
                            "collections": CollectionsStub()})
    eng.ext_modules.pop("pymoca.backends.casadi.alias_relation", None)
    return eng.load_module(MOD)


def h_merge(eng):
    """The whole detect_aliases block of the real _simplify_once -- grouping of the variables, whatever snapshot of the relation the
    code takes to tell old aliases from new ones, the real _detect_alias fast path and _make_alias, the REAL AliasRelation, and the
    attribute-merging loop -- for a canonical variable c (state or input) with 1..3 aliases of enumerated signs, each either
    eliminated in an EARLIER pass (already in the relation, no longer a variable of the model) or found in THIS pass (an equation
    c -+ a = 0 among the model's equations).  Attributes are symbolic."""
    mod = install_block(eng)
    vcls = eng.module_global(mod, "Variable")
    dvcls = eng.module_global(mod, "_DefaultValue")
    signs = SIGN_SHAPES[eng.choice(len(SIGN_SHAPES))]
    eng.input("alias_signs", signs)
    kind = ["state", "input"][eng.choice(2)]
    eng.input("canonical_is", kind)
    # one member of the group may be an Integer variable (a Real and an Integer variable can be aliases of each other; the merged
    # bounds, nominal and start are real numbers all the same)
    int_member = [None, "c", "a0"][eng.choice(3)]
    eng.input("integer_variable", int_member)
    canon = make_var(eng, vcls, dvcls, "c", integer=(int_member == "c"))
    al = [make_var(eng, vcls, dvcls, "a%d" % i, integer=(int_member == "a%d" % i)) for i in range(len(signs))]
    handled = {}
    for i in range(len(signs)):
        handled["a%d" % i] = bool(eng.choice(2))
        eng.input("a%d.eliminated_in_an_earlier_pass" % i, handled["a%d" % i])
    pre = {v.fields["symbol"].label: dict(v.fields) for v in [canon] + al}
    alias_names = [("-" if s_ < 0 else "") + "a%d" % i for i, s_ in enumerate(signs)]
    rel = eng.call(eng.module_global(eng.load_module("pymoca.backends.casadi.alias_relation"), "AliasRelation"), [], {})
    for i, nm in enumerate(alias_names):
        if handled["a%d" % i]:
            eng.call(eng.getattr(rel, "add", None, None), ["c", nm], {})
    canon.fields["aliases"] = VSet([nm for i, nm in enumerate(alias_names) if handled["a%d" % i]])
    groups = {g: VList([]) for g in ("states", "der_states", "alg_states", "inputs", "parameters", "constants")}
    groups["states" if kind == "state" else "inputs"].items.append(canon)
    if kind == "state":
        groups["der_states"].items.append(VObj(vcls, {"symbol": MX("der(c)"), "python_type": VClass("float"), "aliases": VSet([])}))
    eqs = []
    for i, (s_, a) in enumerate(zip(signs, al)):
        if not handled["a%d" % i]:
            groups["alg_states"].items.append(a)
            eqs.append(EqStub(canon.fields["symbol"], a.fields["symbol"], s_ < 0))
    selfobj = new_model(eng, dict(groups, alias_relation=rel, equations=VList(eqs), initial_equations=VList([])))
    options = VDict([("detect_aliases", True), ("expand_vectors", False), ("expand_mx", False), ("allow_derivative_aliases", True)])
    try:
        fr = eng.exec_fragment(MOD, "Model._simplify_once", block_selector, {"self": selfobj, "options": options}, label="alias-attribute-merge")
    except PyRaise as e:
        eng.prove("merge.no_exception", False, exc=repr(e.exc))
        return
    eng.cover("merge.done")
    eng.prove("merge.no_exception", True)
    all_states, variables, values = fr.locals["all_states"], fr.locals["variables"], fr.locals["values"]
    handled = {k: z3.BoolVal(v) for k, v in handled.items()}
    # ---------------- (P) expected values, over the aliases that are processed in this pass
    m, M, nom = pre["c"]["min"], pre["c"]["max"], pre["c"]["nominal"]
    fixed = pre["c"]["fixed"]
    start_explicit = canon.has_start
    start_val = pre["c"]["start"] if canon.has_start else None
    start_cond = []   # (condition that this alias supplies the start, value)
    for i, (s, a) in enumerate(zip(signs, al)):
        h = handled["a%d" % i]
        p = pre["a%d" % i]
        amin = p["min"] if s == 1 else xneg(p["max"])
        amax = p["max"] if s == 1 else xneg(p["min"])
        m = xite(h, m, xmax(m, amin))
        M = xite(h, M, xmin(M, amax))
        nom = z3.If(h, nom, xmax(nom, p["nominal"]))
        fixed = z3.Or(fixed, z3.And(z3.Not(h), p["fixed"]))
        if a.has_start:
            start_cond.append((z3.Not(h), p["start"] if s == 1 else -p["start"]))
    got = canon.fields
    eng.prove("merge.min_is_intersection", xeq(got["min"], m))
    eng.prove("merge.max_is_intersection", xeq(got["max"], M))
    eng.prove("merge.nominal_is_largest", _num(got["nominal"]) == nom)
    eng.prove("merge.fixed_if_any_fixed", (_num(_unbool(got["fixed"])) != 0) == fixed)
    gs = got["start"]
    if start_explicit:
        eng.prove("merge.own_start_kept", z3.BoolVal(not isinstance(gs, VObj)) if isinstance(gs, VObj) else _num(gs) == _num(start_val))
    else:
        # first processed alias with an explicit start supplies it (sign-adjusted), else default
        none_supplies = z3.And([z3.Not(c) for c, _ in start_cond]) if start_cond else z3.BoolVal(True)
        if isinstance(gs, VObj):
            eng.prove("merge.start_from_alias", none_supplies)
        else:
            exp = None
            for c, val in reversed(start_cond):
                exp = val if exp is None else z3.If(c, val, exp)
            eng.prove("merge.start_from_alias", z3.And(z3.Not(none_supplies), _num(gs) == exp) if exp is not None else False)
    # every processed alias is eliminated exactly once, bound to sign * canonical; handled ones stay
    for i, (s, a) in enumerate(zip(signs, al)):
        h = handled["a%d" % i]
        present = ops.contains_expr(eng, all_states, "a%d" % i)
        eng.prove("merge.processed_alias_removed_from_states", z3.BoolVal(present is False))
        cnt = sum(1 for x in variables.items if x is a.fields["symbol"])
        eng.prove("merge.processed_alias_substituted_once", z3.If(h, z3.BoolVal(cnt == 0), z3.BoolVal(cnt == 1)))
        for x, val in zip(variables.items, values.items):
            if x is a.fields["symbol"]:
                want = "(%r*c)" % s
                eng.prove("merge.alias_bound_to_signed_canonical", z3.BoolVal(isinstance(val, MX) and val.label == want))
    eng.prove("merge.canonical_kept", z3.BoolVal(ops.contains_expr(eng, all_states, "c") is True))
    got_al = got.get("aliases")
    eng.prove("merge.canonical_lists_the_whole_signed_class", z3.BoolVal(isinstance(got_al, VSet) and set(got_al.items) == set(alias_names)), got=repr(getattr(got_al, "items", got_al)))


MODEL = "pymoca.backends.casadi.model"


class DefaultInt(Ext):
    """an instance of model._DefaultValue (a subclass of int with value 0): 'no start value was set'"""
    type_names = ("_DefaultValue", "int")

    def sym_unop(self, eng, op):
        if op == "float":
            return 0.0
        if op == "int":
            return 0
        raise Unsupported("unop %s on _DefaultValue" % op)

    def sym_eq(self, eng, other):
        return other is self or (isinstance(other, (int, float)) and not isinstance(other, bool) and other == 0)


def h_start_sentinel_survives_expansion(eng):
    """The merge decides 'the canonical variable has no start of its own' by isinstance(start, _DefaultValue).  _simplify_once runs
    _expand_vectors BEFORE the alias merge (expand_vectors option): the elements of an array variable must inherit the array's
    attribute values AS THEY ARE -- in particular the _DefaultValue sentinel of an unset start stays a _DefaultValue, and an explicit
    start stays explicit -- or an element that becomes a canonical variable no longer takes its alias's start."""
    from . import C18
    C18.install(eng)
    np_ = eng.ext_modules["numpy"]
    np_.attrs["isfinite"] = stub(lambda eng, v: True)
    mm = eng.load_module(MODEL)
    cls = eng.module_global(mm, "Model")
    dv = eng.module_global(mm, "_DefaultValue")
    # _DefaultValue is a subclass of int: numpy.isscalar is true for it
    np_.attrs["isscalar"] = stub(lambda eng, v: isinstance(v, (int, float, bool, C18.ScalarVal, DefaultInt)))
    np_.attrs["isfinite"] = stub(lambda eng, v: isinstance(v, (int, float)) and v == v and abs(v) != float("inf"))
    dv.constructor = lambda eng, c, a, k: DefaultInt()
    f = eng.find_function(MODEL, "Model._expand_vectors")
    var_cls = eng.module_global(mm, "Variable")
    group = ["inputs", "states", "alg_states"][eng.choice(3)]
    explicit = bool(eng.choice(2))
    eng.input("group", group)
    eng.input("array_has_explicit_start", explicit)
    sentinel = DefaultInt()
    sym = C18.SymT("u", (3, 1), ((3,),))
    old = VObj(var_cls, {"symbol": sym, "python_type": eng.builtins["float"], "aliases": VSet([])})
    old.fields.update({"value": float("nan"), "min": -float("inf"), "max": 7.5, "nominal": 1, "fixed": False})
    old.fields["start"] = 2.5 if explicit else sentinel
    m = VObj(cls, {g: VList([]) for g in ("states", "der_states", "alg_states", "inputs", "parameters", "constants")})
    m.fields[group] = VList([old])
    m.fields.update({"equations": VList([]), "initial_equations": VList([]), "delay_arguments": VList([]), "delay_states": VList([]), "outputs": VList([])})
    cls.attrs["_substitute_metadata"] = C18._rec([])
    cls.attrs["_substitute_delay_arguments"] = C18._rec2()
    try:
        eng.call(VBound(f, m), [], {})
    except PyRaise as e:
        eng.prove("merge.start_default_sentinel_survives_vector_expansion", False, exc=repr(e.exc))
        return
    eng.cover("sentinel.done")
    new = m.fields[group].items
    ok = len(new) == 3
    for v in new:
        st = v.fields.get("start")
        is_default = isinstance(st, DefaultInt)
        ok = ok and (is_default if not explicit else (not is_default and st == 2.5))
    eng.prove("merge.start_default_sentinel_survives_vector_expansion", z3.BoolVal(bool(ok)), starts=[repr(v.fields.get("start")) for v in new])


# what a LATER detect_aliases pass finds: (kind of the new canonical variable, sign of the new alias equation,
# sign with which the variable eliminated in the earlier pass hangs on the old canonical variable)
LATER_PASS = [(kind, neg, oldneg) for kind in ("state", "input", "algebraic") for neg in (False, True) for oldneg in (False, True)]


def h_merge_in_a_later_pass(eng):
    """The detect_aliases block as a whole (real code from the grouping of the variables, the snapshot of the relation and the real
    _detect_alias / _make_alias closures to the merge loop) on the REAL AliasRelation, in a pass that follows an earlier one:
    B was the canonical variable of {B, (+-)A} and A is gone from the model; now an equation x (+-) B = 0 makes B an alias of x.
    B's attributes -- which already hold A's share -- must be merged into x with the sign of THIS alias, B must be eliminated,
    and A (eliminated earlier, no longer a variable) must be left alone; a fresh alias y of x found in the same pass is merged too."""
    mod = install_block(eng)
    vcls = eng.module_global(mod, "Variable")
    dvcls = eng.module_global(mod, "_DefaultValue")
    kind, neg, oldneg = LATER_PASS[eng.choice(len(LATER_PASS))]
    eng.input("new_canonical_is", kind)
    eng.input("new_alias_equation", "x + B = 0" if neg else "x - B = 0")
    eng.input("earlier_pass", "B = -A" if oldneg else "B = A")
    x = make_var(eng, vcls, dvcls, "x")
    B = make_var(eng, vcls, dvcls, "B")
    y = make_var(eng, vcls, dvcls, "y")
    pre = {v.fields["symbol"].label: dict(v.fields) for v in (x, B, y)}
    rel = eng.call(eng.module_global(eng.load_module("pymoca.backends.casadi.alias_relation"), "AliasRelation"), [], {})
    eng.call(eng.getattr(rel, "add", None, None), ["B", "-A" if oldneg else "A"], {})
    B.fields["aliases"] = VSet(["-A" if oldneg else "A"])
    groups = {g: VList([]) for g in ("states", "der_states", "alg_states", "inputs", "parameters", "constants")}
    # an algebraic x can only become the canonical variable when it is the second operand... the real _make_alias decides; for the
    # algebraic case x is given a (non-eliminable) alias history instead: it is what survives because B is eliminated first
    groups[{"state": "states", "input": "inputs", "algebraic": "alg_states"}[kind]].items.append(x)
    if kind == "state":
        dx = VObj(vcls, {"symbol": MX("der(x)"), "python_type": VClass("float"), "aliases": VSet([])})
        groups["der_states"].items.append(dx)
    groups["alg_states"].items.extend([B, y])
    eqs = [EqStub(x.fields["symbol"], B.fields["symbol"], neg), EqStub(x.fields["symbol"], y.fields["symbol"], False)]
    selfobj = new_model(eng, dict(groups, alias_relation=rel, equations=VList(eqs), initial_equations=VList([])))
    options = VDict([("detect_aliases", True), ("expand_vectors", False), ("expand_mx", False), ("allow_derivative_aliases", True)])
    try:
        fr = eng.exec_fragment(MOD, "Model._simplify_once", block_selector, {"self": selfobj, "options": options}, label="detect-aliases-block")
    except PyRaise as e:
        eng.prove("later.no_exception", False, exc=repr(e.exc))
        return
    eng.cover("later.done")
    eng.prove("later.no_exception", True)
    canon_of_B = eng.call(eng.getattr(rel, "canonical_signed", None, None), ["B"], {})
    cname = canon_of_B[0] if isinstance(canon_of_B, tuple) else None
    # a state or an input is never eliminated; of two algebraic variables either may survive (the statement is about the survivor)
    eng.prove("later.survivor_is_allowed", z3.BoolVal(cname == "x" or (cname in ("B", "y") and kind == "algebraic")), canonical=repr(canon_of_B))
    if cname not in ("x", "B", "y"):
        return
    all_states, variables, values = fr.locals["all_states"], fr.locals["variables"], fr.locals["values"]
    sB = -1 if neg else 1
    byname = {"x": x, "B": B, "y": y}
    # signs relative to the survivor: x = sB * B, y = x
    val = {"x": 1, "B": sB, "y": 1}
    rel_sign = {nm: val[nm] * val[cname] for nm in ("x", "B", "y") if nm != cname}
    c = byname[cname]
    m, M = pre[cname]["min"], pre[cname]["max"]
    nom, fixed = pre[cname]["nominal"], pre[cname]["fixed"]
    starts = []
    for nm, sgn in rel_sign.items():
        v, p_ = byname[nm], pre[nm]
        m = xmax(m, p_["min"] if sgn == 1 else xneg(p_["max"]))
        M = xmin(M, p_["max"] if sgn == 1 else xneg(p_["min"]))
        nom = xmax(nom, p_["nominal"])
        fixed = z3.Or(fixed, p_["fixed"])
        if v.has_start:
            starts.append(p_["start"] if sgn == 1 else -p_["start"])
    got = c.fields
    eng.prove("later.min_is_intersection_with_the_newly_aliased_variables", xeq(got["min"], m))
    eng.prove("later.max_is_intersection_with_the_newly_aliased_variables", xeq(got["max"], M))
    eng.prove("later.nominal_is_largest", _num(got["nominal"]) == nom)
    eng.prove("later.fixed_if_any_fixed", (_num(_unbool(got["fixed"])) != 0) == fixed)
    gs = got["start"]
    if c.has_start:
        eng.prove("later.own_start_kept", z3.BoolVal(not isinstance(gs, VObj)) if isinstance(gs, VObj) else _num(gs) == _num(pre[cname]["start"]))
    elif not starts:
        eng.prove("later.start_from_alias", z3.BoolVal(isinstance(gs, VObj)))
    else:
        # the aliases are visited in the relation's set order: either explicit start is an alias's start
        eng.prove("later.start_from_alias", z3.BoolVal(False) if isinstance(gs, VObj) else z3.Or([_num(gs) == s_ for s_ in starts]))
    for nm, sgn in rel_sign.items():
        v = byname[nm]
        eng.prove("later.newly_aliased_variable_is_eliminated", z3.BoolVal(ops.contains_expr(eng, all_states, nm) is False), variable=nm)
        hits = [val for var, val in zip(variables.items, values.items) if var is v.fields["symbol"]]
        eng.prove("later.newly_aliased_variable_substituted_once_by_signed_canonical",
                  z3.BoolVal(len(hits) == 1 and isinstance(hits[0], MX) and hits[0].label == "(%r*%s)" % (sgn, cname)), variable=nm)
    eng.prove("later.canonical_kept", z3.BoolVal(ops.contains_expr(eng, all_states, cname) is True))
    eng.prove("later.variable_eliminated_in_the_earlier_pass_is_not_touched", z3.BoolVal(not any(isinstance(var, MX) and var.label == "A" for var in variables.items)))
    al = got.get("aliases")
    sA = val["B"] * val[cname] * (-1 if oldneg else 1)
    want = {("-" if sg < 0 else "") + nm for nm, sg in rel_sign.items()} | {("-" if sA < 0 else "") + "A"}
    eng.prove("later.canonical_lists_the_whole_signed_class", z3.BoolVal(isinstance(al, VSet) and set(al.items) == want), got=repr(getattr(al, "items", al)))


HARNESSES = [("Model._simplify_once#alias-attribute-merge", h_merge), ("Model._expand_vectors keeps the unset-start sentinel", h_start_sentinel_survives_expansion),
             ("Model._simplify_once#detect-aliases-block in a later pass, real AliasRelation", h_merge_in_a_later_pass)]
EXPECTED_COVER = {"merge.done", "sentinel.done", "later.done"}
BOUNDED = True
LEVEL = "proof"
TRUSTED = ["pyvc VC generator", "z3 5.1.0", "ca.fmax / ca.fmin are max / min on (extended) reals; ca.MX(x).is_constant() for numbers",
           "AliasRelation.__iter__ yields (canonical, aliases) per class (C17; in the later-pass harness the real AliasRelation methods are executed); all_states maps every alias name to its Variable (fragment harness; the later-pass harness builds it with the real code)"]
ASSUMPTIONS = [
    "a canonical variable (state or input) with 1..3 aliases, sign patterns enumerated ([+], [-], [+,-], [-,-], [-,+,+]), every split into aliases of an earlier pass and of this pass; bounds are the default infinity or any finite real; nominals >= 0",
    "alias equations of this pass are two-symbol sums / differences (the fast path of _detect_alias); the substitute-based slow path is C14's subject",
    "the start-conflict warning branch only logs (its MX comparisons are opaque)",
    "python_type propagation is not part of the statement and is not checked",
]
DROPPED = ["logger.warning text"]
EXPLANATION = "Contract for the whole detect_aliases block (snapshot, detection fast path, _make_alias, real AliasRelation, attribute-merging loop) over symbolic reals with infinite defaults."
MANIFEST = {
    "category": "proof",
    "text": "The detect_aliases block of the real _simplify_once (extracted structurally on every run: variable grouping, the snapshot that separates aliases of earlier passes, the nested _detect_alias fast path and _make_alias, and the attribute-merging loop, over the real AliasRelation class) is executed symbolically for arbitrary real bounds (finite or default infinite), nominals, fixed flags and start values, for canonical variables with 1-3 aliases of enumerated sign patterns, each alias either eliminated in an earlier pass or found in this one, and for an old canonical variable that becomes an alias of a state / input / algebraic variable in a later pass: the resulting min/max are the intersection with min/max swapped and negated for negative aliases, nominal the largest, fixed iff any fixed, start kept or taken sign-adjusted from the first alias that has one; each processed alias is removed and substituted by sign*canonical exactly once. The step that runs before the merge under expand_vectors, _expand_vectors (whole function), is verified to hand the array's unset-start sentinel (_DefaultValue) and an explicit start to every element unchanged, so 'had no start of its own' means the same for array elements. A bounded replay checks the same on real models through simplify(). One member of the alias group may be an Integer variable (real builtin types; int() of symbolic reals).",
    "note": "alias counts, sign patterns and pass histories enumerated (1-3 aliases, one earlier pass); alias equations limited to the two-symbol fast path; ca.fmax/fmin assumed to be max/min; python_type propagation not judged.",
    "technique": "contract-based deductive verification: structural fragment extraction + symbolic execution over reals with distinguished infinities, z3",
}
