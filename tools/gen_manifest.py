#!/usr/bin/env python3
"""Regenerates MANIFEST.json from contracts/*.py metadata (MANIFEST dict of each module) and the fixed
property list; properties without a contract module are listed under not_applicable with the reason
in tools/not_applicable.json."""
import importlib, json, os, sys
V = os.path.dirname(os.path.dirname(os.path.abspath(__file__)))
sys.path.insert(0, V)
props = [json.loads(l) for l in open(os.path.join(V, "properties.jsonl"))]
na = json.load(open(os.path.join(V, "tools", "not_applicable.json")))
checks, not_app = [], []
for p in props:
    pid = p["id"]
    path = os.path.join(V, "contracts", pid + ".py")
    if os.path.exists(path) and pid not in na:
        src = open(path).read()
        # metadata block: MANIFEST = {...} literal at module level
        import ast
        meta = None
        for node in ast.parse(src).body:
            if isinstance(node, ast.Assign) and getattr(node.targets[0], "id", None) == "MANIFEST":
                meta = ast.literal_eval(node.value)
        if meta is None:
            raise SystemExit("no MANIFEST in " + path)
        kf = [k for k in json.load(open(os.path.join(V, "known_findings.json"))) if k["property"] == pid and k["status"] == "open"]
        if kf:
            # an unrepaired, recorded finding means not every obligation is discharged: the evidence
            # reports level "other" for such a run, and so does the claim
            meta = dict(meta, category="other", text=meta["text"] + " NOTE: %d recorded known finding(s) remain open for this property, so the claimed level is 'other' (proof obligations minus the listed findings), not 'proof'." % len(kf))
        checks.append({
            "property_id": pid,
            "quick_cmd": "./check %s --tier quick" % pid,
            "thorough_cmd": "./check %s --tier thorough" % pid,
            "evidence_file": "evidence/%s.json" % pid,
            "replay_cmd_template": "./check --replay {path}",
            "engine": "pyvc",
            "level_claimed": {"category": meta["category"], "text": meta["text"], "design_ref": meta.get("design_ref", "DESIGN.md section 4/" + pid)},
            "level_note": meta["note"],
            "technique": meta["technique"],
        })
    else:
        not_app.append({"property_id": pid, "reason": na.get(pid, "no contract-based check has been built for this property yet")})
m = {
    "version": 1,
    "setup_cmd": "./setup.sh",
    "hooks": {"guard": "PYMOCA_VERIF", "enable": "none needed: contracts are sidecar files under /verif/contracts keyed by module + qualified name; /repo is not instrumented",
              "baseline_off_cmd": "cd /repo && /venv/bin/python -m pytest -ra -q -p no:cacheprovider --timeout=900 --continue-on-collection-errors",
              "source_commits": [], "add_only": True},
    "engines": [{"name": "pyvc", "path": "pyvc/", "serves_properties": [c["property_id"] for c in checks],
                 "kind_free_text": "self-built verification-condition generator: symbolic execution of the real /repo source (python ast, re-read on every run) against sidecar contracts, obligations discharged by z3 5.1 with cvc5 1.0.3 / z3 4.8.12 fallback; bounded replay harnesses on the real code under /venv/bin/python as labelled stand-ins"}],
    "checks": checks,
    "not_applicable": not_app,
    "notes": "Exit codes of ./check: 0 held, 1 violation (VIOLATION line), 2 undecided, 3 checker broken. See DESIGN.md.",
}
json.dump(m, open(os.path.join(V, "MANIFEST.json"), "w"), indent=1)
print("checks:", [c["property_id"] for c in checks], "not_applicable:", len(not_app))
