"""Built-in functions and methods of list/dict/set/str/tuple for pyvc values."""
import z3

from . import ops
from .ops import (DictView, MISSING, _exc, and_, contains_expr, dict_find, eq_expr, is_sym, iterate,
                  kind, length, not_, or_, set_add, to_arith, to_z3)
from .values import (Ext, PyRaise, Unsupported, VBound, VClass, VDict, VFunc, VList, VModule, VObj,
                     VSet, VSlice, stub)


def _m(fn):
    """method stub: called as fn(eng, self, *args)"""
    fn._pyvc_method = True
    return fn


# ---------------------------------------------------------------- list
@_m
def list_append(eng, l, x):
    l.items.append(x)


@_m
def list_extend(eng, l, xs):
    l.items.extend(iterate(eng, xs))


@_m
def list_insert(eng, l, i, x):
    if is_sym(i):
        raise Unsupported("insert at symbolic index")
    l.items.insert(i, x)


@_m
def list_pop(eng, l, i=-1):
    if not l.items:
        raise _exc(eng, "IndexError", "pop from empty list")
    return l.items.pop(ops.norm_index(eng, i, len(l.items)))


@_m
def list_remove(eng, l, x):
    for i, y in enumerate(l.items):
        if eng.branch(eq_expr(eng, y, x)):
            del l.items[i]
            return
    raise _exc(eng, "ValueError", "list.remove(x): x not in list")


@_m
def list_index(eng, l, x):
    for i, y in enumerate(l.items):
        if eng.branch(eq_expr(eng, y, x)):
            return i
    raise _exc(eng, "ValueError", "not in list")


@_m
def list_count(eng, l, x):
    n = 0
    for y in l.items:
        if eng.branch(eq_expr(eng, y, x)):
            n += 1
    return n


@_m
def list_copy(eng, l):
    return VList(l.items)


@_m
def list_reverse(eng, l):
    l.items.reverse()


@_m
def list_clear(eng, l):
    del l.items[:]


@_m
def list_sort(eng, l, key=None, reverse=False):
    l.items[:] = b_sorted(eng, l, key=key, reverse=reverse).items


@_m
def deque_appendleft(eng, l, x):
    l.items.insert(0, x)


@_m
def deque_popleft(eng, l):
    if not l.items:
        raise _exc(eng, "IndexError", "pop from an empty deque")
    return l.items.pop(0)


@_m
def deque_extendleft(eng, l, xs):
    for x in iterate(eng, xs):
        l.items.insert(0, x)


# (collections.deque is modelled as a list with the deque's extra methods)
LIST_METHODS = dict(append=list_append, extend=list_extend, insert=list_insert, pop=list_pop,
                    remove=list_remove, index=list_index, count=list_count, copy=list_copy,
                    reverse=list_reverse, clear=list_clear, sort=list_sort,
                    appendleft=deque_appendleft, popleft=deque_popleft, extendleft=deque_extendleft)


@_m
def tuple_index(eng, t, x):
    return list_index(eng, VList(list(t)), x)


@_m
def tuple_count(eng, t, x):
    return list_count(eng, VList(list(t)), x)


# ---------------------------------------------------------------- dict
@_m
def dict_get(eng, d, k, default=None):
    i = dict_find(eng, d, k)
    return d.vals[i] if i >= 0 else default


@_m
def dict_setdefault(eng, d, k, default=None):
    i = dict_find(eng, d, k)
    if i >= 0:
        return d.vals[i]
    d.keys.append(k)
    d.vals.append(default)
    return default


@_m
def dict_pop(eng, d, k, default=MISSING):
    i = dict_find(eng, d, k)
    if i < 0:
        if default is MISSING:
            raise _exc(eng, "KeyError", k)
        return default
    v = d.vals[i]
    del d.keys[i]
    del d.vals[i]
    return v


@_m
def dict_update(eng, d, other=None, **kw):
    if other is not None:
        if isinstance(other, VDict):
            for k, v in zip(list(other.keys), list(other.vals)):
                ops.setitem(eng, d, k, v)
        else:
            for kv in iterate(eng, other):
                k, v = iterate(eng, kv)
                ops.setitem(eng, d, k, v)
    for k, v in kw.items():
        ops.setitem(eng, d, k, v)


@_m
def dict_copy(eng, d):
    c = VDict(list(zip(d.keys, d.vals)))
    if getattr(d, "ordered", False):
        c.ordered = True
    return c


@_m
def dict_clear(eng, d):
    del d.keys[:]
    del d.vals[:]


DICT_METHODS = dict(get=dict_get, setdefault=dict_setdefault, pop=dict_pop, update=dict_update,
                    copy=dict_copy, clear=dict_clear,
                    keys=_m(lambda eng, d: DictView(d, "keys")),
                    values=_m(lambda eng, d: DictView(d, "values")),
                    items=_m(lambda eng, d: DictView(d, "items")))


# ---------------------------------------------------------------- set
@_m
def set_add_m(eng, s, x):
    set_add(eng, s, x)


@_m
def set_discard(eng, s, x):
    for i, y in enumerate(s.items):
        if eng.branch(eq_expr(eng, y, x)):
            del s.items[i]
            return


@_m
def set_remove(eng, s, x):
    for i, y in enumerate(s.items):
        if eng.branch(eq_expr(eng, y, x)):
            del s.items[i]
            return
    raise _exc(eng, "KeyError", x)


@_m
def set_update(eng, s, *others):
    for o in others:
        for x in iterate(eng, o):
            set_add(eng, s, x)


@_m
def set_union(eng, s, *others):
    r = VSet(s.items)
    set_update(eng, r, *others)
    return r


SET_METHODS = dict(add=set_add_m, discard=set_discard, remove=set_remove, update=set_update,
                   union=set_union, copy=_m(lambda eng, s: VSet(s.items)),
                   clear=_m(lambda eng, s: s.items.clear()),
                   intersection=_m(lambda eng, s, o: ops.binop(eng, "BitAnd", s, b_set(eng, o))),
                   difference=_m(lambda eng, s, o: ops.binop(eng, "Sub", s, b_set(eng, o))),
                   issubset=_m(lambda eng, s, o: and_([contains_expr(eng, o, x) for x in s.items])))


# ---------------------------------------------------------------- str
def _concrete_str_method(name):
    def f(eng, s, *args, **kw):
        if is_sym(s) or any(is_sym(a) for a in args):
            return _sym_str_method(eng, name, s, args, kw)
        a2 = [tuple(a) if isinstance(a, tuple) else (a.items if isinstance(a, VList) else a) for a in args]
        if name == "join":
            items = iterate(eng, args[0])
            if all(isinstance(x, str) for x in items):
                return s.join(items)
            out = []
            for i, x in enumerate(items):
                if i:
                    out.append(s)
                if kind(x) != "str":
                    raise _exc(eng, "TypeError", "join of non-string")
                out.append(x)
            return ops.str_concat(eng, out)
        if name == "format":
            return ops.str_format(eng, s, list(args), kw)
        try:
            r = getattr(s, name)(*a2, **kw)
        except (ValueError, IndexError, TypeError) as e:
            raise _exc(eng, type(e).__name__, str(e))
        if isinstance(r, list):
            return VList(r)
        return r
    f._pyvc_method = True
    return f


def _sym_str_method(eng, name, s, args, kw):
    zs = to_z3(s)
    if name == "startswith":
        a = args[0]
        if isinstance(a, tuple):
            return or_([z3.PrefixOf(to_z3(x), zs) for x in a])
        return z3.PrefixOf(to_z3(a), zs)
    if name == "endswith":
        a = args[0]
        if isinstance(a, tuple):
            return or_([z3.SuffixOf(to_z3(x), zs) for x in a])
        return z3.SuffixOf(to_z3(a), zs)
    if name == "format":
        return ops.str_format(eng, s, list(args), kw)
    if name == "replace" and len(args) == 2:
        eng.abstraction("str.replace on a symbolic string is an uninterpreted string")
        return eng.fresh_str("repl")
    if name == "find":
        return z3.IndexOf(zs, to_z3(args[0]), z3.IntVal(0))
    if name == "join":
        return _concrete_str_method("join")(eng, s, *args)
    if name in ("strip", "lstrip", "rstrip") and len(args) == 1 and isinstance(args[0], str) and len(args[0]) == 1:
        # exact meaning for a one-character set: s = p ++ r ++ q with p, q in c*, r neither starting nor ending with c
        c = z3.StringVal(args[0])
        r = eng.fresh_str("stripped")
        p_ = eng.fresh_str("strip_l") if name != "rstrip" else z3.StringVal("")
        q_ = eng.fresh_str("strip_r") if name != "lstrip" else z3.StringVal("")
        cs = z3.Star(z3.Re(c))
        conds = [zs == z3.Concat(p_, r, q_)]
        if name != "rstrip":
            conds += [z3.InRe(p_, cs), z3.Not(z3.PrefixOf(c, r))]
        if name != "lstrip":
            conds += [z3.InRe(q_, cs), z3.Not(z3.SuffixOf(c, r))]
        eng.assume(z3.And(conds))
        return r
    if name in ("lower", "upper", "strip", "lstrip", "rstrip", "split", "rsplit"):
        raise Unsupported("str.%s on a symbolic string" % name)
    raise Unsupported("str.%s on a symbolic string" % name)


STR_METHODS = {n: _concrete_str_method(n) for n in
               ("startswith", "endswith", "format", "join", "split", "rsplit", "strip", "lstrip",
                "rstrip", "lower", "upper", "replace", "find", "rfind", "index", "count", "isdigit",
                "isidentifier", "partition", "rpartition", "splitlines", "title", "capitalize",
                "encode", "zfill", "ljust", "rjust", "isalpha", "isalnum", "isspace")}


def builtin_method(eng, o, name):
    table = None
    if isinstance(o, VList):
        table = LIST_METHODS
    elif isinstance(o, VDict):
        table = DICT_METHODS
    elif isinstance(o, VSet):
        table = SET_METHODS
    elif kind(o) == "str":
        table = STR_METHODS
    elif isinstance(o, tuple):
        table = {"index": tuple_index, "count": tuple_count}
    elif isinstance(o, ops.ObjDictView):
        if name == "keys":
            return stub(lambda eng: VList(list(o.obj.fields.keys())))
        if name == "items":
            return stub(lambda eng: VList([(k, v) for k, v in o.obj.fields.items()]))
        if name == "values":
            return stub(lambda eng: VList(list(o.obj.fields.values())))
        if name == "get":
            return stub(lambda eng, k, d=None: o.obj.fields.get(k, d))
        if name == "update":
            def upd(eng, other):
                for k in iterate(eng, other):
                    o.obj.fields[k] = ops.getitem(eng, other, k)
            return stub(upd)
        raise Unsupported("attribute %s of __dict__" % name)
    elif isinstance(o, DictView):
        raise Unsupported("attribute %s of dict view" % name)
    if table is not None and name in table:
        return VBound(table[name], o)
    if table is not None:
        raise _exc(eng, "AttributeError", "%s object has no attribute %s" % (kind(o), name))
    if o is None:
        raise _exc(eng, "AttributeError", "'NoneType' object has no attribute '%s'" % name)
    if kind(o) in ("int", "float", "bool"):
        if name == "real":
            return o
        raise _exc(eng, "AttributeError", "%s object has no attribute %s" % (kind(o), name))
    raise Unsupported("attribute %s of %s" % (name, kind(o)))


ops.builtin_method = builtin_method


# ---------------------------------------------------------------- builtin functions
@stub
def b_len(eng, v):
    return length(eng, v)


@stub
def b_isinstance(eng, v, cls):
    return ops.isinstance_(eng, v, cls)


@stub
def b_issubclass(eng, c, cls):
    if isinstance(cls, tuple):
        return any(c.is_subclass_of(x) for x in cls)
    return c.is_subclass_of(cls)


@stub
def b_range(eng, *args):
    if any(is_sym(a) for a in args):
        return SymRange(*args)
    return range(*args)


class SymRange(Ext):
    """range with symbolic bounds; iteration needs a loop contract."""
    type_names = ("range",)

    def __init__(self, *args):
        if len(args) == 1:
            self.start, self.stop, self.step = 0, args[0], 1
        elif len(args) == 2:
            self.start, self.stop, self.step = args[0], args[1], 1
        else:
            self.start, self.stop, self.step = args


@stub
def b_list(eng, v=None):
    return VList(iterate(eng, v)) if v is not None else VList()


@stub
def b_tuple(eng, v=None):
    return tuple(iterate(eng, v)) if v is not None else ()


@stub
def b_set(eng, v=None):
    s = VSet()
    if v is not None:
        for x in iterate(eng, v):
            set_add(eng, s, x)
    return s


@stub
def b_dict(eng, v=None, **kw):
    d = VDict()
    dict_update(eng, d, v, **kw)
    return d


@stub
def b_ordered_dict(eng, v=None, **kw):
    d = VDict()
    d.ordered = True
    dict_update(eng, d, v, **kw)
    return d


@stub
def b_zip(eng, *seqs):
    ls = [iterate(eng, s) for s in seqs]
    return VList([tuple(t) for t in zip(*ls)])


@stub
def b_enumerate(eng, seq, start=0):
    return VList([(i, x) for i, x in enumerate(iterate(eng, seq), start)])


@stub
def b_reversed(eng, seq):
    return VList(list(reversed(iterate(eng, seq))))


@stub
def b_sorted(eng, seq, key=None, reverse=False):
    items = iterate(eng, seq)
    keys = [eng.call(key, [x], {}) if key is not None else x for x in items]
    if any(is_sym(k) or not isinstance(k, (int, float, str, tuple)) for k in keys):
        raise Unsupported("sorted() with symbolic keys")
    order = sorted(range(len(items)), key=lambda i: keys[i], reverse=bool(reverse))
    return VList([items[i] for i in order])


@stub
def b_sum(eng, seq, start=0):
    acc = start
    for x in iterate(eng, seq):
        acc = ops.binop(eng, "Add", acc, x)
    return acc


@stub
def b_any(eng, seq):
    for x in iterate(eng, seq):
        if eng.truth(x):
            return True
    return False


@stub
def b_all(eng, seq):
    for x in iterate(eng, seq):
        if not eng.truth(x):
            return False
    return True


def _minmax(eng, args, key, is_max, default=MISSING):
    items = iterate(eng, args[0]) if len(args) == 1 else list(args)
    if not items:
        if default is not MISSING:
            return default
        raise _exc(eng, "ValueError", "empty sequence")
    best = items[0]
    bk = eng.call(key, [best], {}) if key else best
    for x in items[1:]:
        xk = eng.call(key, [x], {}) if key else x
        c = ops.compare(eng, "Gt" if is_max else "Lt", xk, bk)
        if is_sym(c) and key is None and ops.is_num(x) and ops.is_num(best):
            best = z3.If(c, to_arith(x), to_arith(best))
            bk = best
        elif eng.truth(c):
            best, bk = x, xk
    return best


@stub
def b_min(eng, *args, key=None, default=MISSING):
    return _minmax(eng, args, key, False, default)


@stub
def b_max(eng, *args, key=None, default=MISSING):
    return _minmax(eng, args, key, True, default)


@stub
def b_abs(eng, v):
    if is_sym(v):
        a = to_arith(v)
        return z3.If(a >= 0, a, -a)
    return abs(v)


@stub
def b_str(eng, v=""):
    if isinstance(v, VObj):
        f, _ = v.cls.lookup("__str__")
        if f is not None:
            return eng.call(VBound(f, v), [], {})
        args = v.fields.get("args")
        if isinstance(args, tuple) and any(c.name == "BaseException" for c in v.cls.mro()):
            if len(args) == 0:
                return ""
            if len(args) == 1:
                return ops.to_str(eng, args[0])
    if isinstance(v, Ext) and hasattr(v, "sym_str"):
        return v.sym_str(eng)
    return ops.to_str(eng, v)


@stub
def b_repr(eng, v):
    if isinstance(v, str):
        return repr(v)
    return ops.to_str(eng, v)


@stub
def b_int(eng, v=0, base=10):
    if is_sym(v):
        if ops.is_int_sort(v):
            return v
        if ops.is_bool_sort(v):
            return to_arith(v)
        if ops.is_str_sort(v):
            raise Unsupported("int() of symbolic string")
        # int(x) truncates toward zero; z3's to_int floors
        return z3.If(v >= 0, z3.ToInt(v), -z3.ToInt(-v))
    if isinstance(v, Ext):
        return v.sym_unop(eng, "int")
    try:
        return int(v, base) if isinstance(v, str) else int(v)
    except (ValueError, TypeError, OverflowError) as e:
        raise _exc(eng, type(e).__name__, str(e))


@stub
def b_float(eng, v=0.0):
    if is_sym(v):
        if ops.is_real_sort(v):
            return v
        if ops.is_int_sort(v) or ops.is_bool_sort(v):
            return z3.ToReal(to_arith(v))
        raise Unsupported("float() of symbolic string")
    if isinstance(v, Ext):
        return v.sym_unop(eng, "float")
    try:
        return float(v)
    except (ValueError, TypeError) as e:
        raise _exc(eng, type(e).__name__, str(e))


@stub
def b_bool(eng, v=False):
    return eng.truth(v, sym=True)


@stub
def b_hasattr(eng, o, name):
    try:
        eng.getattr(o, name)
        return True
    except PyRaise as r:
        if isinstance(r.exc, VObj) and r.exc.cls.name == "AttributeError":
            return False
        raise


@stub
def b_next(eng, it, default=MISSING):
    """next() of a freshly made iterator / generator (generators are evaluated eagerly): its first element"""
    items = eng.iterate(it)
    if items:
        return items[0]
    if default is not MISSING:
        return default
    raise PyRaise(eng.make_exc("StopIteration", ""))


@stub
def b_getattr(eng, o, name, default=MISSING):
    return eng.getattr(o, name, None, default)


@stub
def b_setattr(eng, o, name, value):
    eng.setattr(o, name, value)


@stub
def b_id(eng, o):
    ids = eng.__dict__.setdefault("_ids", {})
    key = id(o)
    if key not in ids:
        ids[key] = (len(ids) + 1, o)
    return IdVal(ids[key][0], o)


class IdVal(Ext):
    """the value of id(obj): equal exactly for identical objects (A4)"""

    def __init__(self, n, obj):
        self.n, self.obj = n, obj

    def sym_eq(self, eng, other):
        return isinstance(other, IdVal) and other.obj is self.obj

    def __hash__(self):
        return hash(self.n)


@stub
def b_print(eng, *a, **k):
    return None


@stub
def b_type(eng, o):
    if isinstance(o, VObj):
        return o.cls
    from .engine import EXC
    k = kind(o)
    if k in EXC:
        return EXC[k]
    raise Unsupported("type() of %s" % k)


@stub
def b_slice(eng, *args):
    if len(args) == 1:
        return VSlice(None, args[0], None)
    if len(args) == 2:
        return VSlice(args[0], args[1], None)
    return VSlice(*args)


@stub
def b_callable(eng, o):
    return isinstance(o, (VFunc, VBound, VClass)) or callable(o)


@stub
def b_iter(eng, v):
    return VList(iterate(eng, v))


@stub
def b_round(eng, v, nd=None):
    if is_sym(v):
        raise Unsupported("round() symbolic")
    return round(v, nd) if nd is not None else round(v)


@stub
def b_filter(eng, fn, seq):
    out = []
    for x in iterate(eng, seq):
        if eng.truth(x if fn is None else eng.call(fn, [x], {})):
            out.append(x)
    return VList(out)


@stub
def b_map(eng, fn, *seqs):
    ls = [iterate(eng, s) for s in seqs]
    return VList([eng.call(fn, list(t), {}) for t in zip(*ls)])


@stub
def b_open_unsupported(eng, *a, **k):
    raise Unsupported("open() without an environment contract")


def make_builtins():
    from .engine import EXC
    b = dict(len=b_len, isinstance=b_isinstance, issubclass=b_issubclass, range=b_range,
             zip=b_zip, enumerate=b_enumerate, reversed=b_reversed, sorted=b_sorted, sum=b_sum,
             any=b_any, all=b_all, min=b_min, max=b_max, abs=b_abs, repr=b_repr,
             hasattr=b_hasattr, next=b_next, getattr=b_getattr, setattr=b_setattr, id=b_id, print=b_print,
             type=b_type, callable=b_callable, iter=b_iter, round=b_round, open=b_open_unsupported,
             filter=b_filter, map=b_map,
             True_=True, NotImplemented=NotImplemented)
    for n, c in EXC.items():
        b[n] = c
    return b


TYPE_CONSTRUCTORS = dict(list=b_list, tuple=b_tuple, set=b_set, dict=b_dict, str=b_str, int=b_int,
                         float=b_float, bool=b_bool, slice=b_slice, frozenset=b_set, type=b_type,
                         object=stub(lambda eng: VObj(VClass("object"))))
ops.TYPE_CONSTRUCTORS = TYPE_CONSTRUCTORS
