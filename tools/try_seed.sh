#!/bin/bash
# usage: try_seed.sh <ID> <seed-dir-name> [harness filter]  -- quick VC-only run of one property against a scratch
# worktree of /repo with seeded/<name>/patch.diff applied (worktree removed afterwards)
ID=$1; NAME=$2; FILTER=$3
D=$(mktemp -d /tmp/tryseed_XXXX)
git -C /repo worktree add --detach -f $D/repo HEAD >/dev/null 2>&1
git -C $D/repo apply /verif/seeded/$NAME/patch.diff || { echo "patch does not apply"; }
cd /verif
if [ -n "$FILTER" ]; then
PYVC_REPO=$D/repo PYTHONPATH=/verif python3-vt -m pyvc.run $ID "$FILTER" 2>&1 | grep -v conda | grep -v "^PROVED"
else
PYVC_REPO=$D/repo PYTHONPATH=/verif python3-vt -m pyvc.run $ID 2>&1 | grep -v conda | grep -v "^PROVED"
fi
git -C /repo worktree remove --force $D/repo; rm -rf $D
