#!/bin/bash
# offline setup: nothing to build; verify the two interpreters the checks use
set -e
python3-vt -c "import z3, cvc5; print('z3', z3.get_version_string())" 2> >(grep -v "WARNING conda" >&2)
/venv/bin/python -c "import sys; sys.path.insert(0, '/repo/src'); import pymoca, casadi; print('pymoca ok, casadi', casadi.__version__)"
test -x /usr/bin/cvc5 && test -x /usr/bin/z3
mkdir -p out evidence
echo setup ok
