"""C10 -- the generated CasADi model classifies every variable exactly once.

Functions under contract (real source, whole functions):
  Generator.exitClass                 category split, der_states alignment, outputs
  Generator._ast_symbols_to_variables list structure (same skip rule for states and derivatives,
                                      Variable vs StringVariable)
  StateAnnotator.enterExpression / exitExpression / exitComponentRef   (pymoca.tree)
  annotate_states, and the walk / handle_walk / skip_child of whichever walker class it instantiates:
                                      every node below the class is delivered, bracketed, no field
                                      skipped except links out of the subtree and documentation
Symbolic: for every symbol, membership of each prefix keyword (constant, parameter, input, state,
output), whether it is String-typed, whether its CasADi symbol is empty; the operator of an
expression node; the der-nesting counter.  Enumerated: number of symbols (1..3), their declaration
order versus dictionary order.
"""
import z3

from pyvc import ops
from pyvc.values import Ext, NoOp, PyRaise, Unsupported, VBound, VClass, VDict, VList, VObj, VSet, VSlice, stub

GEN = "pymoca.backends.casadi.generator"
TREE = "pymoca.tree"
KEYWORDS = ("constant", "parameter", "input", "state", "output")


class PrefixList(Ext):
    """prefixes of one symbol: symbolic membership per keyword; appends are recorded"""
    type_names = ("list",)

    def __init__(self, eng, label, inputs=True):
        self.label = label
        self.has = {k: (eng.input("%s.%s" % (label, k), eng.fresh_bool("%s_%s" % (label, k))) if inputs else eng.fresh_bool(k))
                    for k in KEYWORDS}
        self.appended = []

    def sym_contains(self, eng, item):
        if isinstance(item, str):
            if item in self.appended:
                return True
            if item in self.has:
                return self.has[item]
            return False
        raise Unsupported("prefix membership of a non-literal")

    def sym_getattr(self, eng, name):
        if name == "append":
            def append(eng, x):
                self.appended.append(x)
            return stub(append)
        raise Unsupported("prefixes.%s" % name)


class MXSym(Ext):
    type_names = ("MX",)

    def __init__(self, label):
        self.label = label

    def sym_getattr(self, eng, name):
        if name == "name":
            return stub(lambda eng: self.label)
        raise Unsupported("MX.%s" % name)


def category(p):
    """the statement's precedence: constant, parameter, input, state, algebraic -> 0..4 as z3 Int"""
    return z3.If(p.has["constant"], 0, z3.If(p.has["parameter"], 1, z3.If(p.has["input"], 2, z3.If(p.has["state"], 3, 4))))


def modules(eng):
    from contracts.api_common import ModuleStub, CollectionsStub, itertools_module
    typing = ModuleStub("typing", {})
    typing.attrs.update({k: typing for k in ("Dict", "Iterable", "Union", "List", "Optional")})

    def chain(eng, *seqs):
        out = []
        for s in seqs:
            out.extend(eng.iterate(s))
        return VList(out)
    mx_cls = VClass("MX")
    mx_cls.constructor = lambda eng, c, a, k: EmptyProbe(a[0])
    eng.ext_modules.update({
        "casadi": ModuleStub("casadi", {"MX": mx_cls, "DM": VClass("DM")}), "numpy": ModuleStub("numpy", {}),
        "logging": ModuleStub("logging", {"getLogger": stub(lambda eng, *a: NoOp())}),
        "itertools": itertools_module(), "typing": typing, "collections": CollectionsStub(),
        "copy": ModuleStub("copy", {}), "sys": ModuleStub("sys", {"maxsize": 2 ** 63 - 1}), "re": ModuleStub("re", {}),
        "enum": ModuleStub("enum", {"Enum": VClass("Enum")}), "json": ModuleStub("json", {}),
        "abc": ModuleStub("abc", {"ABC": VClass("ABC"), "abstractmethod": None}),
    })
    eng.call_contracts.clear()
    eng.loop_specs.clear()


class EmptyProbe(Ext):
    def __init__(self, x):
        self.x = x

    def sym_getattr(self, eng, name):
        if name == "is_empty":
            return stub(lambda eng: False)
        raise Unsupported("MX probe .%s" % name)


ORDERS = [[0], [0, 1], [1, 0], [2, 0, 1], [0, 2, 1]]


def h_exit_class(eng):
    modules(eng)
    gen_mod = eng.load_module(GEN)
    gcls = eng.module_global(gen_mod, "Generator")
    var_cls = eng.module_global(gen_mod, "Variable")
    svar_cls = eng.module_global(gen_mod, "StringVariable")
    f = eng.find_function(GEN, "Generator.exitClass")
    orders = ORDERS[eng.choice(len(ORDERS))]
    eng.input("declaration_order_of_dict_entries", orders)
    syms = []
    for i, o in enumerate(orders):
        p = PrefixList(eng, "sym%d" % i)
        s = VObj(VClass("Symbol"), {"name": "v%d" % i, "prefixes": p, "order": o})
        # to keep the number of paths manageable only the first symbol can be String-typed or
        # empty, and with three symbols the output flags are fixed (stated in ASSUMPTIONS)
        full = i == 0 and len(orders) <= 2
        s.is_string = eng.input("sym%d.is_String" % i, eng.fresh_bool("str%d" % i)) if full else False
        s.is_empty = eng.input("sym%d.is_empty" % i, eng.fresh_bool("empty%d" % i)) if full else False
        if len(orders) > 2:
            p.has["output"] = z3.BoolVal(i == 1)
        if full:
            # String-typed variables other than constants and parameters are outside the statement
            eng.assume(z3.Implies(s.is_string, z3.Or(p.has["constant"], p.has["parameter"])))
        s.p = p
        syms.append(s)
    by_order = sorted(syms, key=lambda s: s.fields["order"])
    tree = VObj(VClass("Class"), {"name": "M", "type": "model", "symbols": VDict([(s.fields["name"], s) for s in syms]),
                                  "equations": VList(), "initial_equations": VList(), "statements": VList(),
                                  "initial_statements": VList()})
    pre_inputs = VObj(var_cls, {"symbol": MXSym("_pymoca_delay_0"), "prefixes": VList([])})
    model = VObj(VClass("Model"), {"inputs": VList([pre_inputs])})
    g = VObj(gcls, {"model": model, "entered_classes": VList([tree])})
    calls = []

    def to_variables(eng, args, kwargs):
        """contract of _ast_symbols_to_variables (its body: h_symbols_to_variables): one variable
        per non-empty symbol, in order; String-typed symbols give StringVariables"""
        lst = eng.iterate(args[1])
        diff = kwargs.get("differentiate", args[2] if len(args) > 2 else False)
        calls.append((list(lst), diff))
        out = []
        for s in lst:
            if eng.truth(s.is_empty):
                continue
            if eng.truth(s.is_string):
                v = VObj(svar_cls, {"name": s.fields["name"], "prefixes": s.fields["prefixes"]})
            else:
                nm = ("der(%s)" if diff else "%s") % s.fields["name"]
                v = VObj(var_cls, {"symbol": MXSym(nm), "prefixes": s.fields["prefixes"]})
            v.of, v.diff = s, diff
            out.append(v)
        return VList(out)
    eng.call_contracts["Generator._ast_symbols_to_variables"] = to_variables
    try:
        eng.call(VBound(f, g), [tree], {})
    except PyRaise as e:
        eng.prove("class.no_exception", False, exc=repr(e.exc))
        return
    eng.cover("class.done")
    lists = {"states": 3, "alg_states": 4, "parameters": 1, "constants": 0}
    got = {k: model.fields.get(k) for k in ("states", "der_states", "alg_states", "inputs", "parameters", "constants",
                                            "string_constants", "string_parameters", "outputs")}
    if not all(isinstance(v, VList) for v in got.values()):
        eng.prove("class.all_lists_assigned", False)
        return
    where = lambda s: [k for k, v in got.items() if k not in ("outputs", "der_states") and any(getattr(x, "of", None) is s for x in v.items)]
    for s in by_order:
        cat = category(s.p)
        w = where(s)
        # (P) exactly one category, by the statement's precedence; String constants/parameters in
        # the string lists; empty symbols nowhere
        eng.prove("class.each_variable_in_at_most_one_list", z3.BoolVal(len(w) <= 1))
        eng.prove("class.empty_symbols_dropped", z3.Implies(s.is_empty, z3.BoolVal(len(w) == 0)))
        exp = {0: "constants", 1: "parameters", 2: "inputs", 3: "states", 4: "alg_states"}
        for c, lst in exp.items():
            strlst = {"constants": "string_constants", "parameters": "string_parameters"}.get(lst)
            present = z3.BoolVal(w == [lst])
            cond = z3.And(cat == c, z3.Not(s.is_empty), z3.Not(s.is_string) if strlst or c >= 2 else True)
            if c >= 2:
                cond = z3.And(cat == c, z3.Not(s.is_empty), z3.Not(s.is_string))
            eng.prove("class.category_by_precedence", z3.Implies(cond, present))
            if strlst:
                eng.prove("class.string_lists", z3.Implies(z3.And(cat == c, z3.Not(s.is_empty), s.is_string), z3.BoolVal(w == [strlst])))
    # (P) declaration order within each category
    for k, v in got.items():
        if k in ("outputs",):
            continue
        idx = [by_order.index(x.of) for x in v.items if getattr(x, "of", None) is not None]
        eng.prove("class.declaration_order_kept", z3.BoolVal(idx == sorted(idx)))
    # (P) each state has exactly one derivative variable, aligned
    st, ds = got["states"].items, got["der_states"].items
    eng.prove("class.one_derivative_per_state", z3.BoolVal(len(st) == len(ds) and all(a.of is b.of and b.diff and not a.diff for a, b in zip(st, ds))))
    # (P) the delayed-state inputs registered earlier are kept in front
    eng.prove("class.existing_inputs_kept", z3.BoolVal(len(got["inputs"].items) >= 1 and got["inputs"].items[0] is pre_inputs))
    # (P) outputs: exactly the output-prefixed states then algebraic variables, in order
    want = []
    for v in list(st) + list(got["alg_states"].items):
        want.append((v.fields["symbol"].label, v.of.p.has["output"]))
    outs = got["outputs"].items
    pos = 0
    conds = []
    # outs must equal the sublist of names whose output flag is true (flags are decided on this path)
    decided = []
    for name, flag in want:
        decided.append((name, eng.decided(flag)))
    names_true = [n for n, t in decided if t is True]
    undecided = [n for n, t in decided if not isinstance(t, bool)]
    eng.prove("class.outputs_are_the_output_prefixed_states_and_algebraics", z3.BoolVal(not undecided and outs == names_true))
    eng.prove("class.left_the_class", z3.BoolVal(len(g.fields["entered_classes"].items) == 0))


def h_symbols_to_variables(eng):
    """body of _ast_symbols_to_variables, list structure only: one entry per non-empty symbol in
    order, for both differentiate settings; StringVariable iff the Python type is str"""
    modules(eng)
    gen_mod = eng.load_module(GEN)
    gcls = eng.module_global(gen_mod, "Generator")
    var_cls = eng.module_global(gen_mod, "Variable")
    svar_cls = eng.module_global(gen_mod, "StringVariable")
    var_cls.constructor = lambda eng, c, a, k: VObj(c, {"symbol": a[0], "python_type": a[1] if len(a) > 1 else None})
    svar_cls.constructor = lambda eng, c, a, k: VObj(c, {"name": a[0]})
    f = eng.find_function(GEN, "Generator._ast_symbols_to_variables")
    n = 1 + eng.choice(2)
    diff = bool(eng.choice(2))
    eng.input("differentiate", diff)
    sym_attrs = eng.iterate(eng.getattr(eng.module_global(eng.load_module("pymoca.ast"), "Symbol"), "ATTRIBUTES"))
    syms = []
    for i in range(n):
        s = VObj(VClass("Symbol"), {"name": "v%d" % i, "prefixes": VList([])})
        for a_ in sym_attrs:
            s.fields[a_] = None
        s.is_string = False if diff else eng.input("sym%d.is_String" % i, eng.fresh_bool("str%d" % i))
        s.is_empty = eng.input("sym%d.is_empty" % i, eng.fresh_bool("empty%d" % i))
        syms.append(s)
    str_cls, float_cls = eng.builtins["str"], eng.builtins["float"]

    class Sym(MXSym):
        def __init__(self, label, s):
            MXSym.__init__(self, label)
            self.s = s
            self.attrs = {"_modelica_shape": ((None,),)}

        def sym_getattr(self, eng, name):
            if name == "is_empty":
                return stub(lambda eng: self.s.is_empty)
            if name in self.attrs:
                return self.attrs[name]
            return MXSym.sym_getattr(self, eng, name)

        def sym_setattr(self, eng, name, value):
            self.attrs[name] = value
    mxs = {id(s): Sym(s.fields["name"], s) for s in syms}

    def get_mx(eng, args, kwargs):
        t = args[1]
        if t is None:
            return None
        if isinstance(t, VObj) and id(t) in mxs:
            return mxs[id(t)]
        raise Unsupported("get_mx of %r" % (t,))

    def get_derivative(eng, args, kwargs):
        m = args[1]
        d = Sym("der(%s)" % m.label, m.s)
        d.derivative_of = m
        return d

    def get_python_type(eng, args, kwargs):
        s = args[-1]
        return str_cls if eng.truth(s.is_string) else float_cls
    eng.call_contracts["Generator.get_mx"] = get_mx
    eng.call_contracts["Generator.get_derivative"] = get_derivative
    eng.call_contracts["Generator.get_python_type"] = get_python_type
    ast_mod = eng.load_module("pymoca.ast")
    g = VObj(gcls, {})
    try:
        res = eng.call(VBound(f, g), [VList(syms)], {"differentiate": diff})
    except PyRaise as e:
        eng.prove("vars.no_exception", False, exc=repr(e.exc))
        return
    eng.cover("vars.done")
    items = res.items if isinstance(res, VList) else None
    if items is None:
        eng.prove("vars.returns_a_list", False)
        return
    kept = [s for s in syms if eng.decided(s.is_empty) is not True]
    undecided = [s for s in syms if eng.decided(s.is_empty) is None]
    eng.prove("vars.one_entry_per_nonempty_symbol_in_order", z3.BoolVal(not undecided and len(items) == len(kept)))
    if len(items) != len(kept):
        return
    for s, v in zip(kept, items):
        isstr = eng.decided(s.is_string)
        if isstr is True:
            eng.prove("vars.string_symbols_become_string_variables", z3.BoolVal(v.cls is svar_cls and v.fields.get("name") == s.fields["name"]))
        else:
            symb = v.fields.get("symbol")
            ok = v.cls is var_cls and isinstance(symb, Sym) and symb.s is s and (hasattr(symb, "derivative_of") == diff)
            eng.prove("vars.variable_wraps_the_symbol_or_its_derivative", z3.BoolVal(bool(ok)))
        if not diff:
            eng.prove("vars.prefixes_attached", z3.BoolVal(v.fields.get("prefixes") is s.fields["prefixes"]))


def h_state_annotator(eng):
    """StateAnnotator: the counter follows the der nesting (enter +1 / exit -1 on `der`, untouched
    otherwise); a reference visited with counter > 0 that names a symbol gets `state` exactly once"""
    modules(eng)
    tm = eng.load_module(TREE)
    cls = eng.module_global(tm, "StateAnnotator")
    n = eng.input("in_der_before", eng.fresh_int("n"))
    eng.assume(n >= 0)
    p = PrefixList(eng, "x", inputs=True)
    sym = VObj(VClass("Symbol"), {"name": "x", "prefixes": p})
    known = bool(eng.choice(2))
    eng.input("reference_names_a_symbol", known)
    node = VObj(VClass("Class"), {"symbols": VDict([("x", sym)] if known else [])})
    a = VObj(cls, {"node": node, "in_der": n})
    which = ["enterExpression", "exitExpression", "exitComponentRef"][eng.choice(3)]
    eng.input("event", which)
    f = eng.find_function(TREE, "StateAnnotator." + which)
    if which != "exitComponentRef":
        op = eng.input("operator", eng.fresh_str("op"))
        tree = VObj(VClass("Expression"), {"operator": op, "operands": VList()})
        # the walker brackets enter/exit, so at an exit of `der` the counter is at least 1
        if which == "exitExpression":
            eng.assume(z3.Implies(op == z3.StringVal("der"), n >= 1))
        eng.call(VBound(f, a), [tree], {})
        eng.cover("annot.%s" % which)
        delta = z3.If(op == z3.StringVal("der"), 1, 0)
        got = a.fields["in_der"]
        if not (ops.is_int_sort(got) or (isinstance(got, int) and not isinstance(got, bool))):
            eng.prove("annot.counter_follows_der_nesting", False, note="counter is no longer an integer")
            return
        eng.prove("annot.counter_follows_der_nesting", ops.to_arith(got) == (n + delta if which == "enterExpression" else n - delta))
        eng.prove("annot.expression_events_do_not_mark", z3.BoolVal(p.appended == []))
    else:
        tree = VObj(VClass("ComponentRef"), {"name": "x", "child": VList()})
        eng.call(VBound(f, a), [tree], {})
        eng.cover("annot.exitComponentRef")
        got = a.fields["in_der"]
        eng.prove("annot.reference_leaves_counter", ops.eq_expr(eng, got, n))
        marked = z3.BoolVal(p.appended == ["state"])
        untouched = z3.BoolVal(p.appended == [])
        should = z3.And(n > 0, z3.BoolVal(known), z3.Not(p.has["state"]))
        eng.prove("annot.differentiated_symbol_marked_once", z3.If(should, marked, untouched))


def h_instances_own_their_prefix_lists(eng):
    """The two in-place writers of `prefixes` (StateAnnotator.exitComponentRef appends "state", flatten_symbols removes input/output)
    require that no two symbols share a prefixes list.  Producer obligation: the copies flattening makes of one declaration -- one
    deepcopy per instance, through whatever __deepcopy__ hooks the real ast classes define -- own their lists; then marking a
    differentiated variable of one instance leaves its sibling, and the parsed declaration, as they were."""
    from . import copy_model
    from .ast_common import AstFactory
    modules(eng)
    eng.ext_modules["copy"] = copy_model.module()
    A = AstFactory(eng)
    npre = eng.choice(3)
    pre = [[], ["input"], ["parameter", "output"]][npre]
    eng.input("declared_prefixes", pre)
    decl = A.new("Symbol", name="h", type=A.ref("Real"))
    decl.fields["prefixes"] = VList(list(pre))
    comp = A.new("Class", name="Tank", type="model")
    comp.fields["symbols"].keys.append("h")
    comp.fields["symbols"].vals.append(decl)
    # one deep copy of the class per instance (find_class(copy=True) / copy_including_children), as build_instance_tree does
    inst_a = copy_model.deepcopy(eng, comp)
    inst_b = copy_model.deepcopy(eng, comp)
    eng.cover("own.copied")
    sa, sb = inst_a.fields["symbols"].vals[0], inst_b.fields["symbols"].vals[0]
    lists = [decl.fields["prefixes"], sa.fields["prefixes"], sb.fields["prefixes"]]
    eng.prove("own.copies_of_a_declaration_have_their_own_prefix_lists",
              z3.BoolVal(all(isinstance(l, VList) for l in lists) and len({id(l) for l in lists}) == 3 and all(l.items == pre for l in lists)))
    dims = [decl.fields["dimensions"], sa.fields["dimensions"], sb.fields["dimensions"]]
    eng.prove("own.copies_of_a_declaration_have_their_own_dimension_lists", z3.BoolVal(len({id(l) for l in dims}) == 3))
    # the real annotator on instance a, inside der(): a.h becomes a state, b.h and the declaration do not
    tm = eng.load_module(TREE)
    ann = VObj(eng.module_global(tm, "StateAnnotator"), {"node": inst_a, "in_der": 1})
    eng.call(VBound(eng.find_function(TREE, "StateAnnotator.exitComponentRef"), ann), [A.ref("h")], {})
    eng.prove("own.marking_one_instance_marks_only_that_instance",
              z3.BoolVal(sa.fields["prefixes"].items == pre + ["state"] and sb.fields["prefixes"].items == pre and decl.fields["prefixes"].items == pre))


def h_exit_class_composed(eng):
    """exitClass with the REAL _ast_symbols_to_variables (and whatever helpers it uses) underneath: only get_mx / get_derivative /
    get_python_type are by contract.  get_derivative is the cache contract of the real function (one derivative symbol per variable
    name, created on demand, kept in self.derivative); at exitClass the cache holds the derivatives the equation walk happened to
    create -- an ARBITRARY subset of the variables (a state whose der() argument turned out not to depend on it has none yet).
    (P) every state gets exactly one derivative variable, aligned with it, whatever the cache held."""
    modules(eng)
    gen_mod = eng.load_module(GEN)
    gcls = eng.module_global(gen_mod, "Generator")
    var_cls = eng.module_global(gen_mod, "Variable")
    svar_cls = eng.module_global(gen_mod, "StringVariable")
    var_cls.constructor = lambda eng, c, a, k: VObj(c, {"symbol": a[0], "python_type": a[1] if len(a) > 1 else None})
    svar_cls.constructor = lambda eng, c, a, k: VObj(c, {"name": a[0]})
    f = eng.find_function(GEN, "Generator.exitClass")
    n = 1 + eng.choice(3)
    sym_attrs = eng.iterate(eng.getattr(eng.module_global(eng.load_module("pymoca.ast"), "Symbol"), "ATTRIBUTES"))
    syms = []
    for i in range(n):
        p = PrefixList(eng, "sym%d" % i)
        p.has["output"] = z3.BoolVal(False)
        if i > 0 and getattr(eng, "tier", "quick") != "thorough":
            # (path budget, quick tier) only the first symbol ranges over all categories; the others are state or algebraic
            for kw in ("constant", "parameter", "input"):
                p.has[kw] = z3.BoolVal(False)
        s = VObj(VClass("Symbol"), {"name": "v%d" % i, "prefixes": p, "order": i})
        for a_ in sym_attrs:
            s.fields[a_] = None
        s.is_empty = eng.input("sym%d.is_empty" % i, eng.fresh_bool("empty%d" % i)) if i == 0 else False
        s.p = p
        syms.append(s)
    float_cls = eng.builtins["float"]

    class Sym(MXSym):
        def __init__(self, label, s):
            MXSym.__init__(self, label)
            self.s = s
            self.attrs = {"_modelica_shape": ((None,),)}

        def sym_getattr(self, eng, name):
            if name == "is_empty":
                return stub(lambda eng: self.s.is_empty)
            if name in self.attrs:
                return self.attrs[name]
            return MXSym.sym_getattr(self, eng, name)

        def sym_setattr(self, eng, name, value):
            self.attrs[name] = value
    mxs = {id(s): Sym(s.fields["name"], s) for s in syms}
    cache = VDict()
    cached = []
    for i, s in enumerate(syms):
        if eng.choice(2):
            d = Sym("der(%s)" % s.fields["name"], s)
            d.derivative_of = mxs[id(s)]
            cache.keys.append(s.fields["name"])
            cache.vals.append(d)
            cached.append(i)
    eng.input("derivative_symbols_created_during_the_equation_walk", cached)
    tree = VObj(VClass("Class"), {"name": "M", "type": "model", "symbols": VDict([(s.fields["name"], s) for s in syms]),
                                  "equations": VList(), "initial_equations": VList(), "statements": VList(), "initial_statements": VList()})
    model = VObj(VClass("Model"), {"inputs": VList([])})
    g = VObj(gcls, {"model": model, "entered_classes": VList([tree]), "derivative": cache, "nodes": VDict([(tree, VDict())]), "for_loops": VList([]), "src": VDict()})

    def get_mx(eng, args, kwargs):
        t = args[1]
        if t is None:
            return None
        if isinstance(t, VObj) and id(t) in mxs:
            return mxs[id(t)]
        raise Unsupported("get_mx of %r" % (t,))

    def get_derivative(eng, args, kwargs):
        m = args[1]
        if m.label in cache.keys:
            return cache.vals[cache.keys.index(m.label)]
        d = Sym("der(%s)" % m.label, m.s)
        d.derivative_of = m
        cache.keys.append(m.label)
        cache.vals.append(d)
        return d
    eng.call_contracts["Generator.get_mx"] = get_mx
    eng.call_contracts["Generator.get_derivative"] = get_derivative
    eng.call_contracts["Generator.get_python_type"] = lambda eng, args, kwargs: float_cls
    try:
        eng.call(VBound(f, g), [tree], {})
    except PyRaise as e:
        eng.prove("composed.no_exception", False, exc=repr(e.exc))
        return
    eng.cover("composed.done")
    st, ds = model.fields.get("states"), model.fields.get("der_states")
    if not (isinstance(st, VList) and isinstance(ds, VList)):
        eng.prove("composed.states_and_derivatives_are_lists", False)
        return
    is_state = [z3.And(category(s.p) == 3, z3.Not(ops.to_z3(s.is_empty))) for s in syms]
    got_states = [v.fields.get("symbol") for v in st.items]
    # (P) the states are exactly the non-empty symbols of category state, in declaration order ...
    ok_states = all(isinstance(x, Sym) and not hasattr(x, "derivative_of") for x in got_states)
    eng.prove("composed.states_are_the_state_symbols_in_order", z3.And(z3.BoolVal(bool(ok_states)), *[
        c == z3.BoolVal(any(x.s is s for x in got_states if isinstance(x, Sym))) for c, s in zip(is_state, syms)]))
    # ... and each has exactly one derivative variable at the same position, whether or not its derivative symbol existed before
    got_ders = [v.fields.get("symbol") for v in ds.items]
    ok = len(got_ders) == len(got_states) and all(isinstance(d, Sym) and getattr(d, "derivative_of", None) is x for d, x in zip(got_ders, got_states))
    eng.prove("composed.one_derivative_variable_per_state_aligned_with_it", z3.BoolVal(bool(ok)), states=[getattr(x, "label", "?") for x in got_states],
              derivatives=[getattr(d, "label", "?") for d in got_ders])


def h_get_derivative(eng, size=(3, 1), mshape=((3,),)):
    """Generator.get_derivative, symbol cases: the derivative of a variable is ONE symbol per variable name, named der(<name>), of the
    variable's size and Modelica shape, kept in self.derivative and registered among the class's nodes; the derivative of an indexed
    variable x[a:b:s] is the same slice of der(x); a constant has derivative 0.  (This is what makes der_states line up with states.)"""
    modules(eng)
    gen_mod = eng.load_module(GEN)
    from .gen_common import new_generator
    cas = eng.ext_modules["casadi"]
    cas.attrs["OP_GETNONZEROS"] = 77
    made = []

    class DS(MXSym):
        def __init__(self, label, kind="sym", dep=None, info=None, size=(3, 1)):
            MXSym.__init__(self, label)
            self.kind, self.dep_, self.info_, self.size_ = kind, dep, info, size
            self.attrs = {}

        def sym_getattr(self, eng, name):
            if name == "is_constant":
                return stub(lambda eng: self.kind == "const")
            if name == "is_symbolic":
                return stub(lambda eng: self.kind == "sym")
            if name == "is_op":
                return stub(lambda eng, code: self.kind == "getnz" and code == 77)
            if name == "dep":
                return stub(lambda eng, *a: self.dep_)
            if name == "info":
                return stub(lambda eng: VDict([("slice", VDict(list(self.info_.items())))]))
            if name == "size":
                return stub(lambda eng: self.size_)
            if name in ("nnz", "numel"):      # dense symbols
                return stub(lambda eng: self.size_[0] * self.size_[1])
            if name in ("size1", "size2"):
                return stub(lambda eng: self.size_[int(name[-1]) - 1])
            if name == "shape":
                return self.size_
            if name in self.attrs:
                return self.attrs[name]
            return MXSym.sym_getattr(self, eng, name)

        def sym_setattr(self, eng, name, value):
            self.attrs[name] = value

        def sym_getitem(self, eng, key):
            return DS("%s[..]" % self.label, "slice-of", dep=self, info=key)

        def sym_eq(self, eng, other):
            return self is other
    mx_cls = cas.attrs["MX"]
    mx_cls.constructor = lambda eng, c, a, k: a[0]

    def new_mx(eng, args, kw):
        # _new_mx(name, *shape): no shape = scalar, one number n = an n x 1 column, a pair or two numbers = rows x columns
        shp = tuple(args[1:])
        if len(shp) == 1 and isinstance(shp[0], (tuple, list)):
            shp = tuple(shp[0])
        shp = shp + (1,) * (2 - len(shp)) if len(shp) < 2 else shp
        d = DS(args[0], size=shp)
        made.append(d)
        return d
    eng.call_contracts["_new_mx"] = new_mx
    case = ["constant", "symbol", "indexed"][eng.choice(3)]
    cached_before = bool(eng.choice(2))
    eng.input("argument", case)
    eng.input("derivative_symbol_exists_already", cached_before)
    klass = VObj(VClass("Class"), {"name": "M"})
    x = DS("x", size=size)
    x.attrs["_modelica_shape"] = mshape
    nodes = VDict([(klass, VDict([("x", x)]))])
    derivative = VDict()
    pre = None
    if cached_before:
        pre = DS("der(x)", size=size)
        derivative.keys.append("x")
        derivative.vals.append(pre)
    g = new_generator(eng, gen_mod, {"derivative": derivative, "nodes": nodes, "entered_classes": VList([klass]), "for_loops": VList([]), "src": VDict()})
    f = eng.find_function(GEN, "Generator.get_derivative")
    arg = {"constant": DS("5", "const"), "symbol": x, "indexed": DS("x[1:3]", "getnz", dep=x, info={"start": 1, "stop": 3, "step": 1})}[case]
    r1 = eng.call(VBound(f, g), [arg], {})
    r2 = eng.call(VBound(f, g), [arg], {})
    eng.cover("der." + case)
    if case == "constant":
        eng.prove("der.constant_has_derivative_zero", z3.BoolVal(r1 == 0 and r2 == 0 and not made and derivative.keys == (["x"] if cached_before else [])))
        return
    dsym = derivative.vals[derivative.keys.index("x")] if "x" in derivative.keys else None
    eng.prove("der.one_derivative_symbol_per_variable", z3.BoolVal(dsym is not None and derivative.keys == ["x"] and len(made) == (0 if cached_before else 1) and
                                                                (dsym is pre if cached_before else dsym is made[0])))
    if not cached_before and dsym is not None:
        eng.prove("der.new_symbol_is_named_sized_and_shaped_after_its_variable", z3.BoolVal(dsym.label == "der(x)" and tuple(dsym.size_) == tuple(size) and dsym.attrs.get("_modelica_shape") == mshape),
                  got=[dsym.label, list(dsym.size_)])
        kn = nodes.vals[0]
        eng.prove("der.new_symbol_registered_in_the_class", z3.BoolVal("der(x)" in kn.keys and kn.vals[kn.keys.index("der(x)")] is dsym))
    if case == "symbol":
        eng.prove("der.derivative_of_a_variable_is_its_derivative_symbol", z3.BoolVal(r1 is dsym and r2 is dsym))
    else:
        ok = all(isinstance(r, DS) and r.kind == "slice-of" and r.dep_ is dsym and isinstance(r.info_, VSlice) and
                 (r.info_.start, r.info_.stop, r.info_.step) == (1, 3, 1) for r in (r1, r2))
        eng.prove("der.derivative_of_an_indexed_variable_is_the_same_slice_of_its_derivative_symbol", z3.BoolVal(bool(ok)))


# fields a walker may leave out without hiding a differentiated variable: links out of the subtree and
# documentation; every other field of every node class can hold (part of) an equation, statement or value
WALK_MAY_SKIP = ("parent", "root", "scope", "__deepcopy__", "comment", "annotation")


class Events(Ext):
    """listener / recorder: every enterX / exitX it is asked for exists and is logged"""

    def __init__(self, log, only=None):
        self.log, self.only = log, only

    def sym_getattr(self, eng, name):
        if (name.startswith("enter") or name.startswith("exit")) and (self.only is None or name in self.only):
            def cb(eng, tree, _n=name):
                self.log.append((_n, tree))
            return stub(cb)
        raise PyRaise(eng.make_exc("AttributeError", name))


def _annotate_walker(eng, node):
    """the real annotate_states(node) with every `walk` defined in pymoca.tree intercepted: returns the
    (walker, listener, root) triples it starts"""
    import ast as pyast
    tm = eng.load_module(TREE)
    started = []
    names = [n for n, st in list(tm.lazy.items()) if isinstance(st, pyast.ClassDef)] + \
            [n for n, v in tm.globals.items() if isinstance(v, VClass) and v.node is not None]
    for n in names:
        st = tm.lazy.get(n) or tm.globals[n].node
        if any(isinstance(b, pyast.FunctionDef) and b.name == "walk" for b in st.body):
            def rec(eng, args, kwargs):
                started.append(tuple(args[:3]))
                return None
            eng.call_contracts["%s.walk" % n] = rec
    eng.call(eng.find_function(TREE, "annotate_states"), [node], {})
    for k in [k for k in eng.call_contracts if k.endswith(".walk")]:
        del eng.call_contracts[k]
    return started


def h_annotate_states_delivery(eng):
    """annotate_states reaches every expression and reference of the class: (1) its real body starts one walk of the
    whole node with a StateAnnotator for that node; (2) the walker class it uses skips no field other than links out of
    the subtree / documentation (skip_child, for every node class of pymoca.ast and EVERY field name); (3) walk's real
    body brackets the children between the enter and the exit callback and hands every non-skipped field, in order, to
    handle_walk; (4) handle_walk's real body walks a node and recurses into every element of a list and every value of a
    dict.  (1)-(4) lift the per-event contracts of StateAnnotator to the whole tree by induction on its height."""
    from .ast_common import AstFactory
    import ast as pyast
    modules(eng)
    A = AstFactory(eng)
    tm = eng.load_module(TREE)
    part = ["start", "skip", "walk", "handle"][eng.choice(4)]
    eng.input("part", part)
    root = A.new("Class", name="M")
    started = _annotate_walker(eng, root)
    ok = len(started) == 1 and len(started[0]) == 3 and isinstance(started[0][0], VObj) and isinstance(started[0][1], VObj) \
        and started[0][1].cls.name == "StateAnnotator" and started[0][1].fields.get("node") is root and started[0][2] is root
    if part == "start":
        eng.cover("deliver.start")
        eng.prove("deliver.annotate_states_starts_one_walk_of_the_whole_node", z3.BoolVal(bool(ok)))
        if ok:
            eng.prove("deliver.annotator_starts_outside_der", ops.eq_expr(eng, started[0][1].fields.get("in_der"), 0))
        return
    if not ok:
        return
    w = started[0][0]
    am = A.mod
    node_classes = sorted(n for n, st in list(am.lazy.items()) + [(k, v.node) for k, v in am.globals.items() if isinstance(v, VClass) and v.node is not None]
                          if isinstance(st, pyast.ClassDef))
    node_cls = eng.module_global(am, "Node")
    node_classes = [n for n in node_classes if eng.module_global(am, n).is_subclass_of(node_cls) and n != "Node"]
    if part == "skip":
        k = eng.choice(len(node_classes))
        eng.input("node_class", node_classes[k])
        try:
            node = A.new(node_classes[k])
        except (PyRaise, Unsupported):
            node = VObj(eng.module_global(am, node_classes[k]), {})
        name = eng.input("child_name", eng.fresh_str("child_name"))
        r = eng.call(eng.getattr(w, "skip_child", None, None), [node, name], {})
        eng.cover("deliver.skip")
        skipped = ops.truth(eng, r) if not isinstance(r, bool) else z3.BoolVal(r)
        eng.prove("deliver.walker_skips_only_links_and_documentation",
                  z3.Implies(skipped, z3.Or([name == z3.StringVal(x) for x in WALK_MAY_SKIP])), node_class=node_classes[k])
        return
    log = []
    lst = Events(log)
    if part == "walk":
        # a node with an arbitrary class name and four fields of every kind handle_walk distinguishes
        shape = eng.choice(2)
        kids = [A.ref("a"), VList([A.ref("b")]), VDict([("k", A.ref("c"))]), "text"]
        node = A.expr("der", kids[0]) if shape == 0 else A.new("Symbol", name="x")
        fields = dict(node.fields)
        def hw(eng, args, kwargs):
            log.append(("handle_walk", args[-1], args[-2]))
            return None
        for n in ["TreeWalker"] + [c.name for c in w.cls.mro() if c.node is not None]:
            eng.call_contracts["%s.handle_walk" % n] = hw
        eng.call(eng.getattr(w, "walk", None, None), [lst, node], {})
        for k in [k for k in eng.call_contracts if k.endswith(".handle_walk")]:
            del eng.call_contracts[k]
        eng.cover("deliver.walk")
        cname = node.cls.name
        want_fields = [f for f in fields if f not in WALK_MAY_SKIP]
        got_mid = [e for e in log if e[0] == "handle_walk"]
        first = [e for e in log[:log.index(got_mid[0])]] if got_mid else log
        last = [e for e in log[log.index(got_mid[-1]) + 1:]] if got_mid else []
        eng.prove("deliver.enter_callback_before_the_children", z3.BoolVal(("enter" + cname, node) in first and not any(e[0].startswith("exit") for e in first)))
        eng.prove("deliver.exit_callback_after_the_children", z3.BoolVal(("exit" + cname, node) in last and not any(e[0].startswith("enter") and e[0] != "enterEvery" for e in last)))
        handed = [e[1] for e in got_mid]
        need = [fields[f] for f in want_fields]
        pos, okk = 0, True
        for v in need:
            while pos < len(handed) and handed[pos] is not v:
                pos += 1
            if pos == len(handed):
                okk = False
                break
            pos += 1
        eng.prove("deliver.every_field_is_handed_to_handle_walk_in_order", z3.BoolVal(okk), fields=want_fields)
        eng.prove("deliver.children_walked_with_the_same_listener", z3.BoolVal(all(e[2] is lst for e in got_mid)))
        eng.prove("deliver.each_callback_once", z3.BoolVal(sum(1 for e in log if e[0] == "enter" + cname) == 1 and sum(1 for e in log if e[0] == "exit" + cname) == 1))
        return
    # handle_walk
    kind = ["node", "list", "dict", "other"][eng.choice(4)]
    eng.input("value_kind", kind)
    a, b = A.ref("a"), A.ref("b")
    value = {"node": a, "list": VList([a, "s", b]), "dict": VDict([("p", a), ("q", b)]), "other": "text"}[kind]
    rec_calls = []
    f_hw = eng.getattr(w, "handle_walk", None, None)
    def wk(eng, args, kwargs):
        rec_calls.append(("walk", args[-1], args[-2]))
        return None
    def hw2(eng, args, kwargs):
        if len(rec_calls) >= 0 and args[-1] is value:
            return eng.call_function(f_hw.func if isinstance(f_hw, VBound) else f_hw, args, kwargs, bypass_contract=True)
        rec_calls.append(("handle_walk", args[-1], args[-2]))
        return None
    for n in ["TreeWalker"] + [c.name for c in w.cls.mro() if c.node is not None]:
        eng.call_contracts["%s.walk" % n] = wk
        eng.call_contracts["%s.handle_walk" % n] = hw2
    eng.call(f_hw, [lst, value], {})
    for k in [k for k in eng.call_contracts if k.endswith(".handle_walk") or k.endswith(".walk")]:
        del eng.call_contracts[k]
    eng.cover("deliver.handle")
    want = {"node": [("walk", a)], "list": [("handle_walk", a), ("handle_walk", "s"), ("handle_walk", b)],
            "dict": [("handle_walk", a), ("handle_walk", b)], "other": []}[kind]
    got = [(c[0], c[1]) for c in rec_calls]
    same = len(got) == len(want) and all(g[0] == x[0] and (g[1] is x[1] or (isinstance(x[1], str) and g[1] == x[1])) for g, x in zip(got, want))
    eng.prove("deliver.handle_walk_reaches_every_node_element_and_value", z3.BoolVal(bool(same)), got=[(c[0], repr(c[1])[:30]) for c in rec_calls])
    eng.prove("deliver.recursion_keeps_the_listener", z3.BoolVal(all(c[2] is lst for c in rec_calls)))


def h_flattener_strips_nested_causality(eng):
    """tree.flatten_symbols: `input` / `output` survive on top-level variables only, whatever the kind of the variable's type
    (elementary, or a type derived from one); every other prefix is kept.  Generator.exitClass takes "top-level input" from these
    prefix lists.  (C07's contract of the flattening step.)"""
    from contracts import C07
    C07.h_flatten_symbols_step(eng)


def h_symbols_do_not_touch_the_derivative_table(eng):
    """der_states lines up with states because the derivative table holds exactly what get_derivative put there for THIS class's
    variables.  get_symbol also runs for the symbols of called functions (same generator, bare names): it must leave the table alone.
    (C18's contract of Generator.get_symbol with this frame condition.)"""
    from contracts import C18
    try:
        C18.h_get_symbol(eng)
    finally:
        # that harness replaces pymoca.tree by a stub; the other harnesses of this module execute the real one
        for k_ in ("pymoca.tree", "casadi", "numpy"):
            eng.ext_modules.pop(k_, None)


HARNESSES = [("Generator.get_symbol leaves the derivative table alone", h_symbols_do_not_touch_the_derivative_table), ("tree.flatten_symbols: input/output only at top level", h_flattener_strips_nested_causality), ("Generator.exitClass", h_exit_class), ("Generator._ast_symbols_to_variables", h_symbols_to_variables),
             ("StateAnnotator", h_state_annotator), ("instances own their prefix lists (deepcopy of ast.Symbol, then the real annotator)", h_instances_own_their_prefix_lists),
             ("Generator.exitClass over the real _ast_symbols_to_variables, arbitrary derivative cache", h_exit_class_composed),
             ("Generator.get_derivative: constants, variables, indexed variables", h_get_derivative),
             ("annotate_states / TreeWalker.walk / handle_walk / skip_child: every node is delivered, bracketed", h_annotate_states_delivery)]
EXPECTED_COVER = {"symbol.created", "symbol.rejected", "step.nested", "step.top", "class.done", "vars.done", "annot.enterExpression", "annot.exitExpression", "annot.exitComponentRef", "own.copied", "composed.done", "der.constant", "der.symbol", "der.indexed",
                  "deliver.start", "deliver.skip", "deliver.walk", "deliver.handle"}
BOUNDED = True
LEVEL = "proof"
TRUSTED = ["pyvc VC generator", "z3 5.1.0", "sorted() is a stable permutation ordered by the key",
           "the lift from the per-node walker obligations (deliver.*: one walk of the whole node, no field skipped but links/documentation, enter before and exit after the children, handle_walk reaches every node / list element / dict value) and the per-event annotator obligations to 'counter = number of enclosing der at every node of the tree' is an induction on tree height done by hand",
           "get_mx / get_derivative / get_python_type / is_empty (CasADi side) as opaque functions of the symbol"]
ASSUMPTIONS = [
    "1-3 symbols per class (enumerated), dictionary order versus declaration order enumerated; prefix membership symbolic for every symbol; String-ness and emptiness symbolic for the first symbol of 1- and 2-symbol classes; output flags fixed in the 3-symbol shapes",
    "prefix lists are judged as given to the generator: that `parameter input Real a` is parsed into two prefixes is C04's subject",
    "attribute copying inside _ast_symbols_to_variables is C13's subject; here all attributes are absent",
]
EXPLANATION = "Classification precedence, order, der alignment, outputs and state annotation as per-function contracts."
MANIFEST = {
    "category": "proof",
    "text": "exitClass is executed symbolically for arbitrary prefix combinations, String-ness and emptiness of 1-3 symbols: each variable lands in exactly the list the statement's precedence gives (String constants/parameters in the string lists), declaration order is kept, der_states is aligned one-to-one with states, outputs are the output-prefixed states then algebraics. _ast_symbols_to_variables is verified for its list structure and StateAnnotator's three callbacks for the der-nesting counter and single marking; the copies flattening makes of one declaration (deepcopy through the real ast classes' hooks) own their prefix lists, so marking one instance's variable as a state leaves its siblings and the declaration alone. A bounded replay generates real models over prefix/type/der combinations. The flattening step of flatten_symbols (C07's contract: input/output survive only at top level, for every kind of type) is discharged here too. Generator.get_symbol leaves the generator-wide derivative table alone (frame condition, C18's harness).",
    "note": "Symbol counts enumerated up to 3; sorted() and the CasADi-side helpers are assumed; the walker's delivery (annotate_states, walk, handle_walk, skip_child for every node class and every field name) is under contract, its lift to whole trees is a hand induction; parsing of multi-keyword prefixes belongs to C04.",
    "technique": "contract-based deductive verification: whole-function symbolic execution with symbolic prefix membership, callee contracts, z3",
}
