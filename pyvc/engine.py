"""pyvc engine: symbolic execution of a Python subset over the *real* repo source (read with ast
on every run), with re-execution forking, contracts supplied as stubs / loop specifications, and
obligations collected for discharge by an SMT solver.

See DESIGN.md section 2.  Runs under python3-vt (z3 wheel)."""
import ast
import hashlib
import os
import time

import z3

from .interp import Frame, Interp, _Break, _Continue, _Return
from .values import (Ext, Infeasible, NoOp, PathEnd, PyRaise, Unsupported, VBound, VClass, VDict,
                     VFunc, VList, VModule, VObj, VSet, VSlice, is_sym, stub)

REPO = os.environ.get("PYVC_REPO", "/repo")


class Obligation:
    def __init__(self, name, assumptions, claim, path_id, info=None, inputs=None):
        self.name = name
        self.assumptions = assumptions
        self.claim = claim
        self.path_id = path_id
        self.info = info or {}
        self.inputs = inputs or {}
        self.result = None  # filled by solve.discharge


class LoopSpec:
    """Contract of one `for` loop over an abstract collection.

    invariant(eng, frame, done) -> z3 Bool, `done` being the ghost set of elements already
    processed; havoc(eng, frame) replaces everything the body may write by fresh values;
    frame_fields(eng, frame) -> list of (label, z3 term) of ALL symbolic state the body could
    write: those whose term is unchanged by havoc() must also be unchanged by the body (proved),
    so a body that starts writing something else is noticed instead of being silently ignored.
    The iterable implements loop_snapshot / ghost_empty / ghost_fresh / pick / ghost_add /
    ghost_is_all / unmodified."""

    def __init__(self, name, invariant, havoc, frame_fields=None, prepare=None, locals_written=()):
        self.name = name
        self.invariant = invariant
        self.havoc = havoc
        self.frame_fields = frame_fields
        self.prepare = prepare
        self.locals_written = set(locals_written)

    def run_for(self, eng, st, frame, it):
        import ast as _ast
        if st.orelse:
            raise Unsupported("for/else under a loop contract")
        targets = {n.id for n in _ast.walk(st.target) if isinstance(n, _ast.Name)}
        written = set()
        for b in st.body:
            for n in _ast.walk(b):
                if isinstance(n, _ast.Name) and isinstance(n.ctx, _ast.Store):
                    written.add(n.id)
        extra = written - targets - self.locals_written
        if extra:
            raise Unsupported("loop %s: body assigns locals %s not covered by the loop contract"
                              % (self.name, sorted(extra)))
        frame.cur_iter = it
        if self.prepare:
            self.prepare(eng, frame)
        if not hasattr(it, "loop_snapshot"):
            raise Unsupported("loop %s: iterable %r has no loop protocol" % (self.name, type(it).__name__))
        snap = it.loop_snapshot(eng)
        eng.prove(self.name + ".init", self.invariant(eng, frame, snap.ghost_empty(eng)))
        k = eng.choice(2)
        before = dict(self.frame_fields(eng, frame)) if self.frame_fields else {}
        self.havoc(eng, frame)
        after_havoc = dict(self.frame_fields(eng, frame)) if self.frame_fields else {}
        stable = [l for l in before if before[l] is after_havoc[l] or before[l].eq(after_havoc[l])]
        done = snap.ghost_fresh(eng)
        eng.assume(self.invariant(eng, frame, done))
        if k == 0:
            elem = snap.pick(eng, done)
            eng.assign(st.target, elem, frame)
            try:
                eng.ex_block(st.body, frame)
            except _Continue:
                pass
            except _Break:
                raise Unsupported("break inside a contracted loop")
            eng.prove(self.name + ".iter_unmodified", snap.unmodified(eng))
            if self.frame_fields:
                now = dict(self.frame_fields(eng, frame))
                for l in stable:
                    if not now[l].eq(before[l]):
                        eng.prove(self.name + ".frame." + l, now[l] == before[l])
            eng.prove(self.name + ".preserve", self.invariant(eng, frame, snap.ghost_add(eng, done, elem)))
            raise PathEnd()
        eng.assume(snap.ghost_is_all(eng, done))
        eng.loops_exited.append(self.name)


# ---------------------------------------------------------------------------------------------
# built-in exception hierarchy (names only)
_EXC_TREE = {
    "BaseException": None, "Exception": "BaseException", "SystemExit": "BaseException",
    "KeyboardInterrupt": "BaseException",
    "ArithmeticError": "Exception", "ZeroDivisionError": "ArithmeticError",
    "AssertionError": "Exception", "AttributeError": "Exception", "EOFError": "Exception",
    "ImportError": "Exception", "ModuleNotFoundError": "ImportError",
    "LookupError": "Exception", "IndexError": "LookupError", "KeyError": "LookupError",
    "MemoryError": "Exception", "NameError": "Exception", "OSError": "Exception",
    "FileNotFoundError": "OSError", "PermissionError": "OSError", "IOError": "Exception",
    "RuntimeError": "Exception", "NotImplementedError": "RuntimeError",
    "RecursionError": "RuntimeError", "StopIteration": "Exception", "TypeError": "Exception",
    "ValueError": "Exception", "UnicodeDecodeError": "UnicodeError", "OverflowError": "ArithmeticError", "Warning": "Exception",
    "UserWarning": "Warning",
    # pickle's own hierarchy (pickle.PickleError <- PicklingError, UnpicklingError)
    "PickleError": "Exception", "PicklingError": "PickleError", "UnpicklingError": "PickleError",
    "FileExistsError": "OSError", "IsADirectoryError": "OSError", "NotADirectoryError": "OSError", "TimeoutError": "OSError",
    "UnicodeError": "ValueError", "UnicodeEncodeError": "UnicodeError", "BufferError": "Exception", "FloatingPointError": "ArithmeticError",
}
EXC = {}
for _n in _EXC_TREE:
    EXC[_n] = VClass(_n)
for _n, _b in _EXC_TREE.items():
    if _b:
        EXC[_n].bases = [EXC[_b]]
for _t in ("int", "bool", "float", "str", "list", "tuple", "dict", "set", "slice", "object",
           "NoneType", "frozenset", "bytes", "type"):
    EXC[_t] = VClass(_t)
EXC["bool"].bases = [EXC["int"]]


def exc_class(name, base="Exception"):
    if name not in EXC:
        EXC[name] = VClass(name, [EXC[base]])
    return EXC[name]


def make_exc(name, *args):
    return VObj(exc_class(name), {"args": tuple(args)})


# ---------------------------------------------------------------------------------------------
class SourceIndex:
    """Reads repo modules with ast on every run and records what was extracted."""

    def __init__(self, repo=REPO):
        self.repo = repo
        self.files = {}
        self.extracted = {}

    def module_ast(self, relpath):
        if relpath not in self.files:
            path = os.path.join(self.repo, relpath)
            text = open(path).read()
            self.files[relpath] = (ast.parse(text), text)
        return self.files[relpath][0]

    def record(self, relpath, node, qualname):
        text = self.files[relpath][1]
        lo, hi = (1, len(text.splitlines())) if isinstance(node, ast.Module) else (node.lineno, node.end_lineno)
        seg = "\n".join(text.splitlines()[lo - 1:hi])
        self.extracted[qualname] = {
            "file": relpath, "lines": [lo, hi],
            "sha256": hashlib.sha256(seg.encode()).hexdigest()}


class Engine(Interp):
    def __init__(self, source=None, ext_modules=None, feas_timeout_ms=2000, max_paths=4000,
                 max_depth=40):
        self.source = source or SourceIndex()
        self.ext_modules = ext_modules or {}
        self.modules = {}
        self.loop_specs = {}      # (func qualname, ordinal) -> LoopSpec
        self.call_contracts = {}  # func qualname -> stub(eng, args, kwargs)
        self.obligations = []
        self.undecided = []       # (harness, path_id, reason)
        self.abstractions = set()
        self.paths_explored = 0
        self.covered = set()      # names of cover points reached on a feasible path
        self.feas_timeout_ms = feas_timeout_ms
        self.max_paths = max_paths
        self.max_depth = max_depth
        self.max_unroll = 64
        from .builtins import make_builtins
        self.builtins = make_builtins()
        self.qf_feasibility_only = True
        self.harness_name = None
        self.named_inputs = {}
        self._reset_path([])

    # ---------------------------------------------------------------- path management
    def _reset_path(self, prefix):
        self.prefix = list(prefix)
        self.trail = []
        self.pc = []
        self.solver = z3.Solver()
        self.solver.set("timeout", self.feas_timeout_ms)
        self._fresh = 0
        self.depth = 0
        self.named_inputs = {}
        self.pending = []
        self.loops_exited = []
        self.modules = {}   # module globals are per path (stubs installed by a harness are per path)

    def explore(self, harness, name):
        """Run `harness(eng)` once per feasible path."""
        self.harness_name = name
        stack = [[]]
        n = 0
        while stack:
            prefix = stack.pop()
            self._reset_path(prefix)
            n += 1
            self.path_id = "%s#%d" % (name, n)
            if n > self.max_paths:
                self.undecided.append((name, self.path_id, "path budget exceeded"))
                break
            try:
                harness(self)
            except PathEnd:
                pass
            except Unsupported as u:
                self.undecided.append((name, self.path_id, "outside subset: %s" % u))
            except PyRaise as r:
                self.undecided.append((name, self.path_id, "uncaught in harness: %r" % (r.exc,)))
            except RecursionError:
                self.undecided.append((name, self.path_id, "recursion limit"))
            for alt in self.pending:
                stack.append(alt)
            self.paths_explored += 1
        return n

    def fresh(self, base, sort):
        self._fresh += 1
        return z3.Const("%s!%d" % (base, self._fresh), sort)

    def fresh_int(self, base="i"):
        return self.fresh(base, z3.IntSort())

    def fresh_bool(self, base="b"):
        return self.fresh(base, z3.BoolSort())

    def fresh_str(self, base="s"):
        return self.fresh(base, z3.StringSort())

    def fresh_real(self, base="r"):
        return self.fresh(base, z3.RealSort())

    def input(self, name, value):
        """Register a named symbolic input (reported in counter-models)."""
        self.named_inputs[name] = value
        return value

    def _is_qf(self, e):
        return not _has_quantifier(e)

    def assume(self, cond):
        if cond is True:
            return
        if cond is False:
            raise Infeasible()
        cond = z3.simplify(cond)
        if z3.is_true(cond):
            return
        if z3.is_false(cond):
            raise Infeasible()
        self.pc.append(cond)
        if not self.qf_feasibility_only or self._is_qf(cond):
            self.solver.add(cond)

    def feasible(self, cond=None):
        if cond is None:
            r = self.solver.check()
        else:
            r = self.solver.check(cond)
        return r != z3.unsat

    def choice(self, n, feas=None):
        """n-way decision point.  feas: optional list of z3 conditions, one per alternative, used
        to prune infeasible alternatives when the decision is first met."""
        i = len(self.trail)
        if i < len(self.prefix):
            k = self.prefix[i]
            self.trail.append(k)
            return k
        alts = []
        for k in range(n):
            if feas is None or self.feasible(feas[k]):
                alts.append(k)
        if not alts:
            raise Infeasible()
        k0 = alts[0]
        for k in alts[1:]:
            self.pending.append(self.trail + [k])
        self.trail.append(k0)
        return k0

    def branch(self, cond):
        """Decide a symbolic Boolean; forks the path."""
        if isinstance(cond, bool):
            return cond
        cond = z3.simplify(cond)
        if z3.is_true(cond):
            return True
        if z3.is_false(cond):
            return False
        k = self.choice(2, [cond, z3.Not(cond)])
        if k == 0:
            self.assume(cond)
            return True
        self.assume(z3.Not(cond))
        return False

    def decided(self, cond):
        """True / False if the path condition already decides `cond`, else None (no forking)"""
        if isinstance(cond, bool):
            return cond
        cond = z3.simplify(cond)
        if z3.is_true(cond):
            return True
        if z3.is_false(cond):
            return False
        if self.solver.check(z3.Not(cond)) == z3.unsat:
            return True
        if self.solver.check(cond) == z3.unsat:
            return False
        return None

    def prove(self, name, claim, context=None, **info):
        """Record an obligation.  `context`: prove from this explicit list of already-established
        facts instead of the whole path condition (a cut: keeps the query small; sound because
        every fact in it was itself assumed by contract or proved earlier on this path)."""
        if isinstance(claim, bool):
            claim = z3.BoolVal(claim)
        ob = Obligation(name, list(self.pc) if context is None else list(context), claim, self.path_id,
                        info, dict(self.named_inputs))
        self.obligations.append(ob)
        # continue under the claim (standard assert-then-assume), so one failure does not cascade;
        # a claim that is plainly false on this path is recorded and NOT assumed, so that the
        # obligations that follow it are still generated (and named in the report)
        try:
            self.assume(claim)
        except Infeasible:
            pass

    def cover(self, name):
        self.covered.add(name)

    def abstraction(self, text):
        self.abstractions.add(text)

    def unsupported(self, msg):
        raise Unsupported(msg)


def _has_quantifier(e):
    seen = set()
    stack = [e]
    while stack:
        x = stack.pop()
        if x.get_id() in seen:
            continue
        seen.add(x.get_id())
        if z3.is_quantifier(x):
            return True
        stack.extend(x.children())
    return False
