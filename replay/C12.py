"""C12 replay / bounded stand-in: all 8 combinations of (unroll_loops, inline_functions, expand_mx) on real models
with for-loops (incl. several index expressions of one array), user functions and delays: variables, order,
metadata and the four output functions must agree numerically."""
import itertools
import json
import sys

import numpy as np

MODELS = {
    "Loops": """function Flux input Real a; input Real b; output Real q; algorithm q := 2 * (a - b) + a * b; end Flux;
model Loops
  parameter Real k = 1.5;
  parameter Integer n = 4;
  Real T[4](each start = 1.0, each max = 10 * k);
  Real q[3];
  Real s[3];
  input Real u;
  output Real y;
equation
  der(T[1]) = u - T[1];
  for i in 2:4 loop
    der(T[i]) = k * (T[i - 1] - T[i]);
  end for;
  for i in 1:3 loop
    q[i] = Flux(T[i], T[i + 1]);
    s[i] = k * (T[i + 1] - T[i]) + q[i];
  end for;
  y = sum(q) + s[2];
end Loops;""",
    "Delay": """model Delay
  parameter Real p = 2.0;
  Real x(start = 1.0);
  Real z[2];
  Real d[2];
  input Real u(fixed = true);
equation
  der(x) = -x + u;
  for i in 1:2 loop
    z[i] = x * i + p;
    d[i] = delay(z[i], p);
  end for;
end Delay;""",
    "Plain": """function sq input Real a; output Real r; algorithm r := a * a + 1; end sq;
model Plain parameter Real p = 0.5; Real x; Real y; Real w[2,2]; equation der(x) = sq(x) - y; y = if x > p then sq(p) else -x;
  w[1,1] = x; w[1,2] = y; w[2,1] = p; w[2,2] = x * y; end Plain;""",
    # attributes written with a piecewise-linear helper function: the metadata's affine shortcut must not be taken when the helper
    # is a call node (inline_functions=False) any more than when its body is inlined
    "ClipAttr": """function Clip input Real v; output Real r; algorithm r := max(v, 0) + 0.5 * abs(v - 1); end Clip;
model ClipAttr parameter Real cap = 3.0; parameter Real low = -2.0; Real x(max = Clip(cap), min = low - cap, nominal = Clip(low)); Real y(start = cap + low);
equation der(x) = -x; y = x + Clip(cap); end ClipAttr;""",
    # der() of a function call that selects one element of a vector state: inlined it is der(x)[1], not inlined the chain rule
    # over the vector symbol x must give the same
    # subscripts that are non-affine functions of the loop variable (floor / ceil / mod: piecewise constant derivative)
    "StepIndex": """model StepIndex parameter Real c[3] = {10, 20, 30}; Real a[5]; Real b[4]; Real x;
equation der(x) = -x; for i in 1:5 loop a[i] = c[floor((i + 1) / 2)] * x; end for;
  for i in 1:4 loop b[i] = c[ceil(i / 2) + 1 - floor(i / 4)] + x; end for; end StepIndex;""",
    "DerCall": """function pick input Real v[3]; output Real r; algorithm r := v[2]; end pick;
model DerCall Real x[3]; Real a; Real b; equation a = der(pick(x)); b = der(x[3] * x[1]); der(x[1]) = 1; der(x[2]) = 2 * time; der(x[3]) = x[1]; end DerCall;""",
}


def build(txt, name, opts):
    import pymoca.parser
    from pymoca.backends.casadi.generator import generate
    from pymoca.backends.casadi._options import _merge_default_options
    o = _merge_default_options(dict(opts))
    m = generate(pymoca.parser.parse(txt), name, o)
    m.simplify(o)
    return m


def fingerprint(m, seed):
    rng = np.random.RandomState(seed)
    out = {}
    for cat in ("states", "der_states", "alg_states", "inputs", "parameters", "constants"):
        out[cat] = [(v.symbol.name(), tuple(v.symbol.shape), v.python_type.__name__) for v in getattr(m, cat)]
    out["outputs"] = list(m.outputs)
    out["delay_states"] = list(m.delay_states)
    for fname in ("dae_residual_function", "initial_residual_function", "variable_metadata_function", "delay_arguments_function"):
        f = getattr(m, fname)
        args = [rng.uniform(0.5, 2.0, size=(f.size1_in(i), f.size2_in(i))) for i in range(f.n_in())]
        if f.n_out() == 0:
            out[fname] = []
            continue
        res = f(*args)
        res = list(res) if isinstance(res, (list, tuple)) else [res]
        out[fname] = [np.array(r, dtype=float).round(8).tolist() for r in res]
    return out


def diff(a, b):
    for k in a:
        if json.dumps(a[k]) != json.dumps(b[k]):
            x, y = json.dumps(a[k])[:160], json.dumps(b[k])[:160]
            return "%s differs: %s  vs reference  %s" % (k, y, x)
    return None


def main():
    payload = json.load(sys.stdin)
    seed = int(payload.get("seed", 0) or 0)
    failures, n = [], 0
    extra = [{}, {"expand_vectors": True}] if payload.get("tier") != "quick" else [{}]
    for name, txt in MODELS.items():
        for ex in extra:
            ref = None
            for ul, inl, emx in itertools.product([True, False], repeat=3):
                n += 1
                opts = dict(ex, unroll_loops=ul, inline_functions=inl, expand_mx=emx)
                try:
                    fp = fingerprint(build(txt, name, opts), seed + 12)
                except BaseException as e:  # noqa
                    failures.append({"class": "options", "input": {"model": name, "options": opts}, "observed": "%s: %s" % (type(e).__name__, str(e)[:120]), "expected": "a model"})
                    continue
                if ref is None:
                    ref = fp
                    continue
                d = diff(ref, fp)
                if d:
                    failures.append({"class": "options", "input": {"model": txt, "options": opts}, "observed": d,
                                     "expected": "identical variables, order, metadata and function values as with unroll_loops=inline_functions=expand_mx=True"})
            if len(failures) >= 3:
                break
    if payload.get("mode") == "bounded":
        print(json.dumps({"performed": True, "cases": n, "distinct_nontrivial": n, "failures": failures[:4],
                          "rule": "6 real models (subscripts that are floor / ceil expressions of the loop variable; attributes written with a piecewise-linear helper function; der() of a call of a function that picks one element of a vector state; for-loops reading one array through several index expressions and calling a user function; delay inside a loop; if-expression + function + matrix) x all 8 combinations of the three options (x expand_vectors in the thorough tier): variable lists, outputs, delay states and the residual / initial residual / metadata / delay-argument functions at a random point are compared with the all-True combination",
                          "bound": "%d model/option combinations, one random point (seed %d)" % (n, seed)}))
    else:
        f = failures[0] if failures else None
        print(json.dumps({"performed": True, "reproduces": f is not None, "input": f and f["input"], "observed": f and f["observed"],
                          "expected": f and f["expected"], "input_class": "options"}))


if __name__ == "__main__":
    main()
