"""C10 replay / bounded stand-in: generated models over prefix / type / der() combinations through the real
generate(); the category lists are compared with the statement's precedence."""
import itertools
import json
import sys

import numpy as np

DER_SHAPES = [
    ("direct", "der({v}) = 1;"),
    ("sum", "der({v} + k1) = 1;"),
    ("after-subexpr", "der(0.5 * k1 * k2 + {v}) = 1;"),
    ("neg-first", "der(-k1 + {v}) = 1;"),
    ("product", "der(k1 * {v}) = k2;"),
    ("inside-expression", "k1 * der({v}) + 2 = k2;"),
    ("double", "der({v}) + der(k1) = 0;"),
]


def build(decls, der_vars, der_shape, in_initial=False, nested=False):
    """decls: list of (prefixes, type, name) in declaration order"""
    lines = ["model M"]
    if nested:
        lines += ["  model Sub", "    Real q;", "  equation", "    der(q) = 1;", "  end Sub;", "  Sub sub;"]
    for pre, typ, name in decls:
        val = ""
        if "constant" in pre or "parameter" in pre:
            val = {"Real": " = 1.5", "Integer": " = 2", "Boolean": " = true", "String": ' = "s"'}[typ]
        lines.append("  %s %s %s%s;" % (" ".join(pre), typ, name, val))
    lines.append("  Real k1; Real k2;")
    lines.append("equation")
    lines.append("  k1 = 2 * time; k2 = 3 * time;")
    n_eq = 0
    for v in der_vars:
        lines.append("  " + der_shape.format(v=v))
        n_eq += 1
    for pre, typ, name in decls:
        if typ == "Real" and not ({"constant", "parameter", "input"} & set(pre)) and name not in der_vars:
            lines.append("  %s = time;" % name)
    if in_initial:
        lines.insert(lines.index("equation"), "initial equation")
        lines.insert(lines.index("equation"), "  der(k2) = 0;")
    lines.append("end M;")
    return "\n".join(lines)


def expected(decls, der_vars, shape_name, in_initial, nested):
    cats = {"constants": [], "parameters": [], "inputs": [], "states": [], "alg_states": [], "string_constants": [], "string_parameters": []}
    stateful = set(der_vars)
    if shape_name == "double" and der_vars:
        stateful.add("k1")
    if shape_name in ("sum", "after-subexpr", "neg-first", "product") and der_vars:
        stateful |= {"k1"} | ({"k2"} if shape_name == "after-subexpr" else set())
    if in_initial:
        stateful.add("k2")
    order = ([("", "Real", "sub.q")] if nested else []) + list(decls) + [((), "Real", "k1"), ((), "Real", "k2")]
    if nested:
        stateful.add("sub.q")
    for pre, typ, name in order:
        if "constant" in pre:
            cats["string_constants" if typ == "String" else "constants"].append(name)
        elif "parameter" in pre:
            cats["string_parameters" if typ == "String" else "parameters"].append(name)
        elif "input" in pre:
            cats["inputs"].append(name)
        elif name in stateful:
            cats["states"].append(name)
        else:
            cats["alg_states"].append(name)
    outs = [n for (pre, typ, n) in order if "output" in pre and n in cats["states"]] + \
           [n for (pre, typ, n) in order if "output" in pre and n in cats["alg_states"]]
    return cats, outs


def observe(txt):
    import pymoca.parser
    from pymoca.backends.casadi.generator import generate
    tree = pymoca.parser.parse(txt)
    if tree is None:
        raise SyntaxError("parse failed")
    m = generate(tree, "M")
    names = lambda l: [v.symbol.name() for v in l]
    got = {"constants": names(m.constants), "parameters": names(m.parameters), "inputs": names(m.inputs), "states": names(m.states),
           "alg_states": names(m.alg_states), "string_constants": [v.name for v in m.string_constants],
           "string_parameters": [v.name for v in m.string_parameters]}
    return got, names(m.der_states), list(m.outputs)


def judge(decls, der_vars, shape, in_initial, nested):
    txt = build(decls, der_vars, shape[1], in_initial, nested)
    try:
        got, ders, outs = observe(txt)
    except BaseException as e:  # noqa
        return {"class": "classification", "input": txt, "observed": "%s: %s" % (type(e).__name__, str(e)[:120]), "expected": "a model"}
    exp, exp_outs = expected(decls, der_vars, shape[0], in_initial, nested)
    # nested-component symbols are ordered by pymoca's own flattening order: compare as sets for them
    for k in exp:
        g, e = got[k], exp[k]
        if nested:
            g, e = sorted(g), sorted(e)
        if g != e:
            return {"class": "classification", "input": txt, "observed": "%s = %s" % (k, got[k]), "expected": "%s = %s" % (k, exp[k])}
    if ders != ["der(%s)" % s for s in got["states"]]:
        return {"class": "classification", "input": txt, "observed": "der_states = %s" % ders, "expected": "one derivative per state, aligned with %s" % got["states"]}
    if sorted(outs) != sorted(exp_outs) or (not nested and outs != exp_outs):
        return {"class": "classification", "input": txt, "observed": "outputs = %s" % outs, "expected": "outputs = %s" % exp_outs}
    return None


SIBLINGS = [
    # a state whose der() argument is an EMPTY slice (n = 1): it is still a state and still has its one derivative variable
    ("model M parameter Integer n = 1; Real x[n]; Real T; equation der(T) = 1; x[1] = T; der(x[2:n]) = x[1:n-1]; end M;",
     {"states": ["x", "T"], "alg_states": [], "inputs": []}, ["der(x)", "der(T)"]),
    ("model M parameter Integer n = 3; Real x[n]; Real T; equation der(T) = 1; x[1] = T; der(x[2:n]) = x[1:n-1]; end M;",
     {"states": ["x", "T"], "alg_states": [], "inputs": []}, ["der(x)", "der(T)"]),
    # two instances of one class, only one of them differentiated by the enclosing model; a top-level and a nested use of one class
    ("model M model Tank Real h; input Real qin; output Real level; equation level = h; end Tank; Tank a; Tank b; equation der(a.h) = a.qin; b.h = 2 * b.qin; a.qin = 1; b.qin = 1; end M;",
     {"states": ["a.h"], "alg_states": ["a.qin", "a.level", "b.h", "b.qin", "b.level"], "inputs": []}, ["der(a.h)"]),
    ("model M model Body Real T; Real q; equation q = 1; end Body; model Heated extends Body; equation der(T) = q; end Heated; model Fixed extends Body; equation T = q; end Fixed; Heated hot; Fixed cold; end M;",
     {"states": ["hot.T"], "alg_states": ["hot.q", "cold.T", "cold.q"], "inputs": []}, ["der(hot.T)"]),
    # inputs / outputs of a COMPONENT declared with a type derived from an elementary type: only top-level inputs are inputs
    ("model M type Voltage = Real(unit = \"V\"); model F input Voltage v; output Voltage y; Real s; equation der(s) = v; y = s; end F; "
     "F f1; input Voltage u; output Voltage z; equation f1.v = u; z = f1.y; end M;",
     {"states": ["f1.s"], "alg_states": ["f1.v", "f1.y", "z"], "inputs": ["u"]}, ["der(f1.s)"]),
    # a called function with a local constant named like a state of the model
    ("function g input Real u; output Real r; protected constant Real c = 0.5; algorithm r := c * u; end g; "
     "model M Real c; Real y; equation der(c) = -c; y = g(c); end M;",
     {"states": ["c"], "alg_states": ["y"], "inputs": []}, ["der(c)"]),
]


# der() in every syntactic position an equation offers: the variable is a state wherever its derivative is written
for _pos, _eq in [("if-expression condition", "y = if der(x) > 0 then 1 else -1;"),
                  ("if-expression branch", "y = if z > 0 then der(x) else 2;"),
                  ("elseif condition", "y = if z > 0 then 1 elseif der(x) > 0 then 2 else 3;"),
                  ("function argument holding an if-expression", "y = max(0, if der(x) < 0 then x else z);"),
                  ("if-equation condition", "if der(x) > 0 then y = 1; else y = 2; end if;"),
                  ("if-equation branch", "if z > 0 then y = der(x); else y = 2; end if;"),
                  ("power operand", "y = (der(x) + 1) ^ 2;"),
                  ("nested call", "y = sin(abs(der(x)));")]:
    SIBLINGS.append(("model M Real x; Real y; Real z; equation z = time; x = sin(time); %s end M;" % _eq,
                     {"states": ["x"], "alg_states": ["y", "z"], "inputs": []}, ["der(x)"]))


def judge_siblings(txt, want, want_ders):
    try:
        got, ders, outs = observe(txt)
    except BaseException as e:  # noqa
        return {"class": "classification", "input": txt, "observed": "%s: %s" % (type(e).__name__, str(e)[:120]), "expected": "a model"}
    for k, e in want.items():
        if sorted(got[k]) != sorted(e):
            return {"class": "classification", "input": txt, "observed": "%s = %s" % (k, got[k]), "expected": "%s = %s (a variable is a state only if IT is differentiated)" % (k, e)}
    if ders != want_ders:
        return {"class": "classification", "input": txt, "observed": "der_states = %s" % ders, "expected": "der_states = %s" % want_ders}
    return None


def cases(tier, seed):
    rng = np.random.RandomState(seed + 10)
    base = [(("constant",), "Real", "c"), (("parameter",), "Real", "p"), (("input",), "Real", "u"), (("output",), "Real", "y"),
            ((), "Real", "x"), (("parameter",), "String", "sp"), (("constant",), "String", "sc"), (("parameter",), "Integer", "n"),
            (("discrete",), "Real", "d"), ((), "Real", "e"), (("output",), "Real", "z")]
    out = []
    for shape in DER_SHAPES:
        for der_vars in (["x"], ["y", "e"], []):
            out.append((base, der_vars, shape, False, False))
    out.append((base, ["x"], DER_SHAPES[0], True, False))
    out.append((base, ["x", "z"], DER_SHAPES[2], False, True))
    n_rand = 25 if tier == "quick" else 300
    for _ in range(n_rand):
        idx = rng.permutation(len(base))
        decls = [base[i] for i in idx[: rng.randint(4, len(base) + 1)]]
        cand = [n for pre, typ, n in decls if typ == "Real" and not ({"constant", "parameter", "input"} & set(pre))]
        k = rng.randint(0, min(3, len(cand)) + 1)
        der_vars = list(rng.choice(cand, size=k, replace=False)) if k else []
        out.append((decls, der_vars, DER_SHAPES[rng.randint(len(DER_SHAPES))], bool(rng.rand() < 0.3), bool(rng.rand() < 0.3)))
    return out


def main():
    payload = json.load(sys.stdin)
    tier, seed = payload.get("tier", "quick"), int(payload.get("seed", 0) or 0)
    failures, n = [], 0
    for c in [("siblings",) + t for t in SIBLINGS] + cases(tier, seed):
        n += 1
        f = judge_siblings(*c[1:]) if c[0] == "siblings" else judge(*c)
        if f:
            failures.append(f)
            if len(failures) >= 3:
                break
    if payload.get("mode") == "bounded":
        print(json.dumps({"performed": True, "cases": n, "distinct_nontrivial": n, "failures": failures,
                          "rule": "models over single-keyword prefixes x types (Real/Integer/String) x 7 der() shapes (direct, in sums/products, after a nested sub-expression, inside an expression, twice) x initial equations x nested components, two sibling instances / two subclasses of one declaration of which only one is differentiated, systematic plus random selections/orders (seed %d); lists compared with the statement's precedence, der alignment and outputs" % seed,
                          "bound": "%d models; multi-keyword prefixes excluded (C04)" % n}))
    else:
        f = failures[0] if failures else None
        print(json.dumps({"performed": True, "reproduces": f is not None, "input": f and f["input"], "observed": f and f["observed"],
                          "expected": f and f["expected"], "input_class": "classification"}))


if __name__ == "__main__":
    main()
