"""C24 -- the SymPy backend emits code with the flat model's meaning.

Functions under contract (real source, whole functions): SympyGenerator.exitExpression, exitPrimary,
exitComponentRef, exitSymbol, exitEquation, and the classification loop of exitClass.

Printing is proved by structural induction against Python's own grammar (ast.parse of the emitted
text, i.e. the precedence table of the interpreter that will run the generated module):
  (step)      with the operands printed as atoms L, R, the text emitted for  op(L, R)  parses to the
              Python operation that denotes op, applied to L and R in this order;
  (closure)   the text emitted for a compound node is CLOSED -- one parenthesised group or one
              call -- provided the operands' texts are atoms or closed; so it can stand wherever an
              atom can without changing how the context parses (the induction invariant).
A printer that is correct but emits fewer parentheses would fail (closure) without being wrong; that
obligation is therefore SOFT: if it fails and the depth-3 exhaustive nesting check (bounded) passes,
the verdict is `undecided`, not a violation.
"""
import ast as pyast

import z3

from pyvc import ops
from pyvc.values import Ext, PyRaise, Unsupported, VBound, VClass, VDict, VList, VObj, stub

from .api_common import ModuleStub
from .ast_common import AstFactory, base_modules

MOD = "pymoca.backends.sympy.generator"
BINARY = {"+": pyast.Add, "-": pyast.Sub, "*": pyast.Mult, "/": pyast.Div, "^": pyast.Pow}
UNARY = {"+": pyast.UAdd, "-": pyast.USub}


class TemplateStub(Ext):
    def __init__(self, text):
        self.text = text

    def sym_getattr(self, eng, name):
        if name == "render":
            return stub(lambda eng, d=None, **k: Rendered(self.text, d))
        raise Unsupported("jinja2 template .%s" % name)


class Rendered(Ext):
    def __init__(self, text, ctx):
        self.text, self.ctx = text, ctx


def setup(eng):
    base_modules(eng)
    tmpl = VClass("Template")
    tmpl.constructor = lambda eng, c, a, k: TemplateStub(a[0])
    eng.ext_modules["jinja2"] = ModuleStub("jinja2", {"Template": tmpl})
    eng.ext_modules["pymoca.tree"] = ModuleStub("pymoca.tree", {"TreeListener": VClass("TreeListener"), "TreeWalker": VClass("TreeWalker"), "flatten": None})
    import builtins as _b
    eng.builtins["dir"] = stub(lambda eng, *a: VList(sorted(dir(dict))))   # what dir(__builtins__) yields in an imported module
    eng.builtins["__builtins__"] = None
    gm = eng.load_module(MOD)
    gcls = eng.module_global(gm, "SympyGenerator")
    # the generator as its REAL constructor makes it (so that every field __init__ sets exists)
    try:
        g = eng.call(gcls, [], {})
    except (Unsupported, PyRaise):
        g = VObj(gcls, {})
    g.fields["src"] = VDict()
    return g, AstFactory(eng)


def parse_expr(text):
    try:
        return pyast.parse(text, mode="eval").body
    except SyntaxError:
        return None


def is_closed(text):
    """one parenthesised group, or one call / attribute chain on such a group, or an atom"""
    node = parse_expr(text)
    if node is None:
        return False
    if isinstance(node, (pyast.Name, pyast.Constant, pyast.Call, pyast.Attribute)):
        return True
    t = text.strip()
    if not (t.startswith("(") and t.endswith(")")):
        return False
    depth = 0
    for i, ch in enumerate(t):
        depth += ch == "("
        depth -= ch == ")"
        if depth == 0 and i < len(t) - 1:
            return False
    return True


def run_expr(eng, g, A, op, operand_texts, op_is_function=False):
    # der() is applied to a variable reference (the usual case) when the operand text is a name, else to an expression node
    operands = [A.ref(t) if op == "der" and t.isidentifier() else A.prim(i) for i, t in enumerate(operand_texts)]
    for o, t in zip(operands, operand_texts):
        ops.setitem(eng, g.fields["src"], o, t)
    tree = A.expr(A.ref(op) if op_is_function else op, *operands)
    eng.call(VBound(eng.find_function(MOD, "SympyGenerator.exitExpression"), g), [tree], {})
    return ops.getitem(eng, g.fields["src"], tree)


ATOMS = ["L", "R", "Q"]
CLOSED_SAMPLES = ["(p + q)", "(- p)", "f(p,q)", "(p ** q)", "(p).diff(self.t)", "p", "1.5"]


def h_expression_step(eng):
    g, A = setup(eng)
    kind = ["binary", "unary", "call", "der"][eng.choice(4)]
    eng.input("kind", kind)
    if kind == "binary":
        op = list(BINARY)[eng.choice(len(BINARY))]
        eng.input("operator", op)
        txt = run_expr(eng, g, A, op, ["L", "R"])
        node = parse_expr(txt) if isinstance(txt, str) else None
        ok = isinstance(node, pyast.BinOp) and isinstance(node.op, BINARY[op]) and isinstance(node.left, pyast.Name) and node.left.id == "L" \
            and isinstance(node.right, pyast.Name) and node.right.id == "R"
        eng.prove("print.binary_denotes_operator_of_left_right", z3.BoolVal(bool(ok)), text=txt)
    elif kind == "unary":
        op = list(UNARY)[eng.choice(2)]
        eng.input("operator", op)
        txt = run_expr(eng, g, A, op, ["L"])
        node = parse_expr(txt) if isinstance(txt, str) else None
        ok = isinstance(node, pyast.UnaryOp) and isinstance(node.op, UNARY[op]) and isinstance(node.operand, pyast.Name) and node.operand.id == "L"
        eng.prove("print.unary_denotes_sign_of_operand", z3.BoolVal(bool(ok)), text=txt)
    elif kind == "call":
        n = 1 + eng.choice(3)
        txt = run_expr(eng, g, A, "sin", ATOMS[:n], op_is_function=True)
        node = parse_expr(txt) if isinstance(txt, str) else None
        ok = isinstance(node, pyast.Call) and isinstance(node.func, pyast.Name) and node.func.id == "sin" and \
            [a.id for a in node.args if isinstance(a, pyast.Name)] == ATOMS[:n] and len(node.args) == n
        eng.prove("print.call_denotes_function_of_arguments_in_order", z3.BoolVal(bool(ok)), text=txt)
    else:
        txt = run_expr(eng, g, A, "der", ["L"])
        node = parse_expr(txt) if isinstance(txt, str) else None
        ok = isinstance(node, pyast.Call) and isinstance(node.func, pyast.Attribute) and node.func.attr == "diff" and \
            isinstance(node.func.value, pyast.Name) and node.func.value.id == "L"
        # (a bare name such as L_dot is not accepted: any identifier can also be the mangled name of a Modelica variable, so it
        # does not denote the derivative of L in every model)
        eng.prove("print.der_differentiates_whole_operand", z3.BoolVal(bool(ok)), text=txt)
    eng.cover("print.step")


def h_expression_closure(eng):
    """(closure) with closed operands of every sample shape, the emitted text is closed and the
    operands keep their own grouping (the context's parse contains each operand's parse as a subtree)"""
    g, A = setup(eng)
    kind = ["binary", "unary", "call", "der"][eng.choice(4)]
    eng.input("kind", kind)
    if kind == "binary":
        op = list(BINARY)[eng.choice(len(BINARY))]
        l = CLOSED_SAMPLES[eng.choice(len(CLOSED_SAMPLES))]
        r = CLOSED_SAMPLES[eng.choice(len(CLOSED_SAMPLES))]
        eng.input("operator", op)
        eng.input("operands", [l, r])
        txt = run_expr(eng, g, A, op, [l, r])
        node = parse_expr(txt) if isinstance(txt, str) else None
        ok = isinstance(node, pyast.BinOp) and isinstance(node.op, BINARY[op]) and _same(node.left, l) and _same(node.right, r)
        eng.prove("print.operands_keep_their_grouping", z3.BoolVal(bool(ok)), text=txt)
    elif kind == "unary":
        op = list(UNARY)[eng.choice(2)]
        l = CLOSED_SAMPLES[eng.choice(len(CLOSED_SAMPLES))]
        eng.input("operator", op)
        eng.input("operands", [l])
        txt = run_expr(eng, g, A, op, [l])
        node = parse_expr(txt) if isinstance(txt, str) else None
        ok = isinstance(node, pyast.UnaryOp) and isinstance(node.op, UNARY[op]) and _same(node.operand, l)
        eng.prove("print.operands_keep_their_grouping", z3.BoolVal(bool(ok)), text=txt)
    elif kind == "call":
        l = CLOSED_SAMPLES[eng.choice(len(CLOSED_SAMPLES))]
        txt = run_expr(eng, g, A, "cos", [l, "R"], op_is_function=True)
        node = parse_expr(txt) if isinstance(txt, str) else None
        ok = isinstance(node, pyast.Call) and len(node.args) == 2 and _same(node.args[0], l)
        eng.prove("print.operands_keep_their_grouping", z3.BoolVal(bool(ok)), text=txt)
    else:
        l = CLOSED_SAMPLES[eng.choice(len(CLOSED_SAMPLES))]
        txt = run_expr(eng, g, A, "der", [l])
        node = parse_expr(txt) if isinstance(txt, str) else None
        ok = isinstance(node, pyast.Call) and isinstance(node.func, pyast.Attribute) and _same(node.func.value, l)
        eng.prove("print.operands_keep_their_grouping", z3.BoolVal(bool(ok)), text=txt)
    eng.prove("print.compound_is_closed", z3.BoolVal(isinstance(txt, str) and is_closed(txt)), text=txt)
    eng.cover("print.closure")


def _same(node, text):
    want = parse_expr(text)
    return want is not None and node is not None and pyast.dump(node) == pyast.dump(want)


def h_equation(eng):
    g, A = setup(eng)
    l = CLOSED_SAMPLES[eng.choice(len(CLOSED_SAMPLES))]
    r = ["R", "p + q", "- p", "p - q", "(p * q)"][eng.choice(5)]   # the right side need not be closed
    eng.input("sides", [l, r])
    lt, rt = A.ref("a"), A.ref("b")
    ops.setitem(eng, g.fields["src"], lt, l)
    ops.setitem(eng, g.fields["src"], rt, r)
    tree = A.new("Equation", left=lt, right=rt)
    eng.call(VBound(eng.find_function(MOD, "SympyGenerator.exitEquation"), g), [tree], {})
    txt = ops.getitem(eng, g.fields["src"], tree)
    node = parse_expr(txt) if isinstance(txt, str) else None
    ok = isinstance(node, pyast.BinOp) and isinstance(node.op, pyast.Sub) and _same(node.left, l) and _same(node.right, r)
    eng.cover("print.equation")
    eng.prove("print.equation_is_left_minus_whole_right", z3.BoolVal(bool(ok)), text=txt)


def h_leaves(eng):
    g, A = setup(eng)
    which = eng.choice(2)
    if which == 0:
        v = [0, 1, 2.5, 1e-08, 12345.75, True][eng.choice(6)]
        t = A.prim(v)
        eng.call(VBound(eng.find_function(MOD, "SympyGenerator.exitPrimary"), g), [t], {})
        txt = ops.getitem(eng, g.fields["src"], t)
        node = parse_expr(txt) if isinstance(txt, str) else None
        eng.prove("print.literal_is_exact_atom", z3.BoolVal(isinstance(node, pyast.Constant) and node.value == v), text=txt)
    else:
        name = ["x", "a.b", "a.b.c", "time", "keys", "items"][eng.choice(6)]
        eng.input("name", name)
        t = A.ref(name)
        s = VObj(VClass("Symbol"), {"name": name})
        eng.call(VBound(eng.find_function(MOD, "SympyGenerator.exitComponentRef"), g), [t], {})
        eng.call(VBound(eng.find_function(MOD, "SympyGenerator.exitSymbol"), g), [s], {})
        rt, st = ops.getitem(eng, g.fields["src"], t), ops.getitem(eng, g.fields["src"], s)
        node = parse_expr(rt) if isinstance(rt, str) else None
        eng.prove("print.reference_is_an_atom", z3.BoolVal(isinstance(node, (pyast.Name, pyast.Attribute))), text=rt)
        # a reference and the declaration of the same variable get the same Python symbol (time excepted)
        eng.prove("print.reference_matches_declared_symbol", z3.BoolVal(rt == st or name == "time"), ref=rt, sym=st)
    eng.cover("print.leaves")


MANGLE_PAIRS = [("a.b", "a_b"), ("a.b", "ab"), ("a.b.c", "a.bc"), ("x.y", "x.z"), ("keys", "keys_"), ("p", "p_"), ("a.b", "a__b")]


def h_mangling(eng):
    """distinct Modelica variables map to distinct Python symbols (enumerated adversarial pairs)"""
    g, A = setup(eng)
    n1, n2 = MANGLE_PAIRS[eng.choice(len(MANGLE_PAIRS))]
    eng.input("names", [n1, n2])
    f = eng.find_function(MOD, "SympyGenerator.exitSymbol")
    s1, s2 = VObj(VClass("Symbol"), {"name": n1}), VObj(VClass("Symbol"), {"name": n2})
    eng.call(VBound(f, g), [s1], {})
    eng.call(VBound(f, g), [s2], {})
    t1, t2 = ops.getitem(eng, g.fields["src"], s1), ops.getitem(eng, g.fields["src"], s2)
    eng.cover("print.mangling")
    if (n1, n2) == ("a.b", "a__b"):
        eng.prove("mangle.dotted_vs_double_underscore_distinct", z3.BoolVal(t1 != t2), names=[n1, n2], symbols=[t1, t2])
    else:
        eng.prove("mangle.distinct_names_distinct_symbols", z3.BoolVal(t1 != t2), names=[n1, n2], symbols=[t1, t2])


def h_classification(eng):
    """exitClass: the state / input / output / constant / parameter / variable lists follow the prefixes"""
    g, A = setup(eng)
    from contracts.C10 import PrefixList
    # prefix lists of the flat model: single keywords and the double ones flattening produces (annotate_states adds `state` to
    # anything under der(), also to an input / parameter; outputs can be states; parameters can be outputs)
    kinds = [["state"], ["constant"], ["parameter"], ["input"], ["output"], [], ["output", "state"], ["state", "output"], ["input", "state"],
             ["parameter", "state"], ["parameter", "output"], ["constant", "state"], ["input", "output"]]
    shape = [kinds[eng.choice(len(kinds))] for _ in range(2)]
    eng.input("prefixes", shape)
    syms = []
    for i, k in enumerate(shape):
        pre = list(k)
        s = VObj(VClass("Symbol"), {"name": "v%d" % i, "prefixes": VList(pre), "order": 1 - i})
        ops.setitem(eng, g.fields["src"], s, "v%d" % i)
        syms.append(s)
    tree = VObj(VClass("Class"), {"name": "M", "symbols": VDict([(s.fields["name"], s) for s in syms]), "equations": VList()})
    eng.call(VBound(eng.find_function(MOD, "SympyGenerator.exitClass"), g), [tree], {})
    eng.cover("print.class")
    r = ops.getitem(eng, g.fields["src"], tree)
    ctx = r.ctx if isinstance(r, Rendered) else None
    if ctx is None:
        eng.prove("class.rendered_from_lists", False)
        return
    get = lambda k: [x for x in eng.iterate(ops.getitem(eng, ctx, k))]
    by_order = sorted(syms, key=lambda s: s.fields["order"])
    want = {"states": [], "inputs": [], "outputs": [], "constants": [], "parameters": [], "variables": []}
    for s in by_order:
        pre = s.fields["prefixes"].items
        if not pre:
            want["variables"].append(s)
        for p in pre:
            key = {"state": "states", "input": "inputs", "output": "outputs", "constant": "constants", "parameter": "parameters"}[p]
            want[key].append(s)
    for s in want["outputs"]:
        if s not in want["states"]:
            want["variables"].append(s)
    ok = all(len(get(k)) == len(v) and all(a is b for a, b in zip(get(k), v)) for k, v in want.items())
    eng.prove("class.lists_follow_prefixes_in_declaration_order", z3.BoolVal(bool(ok)))
    strs_ok = ops.getitem(eng, ctx, "states_str") == ", ".join("v%d" % syms.index(s) for s in want["states"])
    eng.prove("class.printed_lists_use_the_symbols_text", z3.BoolVal(bool(strs_ok)))
    # the printed texts (proved well-formed above) reach the module as they are: every placeholder that inserts a printed text is
    # the bare lookup render.src[<node>], without a jinja2 filter or operation that could rewrite the text, and the equation list
    # is one such placeholder per equation of the flat class
    import re
    tt = r.text if isinstance(r.text, str) else ""
    holes = [h.strip() for h in re.findall(r"\{\{(.*?)\}\}", tt, flags=re.S)]
    printed = [h for h in holes if "render.src" in h]
    bad = [h for h in printed if not re.fullmatch(r"render\.src\[\w+\]", h)]
    eng.prove("class.printed_texts_are_inserted_as_they_are", z3.BoolVal(bool(printed) and not bad), rewritten=bad)
    loop = re.search(r"\{%-?\s*for\s+(\w+)\s+in\s+tree\.equations\s*-?%\}(.*?)\{%-?\s*endfor", tt, flags=re.S)
    eq_ok = loop is not None and [h.strip() for h in re.findall(r"\{\{(.*?)\}\}", loop.group(2), flags=re.S)] == ["render.src[%s]" % loop.group(1)]
    eng.prove("class.one_entry_per_equation_holding_its_printed_text", z3.BoolVal(bool(eq_ok)))


HARNESSES = [("SympyGenerator.exitExpression/step", h_expression_step), ("SympyGenerator.exitExpression/closure", h_expression_closure),
             ("SympyGenerator.exitEquation", h_equation), ("SympyGenerator.exitPrimary/exitComponentRef/exitSymbol", h_leaves),
             ("SympyGenerator.exitSymbol/mangling", h_mangling), ("SympyGenerator.exitClass/classification", h_classification)]
EXPECTED_COVER = {"print.step", "print.closure", "print.equation", "print.leaves", "print.mangling", "print.class"}
SOFT = {"print.compound_is_closed"}
BOUNDED = True
LEVEL = "proof"
TRUSTED = ["pyvc VC generator", "CPython's parser (ast.parse) as the definition of Python's precedence and associativity",
           "substitution lemma of Python's expression grammar: a parenthesised group, a call or an atom can replace an atom without changing how the surrounding text parses",
           "jinja2 renders the lists it is given; pymoca's TreeWalker is post-order"]
ASSUMPTIONS = [
    "literals are unsigned (the parser produces unary-minus nodes for negative numbers)",
    "name mangling is checked on enumerated adversarial name pairs, not for all strings (str.replace is outside the solver's reach)",
    "validity of the whole generated module (template text) is only exercised by the bounded replay, which executes it",
]
EXPLANATION = "Structural induction for the printer against ast.parse; classification lists; mangling pairs."
MANIFEST = {
    "category": "proof",
    "text": "The SymPy printer callbacks are executed on the real source for every operator and arity: (step) the emitted text parses, with Python's own parser, to the operation that denotes the Modelica operator on its operands in order; (closure) a compound node's text is one closed group whenever its operands are, and operands keep their grouping -- together the structural induction that the printed equation has the flat tree's meaning for any nesting. Equation printing, literals, references, the prefix-driven lists of exitClass and enumerated name-mangling pairs are verified as well. A bounded replay executes generated modules for random nested expressions and compares them numerically with the flat equations. The collision of a.b with a__b is a known finding. The jinja2 template of exitClass inserts every printed text as the bare render.src[node] placeholder (no filter), one per equation.",
    "note": "Trusted: CPython's parser as the precedence table, the substitution lemma for closed texts, jinja2; mangling only on enumerated pairs; the closure obligation is soft (a correct printer with fewer parentheses makes the verdict undecided, not a violation).",
    "technique": "contract-based deductive verification: structural-induction obligations (step + closure invariant) discharged by executing the real callbacks symbolically and judging the emitted text with Python's parser",
}
