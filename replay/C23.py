"""C23 replay / bounded stand-in through the real generate() (runs under /venv/bin/python).

A subscript is put into `z = sum(x[...])` (or a for-equation) of a generated model; the residual is
evaluated with x[k] = 2**k so that the set of selected elements can be read off, and compared with
Modelica's 1-based semantics: out-of-range => an exception is REQUIRED; in range => exactly the
Modelica elements; empty range => empty selection or an error."""
import itertools
import json
import sys
import tempfile

import numpy as np


def gen(txt, name="M"):
    import pymoca.parser
    from pymoca.backends.casadi.generator import generate
    tree = pymoca.parser.parse(txt, bypass_cache=True) if "bypass_cache" in pymoca.parser.parse.__code__.co_varnames else pymoca.parser.parse(txt)
    if tree is None:
        raise SyntaxError("parse failed: " + txt)
    return generate(tree, name)


def sub_text(sub):
    if sub[0] == "int":
        return str(sub[1]) if sub[1] >= 0 else "(%d)" % sub[1]
    if sub[0] == "whole":
        return ":"
    _, a, b, s = sub
    f = lambda v: "(%d)" % v if v < 0 else str(v)
    if s == 1:
        return "%s:%s" % (f(a), f(b))
    return "%s:%s:%s" % (f(a), f(s), f(b))


def expected_elems(sub, n):
    """set of 1-based elements or None when an error is required; 'any' when either is fine"""
    if sub[0] == "int":
        return {sub[1]} if 1 <= sub[1] <= n else None
    if sub[0] == "whole":
        return set(range(1, n + 1))
    _, a, b, s = sub
    I = set(range(a, b + 1, s))
    if not I:
        return set()
    return I if min(I) >= 1 and max(I) <= n else None


def residual_bits(model, nx):
    import casadi as ca
    f = model.dae_residual_function
    names = [v.symbol.name() for v in model.alg_states]
    # inputs of the residual function: time, states, der_states, alg_states, inputs, constants, parameters
    args = []
    vals = {}
    for v in model.alg_states:
        nm = v.symbol.name()
        if nm == "x":
            shp = v.symbol.shape
            vals[nm] = np.array([[2.0 ** (r * shp[1] + c) for c in range(shp[1])] for r in range(shp[0])])
        else:
            vals[nm] = np.zeros(v.symbol.shape)
    alg = np.concatenate([vals[v.symbol.name()].reshape(-1, order="F") for v in model.alg_states]) if model.alg_states else np.zeros(0)
    if f.n_out() == 0:
        return np.zeros(0)
    res = f(0, ca.DM(), ca.DM(), alg, ca.DM(), ca.DM(), ca.DM())
    return np.array(res, dtype=float).reshape(-1)


def run_const(dims, subs):
    """returns ('error', text) or ('ok', sorted list of selected zero-based flat (row-major) positions)"""
    decl = "Real x[%s];" % ",".join(str(d) for d in dims)
    txt = "model M %s Real z; equation z = sum(x[%s]); end M;" % (decl, ",".join(sub_text(s) for s in subs))
    try:
        m = gen(txt)
        r = residual_bits(m, dims)
    except Exception as e:  # noqa
        return ("error", "%s: %s" % (type(e).__name__, str(e)[:100])), txt
    if r.size == 0 or r[0] is None:
        return ("ok", []), txt   # sum over an empty selection: the equation degenerates
    total = -float(np.sum(r))   # sum() of a row vector stays a vector: add the rows up here
    sel = []
    k = 0
    t = int(round(total))
    if abs(total - t) > 1e-9:
        return ("ok", "non-integral %r" % total), txt
    while t:
        if t & 1:
            sel.append(k)
        t >>= 1
        k += 1
    return ("ok", sel), txt


def judge_const(dims, subs):
    exp = [expected_elems(s, n) for s, n in zip(subs, dims)]
    got, txt = run_const(dims, subs)
    cols = dims[1] if len(dims) > 1 else 1
    if any(e is None for e in exp):
        if got[0] != "error":
            return {"class": "const", "input": txt, "observed": "no error; selected flat positions %s" % (got[1],),
                    "expected": "an error (subscript outside 1..n)"}
        return None
    if len(dims) == 1:
        want = sorted(e - 1 for e in exp[0])
    else:
        want = sorted((r - 1) * cols + (c - 1) for r in exp[0] for c in exp[1])
    if got[0] == "error":
        # a slice whose *bounds* leave 1..n may be refused even if, because of the step, no
        # selected element does (the statement: "a slice reaching outside 1..n")
        bounds_out = any(s[0] == "slice" and (s[1] < 1 or s[2] > n) for s, n in zip(subs, dims))
        if all(len(e) > 0 for e in exp) and not bounds_out:
            return {"class": "const", "input": txt, "observed": got[1], "expected": "elements %s" % want}
        return None  # empty range: an error is acceptable
    if got[1] != want:
        return {"class": "const", "input": txt, "observed": "selected flat positions %s" % (got[1],), "expected": "flat positions %s" % want}
    return None


def judge_param_array_subscript(k):
    """a subscript that is itself an element of an Integer parameter array, x[idx[k]]: refusing is fine; if it is accepted, k must be a
    valid 1-based subscript of idx and the element selected is x[idx[k]]"""
    idx = [2, 3, 1]
    txt = "model M parameter Integer idx[3] = {2, 3, 1}; Real x[3]; Real z; equation z = sum(x[idx[%d]:idx[%d]]); end M;" % (k, k)
    try:
        m = gen(txt)
        r = residual_bits(m, [3])
    except Exception:  # noqa
        return None
    total = -float(np.sum(r)) if r.size else 0.0
    sel = [b for b in range(3) if int(round(total)) >> b & 1]
    if not (1 <= k <= 3):
        return {"class": "const", "input": txt, "observed": "no error; selected elements %s" % [b + 1 for b in sel], "expected": "an error (idx has elements 1..3)"}
    if sel != [idx[k - 1] - 1]:
        return {"class": "const", "input": txt, "observed": "selected elements %s" % [b + 1 for b in sel], "expected": "element %d" % idx[k - 1]}
    return None


def judge_param_step(n, a, step, b):
    """a slice whose step is a parameter expression (-k or k with k = 0): descending and zero steps reach the slice conversion"""
    k = abs(step)
    txt = "model M Real x[%d]; parameter Integer k = %d; Real z; equation z = sum(x[%d:%sk:%d]); end M;" % (n, k, a, "-" if step < 0 else "", b)
    try:
        m = gen(txt)
        r = residual_bits(m, [n])
        total = -float(np.sum(r)) if r.size else 0.0
        t = int(round(total))
        sel, i = [], 0
        while t:
            if t & 1:
                sel.append(i + 1)
            t >>= 1
            i += 1
        got = ("ok", sel)
    except Exception as e:  # noqa
        got = ("error", "%s: %s" % (type(e).__name__, str(e)[:100]))
    if step == 0:
        want = None
    else:
        I = list(range(a, b - 1, step)) if step < 0 else list(range(a, b + 1, step))
        want = None if I and (min(I) < 1 or max(I) > n) else sorted(I)
    if got[0] == "error":
        return None          # rejecting a descending / zero-step slice loudly is always allowed
    if want is None:
        return {"class": "const", "input": txt, "observed": "no error; selected elements %s" % got[1], "expected": "an error (step 0 / range outside 1..n)"}
    if got[1] != want:
        return {"class": "const", "input": txt, "observed": "selected elements %s" % got[1], "expected": "elements %s (Modelica %d:%d:%d) or an error" % (want, a, step, b)}
    return None


def judge_loop(n, lo, hi, off, nested=False):
    cnt = hi - lo + 1
    txt = ("model M Real x[%d]; Real w[%d]; equation for i in %d:%d loop w[i - %d + 1] = x[i + %d]; end for; end M;"
           % (n, max(cnt, 1), lo, hi, lo, off)) if off else \
          ("model M Real x[%d]; Real w[%d]; equation for i in %d:%d loop w[i - %d + 1] = x[i]; end for; end M;"
           % (n, max(cnt, 1), lo, hi, lo))
    if nested:
        # the looped-over array is a member of a scalar component: a.x[i]
        txt = txt.replace("model M Real x[%d];" % n, "model A Real x[%d]; end A; model M A a;" % n).replace("= x[", "= a.x[")
    want = [lo + off + j for j in range(cnt)]
    need_error = any(v < 1 or v > n for v in want)
    try:
        import casadi as ca
        m = gen(txt)
        f = m.dae_residual_function
        vals = {}
        for v in m.alg_states:
            shp = v.symbol.shape
            vals[v.symbol.name()] = np.array([2.0 ** k for k in range(shp[0])]) if v.symbol.name() in ("x", "a.x") else np.zeros(shp[0])
        alg = np.concatenate([vals[v.symbol.name()] for v in m.alg_states])
        r = np.array(f(0, ca.DM(), ca.DM(), alg, ca.DM(), ca.DM(), ca.DM())).reshape(-1)
        got = [int(round(np.log2(-x))) + 1 if x < 0 else None for x in r[:cnt]]
    except Exception as e:  # noqa
        if need_error or cnt <= 0 or lo < 0 or hi < 0:
            # a negative literal as a range bound is not read by pymoca at all (a loud AttributeError on the range, before any
            # subscript is looked at): generation failed with an error and no subscript was reinterpreted, which is all the
            # statement asks; demanding that such a model is ACCEPTED would be more than the property says
            return None
        return {"class": "loop", "input": txt, "observed": "%s: %s" % (type(e).__name__, str(e)[:100]), "expected": "elements %s" % want}
    if need_error:
        return {"class": "loop", "input": txt, "observed": "no error; rows read x elements %s" % got, "expected": "an error (loop subscript outside 1..n)"}
    if cnt > 0 and got != want:
        return {"class": "loop", "input": txt, "observed": "rows read x elements %s" % got, "expected": "elements %s" % want}
    return None


def subs_window(n, tier):
    lo, hi = -2, n + 2
    out = [("int", i) for i in range(lo, hi + 1)]
    steps = (1, 2) if tier == "quick" else (1, 2, 3)
    for a in range(lo, hi + 1):
        for b in range(lo, hi + 1):
            for s in steps:
                out.append(("slice", a, b, s))
    return out


def casadi_getitem_samples():
    """sample the assumed contract of MX.__getitem__ (Ext of the proof)"""
    import casadi as ca
    bad = []
    for n in (1, 2, 3, 4):
        x = ca.MX.sym("x", n)
        vals = np.array([2.0 ** k for k in range(n)])
        ev = lambda e: np.array(ca.Function("f", [x], [e])(vals)).reshape(-1)
        for k in range(-n, n):
            if list(ev(x[k])) != [vals[k]]:
                bad.append("int %d on n=%d" % (k, n))
        for k in (n, n + 1, -n - 1):
            try:
                x[k]
                bad.append("int %d on n=%d did not raise" % (k, n))
            except Exception:
                pass
        for a in [None] + list(range(-n - 1, n + 2)):
            for b in [None] + list(range(-1, n + 3)):
                for s in (1, 2):
                    try:
                        got = list(ev(x[slice(a, b, s)]))
                    except Exception:
                        if (b is not None and b > n) or (a is not None and (a > n or a < -n)):
                            continue
                        if list(vals[slice(a, b, s)]) == []:
                            continue
                        bad.append("slice(%r,%r,%r) on n=%d raised" % (a, b, s, n))
                        continue
                    if b is not None and b > n:
                        bad.append("slice(%r,%r,%r) on n=%d did not raise" % (a, b, s, n))
                    elif a is not None and (a > n or a < -n):
                        pass  # may or may not raise: the proof treats both outcomes
                    elif got != list(vals[slice(a, b, s)]):
                        bad.append("slice(%r,%r,%r) on n=%d gave %s" % (a, b, s, n, got))
    return bad


def from_model(model):
    """solver counter-model -> (dims, subs) / loop case"""
    def sub(prefix):
        if model.get(prefix + ".int") is not None:
            return ("int", model[prefix + ".int"])
        if prefix + ".step" in model:
            a, b = model.get(prefix + ".start"), model.get(prefix + ".stop")
            return ("slice", a, b, model.get(prefix + ".step") or 1)
        return ("whole",)
    return sub


def main():
    payload = json.load(sys.stdin)
    mode, tier = payload.get("mode"), payload.get("tier", "quick")
    failures, cases = [], 0
    if mode == "replay" and payload.get("input"):
        inp = payload["input"]
        import re
        try:
            gen(inp)
            print(json.dumps({"reproduces": True, "input": inp, "observed": "generation succeeded", "note": "re-run of recorded model text"}))
        except Exception as e:  # noqa
            print(json.dumps({"reproduces": False, "input": inp, "observed": "%s: %s" % (type(e).__name__, e)}))
        return
    if mode == "replay" and payload.get("model"):
        m = payload["model"]
        sub = from_model(m)
        res = None
        hn = payload.get("harness", "")
        if hn.endswith("/scalar") or hn.endswith("/too-many"):
            s1 = sub("i1")
            if s1[0] == "slice":
                s1 = ("slice", 1 if s1[1] is None else s1[1], 1 if s1[2] is None else s1[2], s1[3])
            for cand in [s1, ("int", 1), ("slice", 1, 1, 1)]:
                txt = ("model M Real x; Real z; equation z = sum(x[%s]); end M;" % sub_text(cand)) if hn.endswith("/scalar") else \
                      ("model M Real x[3]; Real z; equation z = x[%s, 1]; end M;" % sub_text(cand))
                try:
                    gen(txt)
                    res = {"class": "const", "input": txt, "observed": "generation succeeded", "expected": "an error"}
                    break
                except Exception:
                    continue
        elif "shape" in m:     # loop harness
            n = max(1, min(int(m.get("n1", 1)), 6))
            for nested, lo, hi, off in itertools.product((str(m.get("shape", "")).startswith("a."), not str(m.get("shape", "")).startswith("a.")),
                                                         range(-1, n + 2), range(-1, n + 3), (0, 1, -1)):
                if hi >= lo:
                    res = judge_loop(n, lo, hi, off, nested)
                    if res:
                        break
        else:
            n1 = int(m.get("n1", 1))
            n2 = m.get("n2")
            subs = [sub("i1")] + ([sub("i2")] if n2 is not None else [])
            dims = [n1] + ([int(n2)] if n2 is not None else [])
            ok = all(0 < d <= 8 for d in dims) and all(s[0] != "slice" or (s[1] is not None and s[2] is not None) for s in subs)
            fixed = []
            for s, d in zip(subs, dims):
                if s[0] == "slice":
                    s = ("slice", 1 if s[1] is None else s[1], d if s[2] is None else s[2], s[3])
                fixed.append(s)
            if all(0 < d <= 8 for d in dims) and all(abs(v) < 50 for s in fixed for v in s[1:] if isinstance(v, int)):
                res = judge_const(dims, fixed)
        if res is None:
            # fall back to the window sweep
            res = next(iter(sweep("quick", limit_first=True)[0]), None)
        print(json.dumps({"performed": True, "reproduces": res is not None, "input": res and res["input"],
                          "observed": res and res["observed"], "expected": res and res["expected"],
                          "input_class": res and res["class"]}))
        return
    failures, cases, distinct = sweep(tier)
    if mode == "replay":
        f = failures[0] if failures else None
        print(json.dumps({"performed": True, "reproduces": f is not None, "input": f and f["input"], "observed": f and f["observed"],
                          "expected": f and f["expected"], "input_class": f and f["class"]}))
        return
    bad = casadi_getitem_samples()
    for b in bad[:3]:
        failures.append({"class": "assumed-casadi-contract", "input": b, "observed": "CasADi behaves differently from the assumed contract", "expected": "see contracts/C23.py"})
    print(json.dumps({"performed": True, "cases": cases, "distinct_nontrivial": distinct, "failures": failures[:5],
                      "rule": "window sweep through generate(): 1-D n in 1..3 with every int subscript and slice bound in [-2, n+2], steps 1,2(,3); slices whose step is a parameter expression with value -1, -2 or 0; subscripts that are elements idx[k] of an Integer parameter array, k in -2..5; "
                              "2-D 2x3 with int/slice/whole pairs; for-loops x[i+off] and a.x[i+off] (array inside a scalar component) with lo,hi in a window; non-trivial = out-of-range or non-empty selections; "
                              "plus sampling of the assumed MX.__getitem__ contract",
                      "bound": "n <= 3 (1-D), 2x3 (2-D), window +-2"}))


def judge_position(template, k, n=3):
    """one subscript k on Real x[n] written at a position where no value of the model ever depends on it (a branch of an
    if-expression whose condition is known): out of range must still fail, in range must still generate"""
    txt = "model M Real x[%d]; Real y; Real s; equation x = fill(1.0, %d); s = 1; %s end M;" % (n, n, template.format(k=("(%d)" % k) if k < 0 else k))
    need_error = k < 1 or k > n
    try:
        gen(txt)
    except Exception as e:  # noqa
        if need_error:
            return None
        return {"class": "position", "input": txt, "observed": "%s: %s" % (type(e).__name__, str(e)[:100]), "expected": "a model (subscript %d lies in 1..%d)" % (k, n)}
    if need_error:
        return {"class": "position", "input": txt, "observed": "no error", "expected": "an error (subscript %d outside 1..%d)" % (k, n)}
    return None


POSITIONS = ["y = if false then x[{k}] else x[1];", "y = if true then x[1] else x[{k}];", "y = if 1 > 2 then x[{k}] else s;",
             "y = if s > 0 then x[1] elseif true then x[2] else x[{k}];", "y = if s > 0 then x[{k}] else x[1];",
             "y = if x[{k}] > 0 then 1 else 2;", "y = max(s, x[{k}]);"]


def sweep(tier, limit_first=False):
    failures, cases, distinct = [], 0, 0
    for template in POSITIONS:
        for k in range(-1, 6):
            cases += 1
            distinct += 1
            r = judge_position(template, k)
            if r:
                failures.append(r)
                if limit_first:
                    return failures, cases, distinct
    for n in (1, 2, 3):
        for s in subs_window(n, tier):
            cases += 1
            e = expected_elems(s, n)
            if e is None or e:
                distinct += 1
            r = judge_const([n], [s])
            if r:
                failures.append(r)
                if limit_first:
                    return failures, cases, distinct
    for n in (1, 3):
        for step in (-1, -2, 0):
            for a in range(0, n + 3):
                for b in range(-1, n + 2):
                    cases += 1
                    distinct += 1
                    r = judge_param_step(n, a, step, b)
                    if r:
                        failures.append(r)
                        if limit_first:
                            return failures, cases, distinct
    for k in range(-2, 6):
        cases += 1
        distinct += 1
        r = judge_param_array_subscript(k)
        if r:
            failures.append(r)
            if limit_first:
                return failures, cases, distinct
    dims = [2, 3]
    cand1 = [("int", i) for i in range(-1, 4)] + [("whole",), ("slice", 1, 2, 1), ("slice", 0, 1, 1), ("slice", 2, 3, 1), ("slice", 2, 1, 1)]
    cand2 = [("int", i) for i in range(-1, 5)] + [("whole",), ("slice", 1, 3, 1), ("slice", 0, 2, 1), ("slice", 2, 4, 1), ("slice", 1, 3, 2), ("slice", 3, 1, 1)]
    for s1 in cand1:
        for s2 in cand2:
            if s1[0] == "whole" and s2[0] == "whole":
                continue
            cases += 1
            distinct += 1
            r = judge_const(dims, [s1, s2])
            if r:
                failures.append(r)
                if limit_first:
                    return failures, cases, distinct
    for n in (2, 3):
        for lo in range(-1, n + 2):
            for hi in range(lo, n + 3):
                for off in ((0, 1, -1) if tier == "quick" else (0, 1, -1, 2)):
                    cases += 1
                    distinct += 1
                    for nested in (False, True):
                        if nested:
                            cases += 1
                        r = judge_loop(n, lo, hi, off, nested)
                        if r:
                            failures.append(r)
                            if limit_first:
                                return failures, cases, distinct
    return failures, cases, distinct


if __name__ == "__main__":
    main()
