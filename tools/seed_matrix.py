#!/usr/bin/env python3
"""Regenerate the table 'which check catches which change' in DESIGN.md (between the SEED-MATRIX markers) from a selftest log
(selftest/run.py output) and the seeds' meta.json.  usage: tools/seed_matrix.py <selftest.log>"""
import json, os, re, sys
V = os.path.dirname(os.path.dirname(os.path.abspath(__file__)))
log = open(sys.argv[1]).read().splitlines()
rows = {}
for l in log:
    m = re.match(r"^(C\d\d)\s+(\S+)\s+expect=(\S+)\s+got=(\S+)\s+(OK|MISMATCH)\s*(.*)$", l)
    if m:
        rows[(m.group(1), m.group(2))] = (m.group(3), m.group(4), m.group(5), m.group(6).strip())
out = ["| property | change | what it needs to manifest | verdict of `./check` | obligations that fail (first four) / bounded replay class |", "|---|---|---|---|---|"]
def short(t, n):
    t = " ".join(t.split())
    return t if len(t) <= n else t[: n - 1] + "…"
for (prop, name), (exp, got, ok, obl) in sorted(rows.items()):
    if not name.startswith("seeded/"):
        continue
    meta = json.load(open(os.path.join(V, name, "meta.json")))
    out.append("| %s | `%s`: %s | %s | %s%s | %s |" % (prop, name, short(meta.get("summary", ""), 230).replace("|", "/"), short(meta.get("needs_to_manifest", ""), 200).replace("|", "/"),
                                                   got, "" if ok == "OK" else " (**missed**)", obl.replace("|", "/") or "-"))
mut = {}
for (prop, name), (exp, got, ok, obl) in rows.items():
    if name.startswith("seeded/"):
        continue
    d = mut.setdefault(prop, [0, 0, 0, 0])
    d[0] += exp == "violation"; d[1] += exp == "violation" and ok == "OK"; d[2] += exp == "pass"; d[3] += exp == "pass" and ok == "OK"
out += ["", "Scripted mutants (selftest/mutants/*.json): property-breaking edits flagged / total, harmless refactorings passed / total:", ""]
out.append(", ".join("%s %d/%d + %d/%d" % (p, d[1], d[0], d[3], d[2]) for p, d in sorted(mut.items())))
path = os.path.join(V, "DESIGN.md")
s = open(path).read()
a, b = "<!-- SEED-MATRIX:BEGIN -->", "<!-- SEED-MATRIX:END -->"
assert a in s and b in s
s = s[: s.index(a) + len(a)] + "\n" + "\n".join(out) + "\n" + s[s.index(b):]
open(path, "w").write(s)
print("rows:", len(out))
