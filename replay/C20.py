"""C20 replay / bounded stand-in: histories of edits / additions / option changes / version changes with
explicit modification times against the real transfer_model (under /venv/bin/python)."""
import itertools
import json
import os
import shutil
import sys
import tempfile
import time


def model_text(k):
    return "model M\n  parameter Real p = %s;\n  Real x;\nequation\n  der(x) = -p * x + Lib.c;\nend M;\n" % k


def lib_text(c):
    return "package Lib\n  constant Real c = %s;\nend Lib;\n" % c


def fingerprint(m):
    import numpy as np
    f = m.dae_residual_function
    args = [0.3] + [np.arange(1, f.size1_in(i) + 1) * 0.5 for i in range(1, f.n_in())]
    res = np.array(f(*args)).reshape(-1).round(9).tolist()
    pv = [float(v.value) if not hasattr(v.value, "is_constant") else str(v.value) for v in m.parameters]
    cv = [str(v.value) for v in m.constants]
    return {"states": [v.symbol.name() for v in m.states], "alg": [v.symbol.name() for v in m.alg_states],
            "parameters": [v.symbol.name() for v in m.parameters], "pvals": pv, "cvals": cv, "residual": res}


class Scene:
    def __init__(self, tmp):
        self.tmp = tmp
        self.folder = os.path.join(tmp, "model")
        self.libs = {n: os.path.join(tmp, n) for n in ("libA", "libB")}
        os.mkdir(self.folder)
        for p in self.libs.values():
            os.mkdir(p)
        self.clock = time.time() - 100000
        self.write(os.path.join(self.folder, "M.mo"), model_text(2.0))
        self.write(os.path.join(self.libs["libA"], "Lib.mo"), lib_text(1.0))
        self.write(os.path.join(self.libs["libB"], "Lib.mo"), lib_text(5.0))
        self.options = {"library_folders": [self.libs["libA"]]}

    def tick(self):
        self.clock += 50
        return self.clock

    def write(self, path, text):
        with open(path, "w") as f:
            f.write(text)
        t = self.tick()
        os.utime(path, (t, t))

    def touch_cache(self):
        c = os.path.join(self.folder, "M.pymoca_cache")
        if os.path.exists(c):
            t = self.tick()
            os.utime(c, (t, t))

    def fresh(self):
        from pymoca.backends.casadi.api import transfer_model
        d = tempfile.mkdtemp(dir=self.tmp)
        for f in os.listdir(self.folder):
            if f.endswith(".mo"):
                shutil.copy(os.path.join(self.folder, f), d)
        o = dict(self.options)
        o["cache"] = False
        return fingerprint(transfer_model(d, "M", o))

    def cached(self):
        from pymoca.backends.casadi.api import transfer_model
        o = dict(self.options)
        o["cache"] = True
        c = os.path.join(self.folder, "M.pymoca_cache")
        before = os.path.getmtime(c) if os.path.exists(c) else None
        m = transfer_model(self.folder, "M", o)
        if os.path.exists(c) and os.path.getmtime(c) != before:
            self.touch_cache()   # (re)written now: give it "now" in the scene's clock
        return fingerprint(m)


def apply(scene, step, counter):
    import pymoca.backends.casadi.api as api
    if step == "edit-model":
        scene.write(os.path.join(scene.folder, "M.mo"), model_text(3.0 + counter))
    elif step == "edit-library":
        lib = scene.options["library_folders"][0]
        scene.write(os.path.join(lib, "Lib.mo"), lib_text(7.0 + counter))
    elif step == "add-file":
        scene.write(os.path.join(scene.folder, "Extra%d.mo" % counter), "model Extra%d Real z; equation z = %d; end Extra%d;\n" % (counter, counter, counter))
    elif step == "option":
        scene.options["replace_constant_values"] = not scene.options.get("replace_constant_values", False)
    elif step == "version":
        api.__version__ = "%s.changed%d" % (api.__version__.split(".changed")[0], counter)
    elif step == "switch-library":
        cur = scene.options["library_folders"][0]
        scene.options["library_folders"] = [scene.libs["libB"] if cur == scene.libs["libA"] else scene.libs["libA"]]
    elif step in ("future-edit-model", "future-edit-library"):
        # an edit whose mtime is far AHEAD of the clock (restored backup, clock skew): later edits still get later-than-cache mtimes
        path = os.path.join(scene.folder, "M.mo") if step.endswith("model") else os.path.join(scene.options["library_folders"][0], "Lib.mo")
        with open(path, "w") as f:
            f.write(model_text(11.0 + counter) if step.endswith("model") else lib_text(13.0 + counter))
        t = scene.clock + 36000
        os.utime(path, (t, t))
    elif step == "call":
        pass


def run_history(hist):
    import pymoca.backends.casadi.api as api
    v0 = api.__version__
    try:
        with tempfile.TemporaryDirectory() as tmp:
            sc = Scene(tmp)
            for k, step in enumerate(hist):
                apply(sc, step, k)
                try:
                    got = sc.cached()
                    want = sc.fresh()
                except BaseException as e:  # noqa
                    return {"observed": "%s: %s at step %d (%s)" % (type(e).__name__, str(e)[:100], k, step), "expected": "a model"}
                if got != want:
                    return {"observed": "step %d (%s): cached call returned %s" % (k, step, got), "expected": want}
    finally:
        api.__version__ = v0
    return None


STEPS = ["call", "edit-model", "edit-library", "add-file", "option", "version"]


def main():
    payload = json.load(sys.stdin)
    tier = payload.get("tier", "quick")
    if payload.get("mode") == "replay" and payload.get("obligation") == "accept.same_library_folders":
        bad = run_history(["call", "switch-library"])
        print(json.dumps({"performed": True, "reproduces": bad is not None, "input": ["call", "switch-library"],
                          "input_class": "differs-only-in-library_folders", **(bad or {})}))
        return
    depth = 3 if tier == "quick" else 4
    hists = [h for n in range(1, depth + 1) for h in itertools.product(STEPS, repeat=n)]
    if tier == "quick":
        hists = [h for h in hists if len(h) < 3 or (h[0] == "call" or h[1] == "call")]
    hists += [("future-edit-model", "edit-library"), ("call", "future-edit-model", "edit-model"), ("future-edit-library", "edit-model", "call"),
              ("call", "future-edit-library", "call", "edit-library"), ("future-edit-model", "call", "add-file")]
    failures, cases = [], 0
    for h in hists:
        cases += 1
        bad = run_history(list(h))
        if bad:
            failures.append({"class": "history", "input": list(h), **bad})
            if len(failures) >= 3:
                break
    if payload.get("mode") == "bounded":
        print(json.dumps({"performed": True, "cases": cases, "distinct_nontrivial": cases, "failures": failures,
                          "rule": "histories over {call, edit-model, edit-library, add-file, option change, version change} up to length %d with explicit, strictly increasing mtimes, plus histories in which one file carries an mtime far ahead of the clock before later edits; after every step the real transfer_model(cache=True) is compared with a fresh compile of the current sources and options (library folder switches are exercised by the replay of the known finding only)" % depth,
                          "bound": "length <= %d, one model" % depth}))
    else:
        f = failures[0] if failures else None
        print(json.dumps({"performed": True, "reproduces": f is not None, "input": f and f["input"], "observed": f and f["observed"],
                          "expected": f and f["expected"], "input_class": "history"}))


if __name__ == "__main__":
    main()
