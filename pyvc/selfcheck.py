"""CPython cross-check of the interpreter on concrete programs (engine validation, DESIGN 2.8)."""
import sys
from .engine import Engine
from .values import VList, VDict, VSet, PyRaise, VObj

SNIPPETS = r'''
class P:
    K = 3
    def __init__(self, a):
        self.a = a
        self.__h = a * 2
    def get(self):
        return self.__h + self.K
    @property
    def twice(self):
        return self.a * 2
    @staticmethod
    def st(x):
        return x + 1

class Q(P):
    def get(self):
        return super().get() + 100

def t1():
    xs = [3, 1, 2]
    ys = sorted(xs)
    d = {"a": 1}
    d["b"] = 2
    d.setdefault("c", []).append(5)
    s = {1, 2}
    s |= {2, 3}
    out = []
    for i, (k, v) in enumerate(d.items()):
        out.append((i, k, v))
    return ys, out, sorted(s), xs[::-1], xs[-1], "x" in d, [y * 2 for y in xs if y > 1]

def t2():
    p = Q(5)
    return p.get(), p.twice, P.st(4), isinstance(p, P), hasattr(p, "a"), hasattr(p, "zz"), getattr(p, "zz", 7)

def t3():
    r = []
    try:
        try:
            {}["k"]
        except IndexError:
            r.append("no")
        finally:
            r.append("fin")
    except KeyError as e:
        r.append("key")
    try:
        [][0]
    except (KeyError, IndexError):
        r.append("idx")
    else:
        r.append("else")
    try:
        raise ValueError("boom")
    except Exception as e:
        r.append(type(e).__name__)
    for i in range(5):
        if i == 1:
            continue
        if i == 3:
            break
        r.append(i)
    else:
        r.append("nobreak")
    n = 0
    while n < 3:
        n += 1
    r.append(n)
    return r

def t4():
    def outer(a):
        def inner(b):
            return a + b
        return inner
    f = outer(10)
    g = lambda x, y=2: x * y
    a, *b, c = [1, 2, 3, 4]
    s = "ab,cd".split(",")
    return f(5), g(3), g(3, y=3), a, b, c, s, "-".join(s), "x{}y{}".format(1, "z"), "%s=%d" % ("k", 3), f"{a}:{c}", "abc"[1:], "abc"[0], any([0, 1]), all([1, 0]), min(3, 1, 2), max([1, 5, 2]), sum([1, 2, 3]), abs(-2), len("abc"), tuple([1, 2]), list((1, 2)), dict(a=1), int("12"), str(5), bool([]), 7 // 2, 7 % 3, 2 ** 3, 1 / 2

def gen(n):
    for i in range(n):
        if i % 2:
            yield i

def t5():
    x = None
    y = x if x is not None else 3
    z = x or 4
    w = (1 and 0) or 9
    l = [1, 2, 3]
    l += [4]
    del l[0]
    l.insert(0, 9)
    m = l.pop()
    d = {1: 2, 3: 4}
    del d[1]
    e = dict(d)
    e.update({5: 6})
    t = (1, 2) + (3,)
    return y, z, w, l, m, d, e, t, list(gen(6)), list(zip([1, 2], "ab")), list(reversed([1, 2])), {k: v for k, v in [(1, 2)]}, slice(1, 2).stop, 1 < 2 < 3, 1 < 2 > 5, "a" if 0 else "b", not 3, -(-3), [1, 2] == [1, 2], (1, "a") == (1, "a"), None == 0, {1, 2} == {2, 1}
'''

def to_py(v):
    if isinstance(v, VList):
        return [to_py(x) for x in v.items]
    if isinstance(v, tuple):
        return tuple(to_py(x) for x in v)
    if isinstance(v, VDict):
        return {to_py(k): to_py(x) for k, x in zip(v.keys, v.vals)}
    if isinstance(v, VSet):
        return set(to_py(x) for x in v.items)
    return v

def main():
    ns = {}
    exec(SNIPPETS, ns)
    bad = 0
    for name in ("t1", "t2", "t3", "t4", "t5"):
        eng = Engine()
        eng.text_modules = {"snip": SNIPPETS}
        got = []
        def h(e):
            f = e.find_function("snip", name)
            got.append(to_py(e.call(f, [], {})))
        eng.explore(h, name)
        exp = ns[name]()
        if eng.undecided or not got or got[0] != exp:
            bad += 1
            print("MISMATCH", name, "\n  got", got, "\n  exp", exp, "\n  und", eng.undecided)
    print("selfcheck:", "OK" if not bad else "%d mismatches" % bad)
    return 1 if bad else 0

if __name__ == "__main__":
    sys.exit(main())
