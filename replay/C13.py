"""C13 replay / bounded stand-in: attribute expressions (literal / affine / bilinear / non-affine in the
parameters, scalars and arrays, Integer / Boolean variables) evaluated through the real generate():
Variable attributes and variable_metadata_function versus the declared expressions."""
import itertools
import json
import sys

import numpy as np

EXPRS = {  # text -> python evaluation over p1, p2, p3
    "2.5": lambda p: 2.5,
    "p1": lambda p: p[0],
    "p1 + p2": lambda p: p[0] + p[1],
    "3 * p1 - p3": lambda p: 3 * p[0] - p[2],
    "p1 * p2": lambda p: p[0] * p[1],
    "p1 * p2 + p3": lambda p: p[0] * p[1] + p[2],
    "p2 * p2": lambda p: p[1] * p[1],
    "sin(p1)": lambda p: np.sin(p[0]),
    "-(p1 + 1)": lambda p: -(p[0] + 1),
    "p1 + p3": lambda p: p[0] + p[2],
    "p2": lambda p: p[1],
    "p3 - p1": lambda p: p[2] - p[0],
}


def model(assign):
    """assign: dict (var, attr) -> expr text"""
    def mods(v):
        items = ["%s = %s" % (a, e) for (vv, a), e in assign.items() if vv == v]
        return "(" + ", ".join(items) + ")" if items else ""
    return "\n".join([
        "model M", "  parameter Real p1 = 1.0;", "  parameter Real p2 = 2.0;", "  parameter Real p3 = 3.0;",
        "  Real x%s;" % mods("x"), "  Real v[2]%s;" % mods("v"), "  Real y%s;" % mods("y"), "  input Real u%s;" % mods("u"),
        "  Integer n(start = 3, max = 7);", "  Boolean b(start = true);", "  Real d;",
        "equation", "  der(x) = -x + u;", "  v[1] = x; v[2] = 2 * x;", "  y = x * p1;", "  n = 2;", "  b = true;", "  d = 1;", "end M;"])


def evaluate(m, pvals):
    import casadi as ca
    f = m.variable_metadata_function
    out = f(ca.veccat(*pvals)) if m.parameters else f(ca.DM())
    cats = ["states", "alg_states", "inputs", "parameters", "constants"]
    return {c: np.array(o) for c, o in zip(cats, out)}


def attr_value(m, v, a, pvals):
    import casadi as ca
    val = getattr(v, a)
    if isinstance(val, ca.MX):
        f = ca.Function("a", [x.symbol for x in m.parameters], [val])
        return np.array(f(*pvals)).reshape(-1)
    return np.array(ca.DM(val)).reshape(-1) if not isinstance(val, (bool,)) else np.array([float(val)])


ATTR_COL = {"value": 0, "min": 1, "max": 2, "start": 3, "fixed": 4, "nominal": 5}
DEFAULTS = {"value": np.nan, "min": -np.inf, "max": np.inf, "start": 0.0, "fixed": 0.0, "nominal": 0.0}


def judge(assign, rng):
    import pymoca.parser
    from pymoca.backends.casadi.generator import generate
    txt = model(assign)
    m = generate(pymoca.parser.parse(txt), "M")
    rows = {}
    for c in ("states", "alg_states", "inputs", "parameters", "constants"):
        r = 0
        for v in getattr(m, c):
            rows[v.symbol.name()] = (c, r, v.symbol.numel(), v)
            r += v.symbol.numel()
    for trial in range(3):
        p = rng.uniform(0.5, 3.0, size=3)
        pvals = [float(x) for x in p]
        meta = evaluate(m, pvals)
        for name, (c, r, numel, v) in rows.items():
            if c == "parameters":
                continue
            for a, col in ATTR_COL.items():
                want = EXPRS[assign[(name, a)]](p) if (name, a) in assign else DEFAULTS[a]
                if name == "n" and a in ("start", "max"):
                    want = {"start": 3.0, "max": 7.0}[a]
                if name == "b" and a == "start":
                    want = 1.0
                got_m = meta[c][r:r + numel, col]
                got_v = attr_value(m, v, a, pvals)
                for got, src in ((got_m, "variable_metadata_function"), (got_v, "Variable.%s" % a)):
                    g = np.array(got, dtype=float).reshape(-1)
                    ok = np.all(np.isnan(g)) if np.isnan(want) else np.allclose(g, want, rtol=1e-9, atol=1e-12)
                    if not ok:
                        return txt, "%s of %s.%s at p=%s is %s" % (src, name, a, np.round(p, 4).tolist(), g.tolist()), "%r" % float(want)
    types_ok = [v.python_type.__name__ for v in m.alg_states if v.symbol.name() in ("n", "b")]
    n_var = rows["n"][3]
    if not (isinstance(n_var.start, int) and not isinstance(n_var.start, bool)):
        return txt, "Integer variable n has start %r of type %s" % (n_var.start, type(n_var.start).__name__), "a Python int"
    if rows["b"][3].python_type is not bool or rows["n"][3].python_type is not int:
        return txt, "python types %s" % types_ok, "int and bool"
    return txt, None, None


def judge_history(opts):
    """read the metadata function, simplify, read it again: the second read must agree with the Variable objects of the simplified model"""
    import casadi as ca
    import pymoca.parser
    from pymoca.backends.casadi.generator import generate
    from pymoca.backends.casadi._options import _merge_default_options
    if opts.get("expand_vectors") or opts.get("replace_parameter_values"):
        txt = ("model H parameter Real p = 2.0; Real s(start = 1.0); Real z[2,3](min = {{1,2,3},{4,5,6}}, max = {{11,12,13},{14,15,16}}); Real a(max = 7.0); Real c; "
               "equation der(s) = -s; z = fill(1.0, 2, 3) * s; a = s + p; c = 3; end H;")
    else:
        txt = ("model H parameter Real p = 2.0; Real s(start = 1.0, min = -5.0); Real a(max = 7.0, min = -2.0, nominal = 3.0); Real b(start = 4.0); Real c(max = 9.0); "
               "equation der(s) = -s; a = s; b = -a; c = 3; end H;")
    o = _merge_default_options(dict(opts))
    m = generate(pymoca.parser.parse(txt), "H", o)
    m.variable_metadata_function          # first read, before simplification
    m.simplify(o)
    f = m.variable_metadata_function      # second read
    pv = [float(ca.DM(v.value)) if not isinstance(v.value, ca.MX) else 2.0 for v in m.parameters]
    out = f(ca.veccat(*pv)) if m.parameters else f(ca.DM())
    cats = ["states", "alg_states", "inputs", "parameters", "constants"]
    for c, blk in zip(cats, out):
        blk = np.array(blk)
        r = 0
        for v in getattr(m, c):
            n_ = v.symbol.numel()
            for a, col in ATTR_COL.items():
                val = getattr(v, a)
                if isinstance(val, ca.MX):
                    if ca.symvar(val):
                        continue
                    val = ca.Function("c", [], [val])()["o0"]
                if isinstance(val, list):
                    val = np.array(val, dtype=float)
                want = np.array(float(val) if isinstance(val, (bool, int, float)) else np.array(ca.DM(val) if not isinstance(val, np.ndarray) else val), dtype=float).reshape(-1, order="F")
                got = blk[r:r + n_, col]
                want = np.resize(want, n_) if want.size == 1 else want
                ok = all((np.isnan(w) and np.isnan(g)) or w == g for w, g in zip(want, got))
                if blk.shape[0] < r + n_ or not ok:
                    return txt, "after simplify(%s): metadata function reports %s.%s = %s, the Variable object has %s" % (opts, v.symbol.name(), a, got.tolist(), want.tolist()), "agreement"
            r += n_
        if blk.shape[0] != r:
            return txt, "after simplify(%s): %s block has %d rows for %d variable elements" % (opts, c, blk.shape[0], r), "one row per element"
    return txt, None, None


def judge_computed_arrays(expand):
    """array attributes computed at generation time (cat / zeros / ones / diagonal products): every element at its own position,
    in the Variable object and in the metadata function"""
    import casadi as ca
    import pymoca.parser
    from pymoca.backends.casadi.generator import generate
    from pymoca.backends.casadi._options import _merge_default_options
    txt = ("model K Real z[2,2](min = cat(1, zeros(1,2), ones(1,2))); Real w[3,2](start = diagonal({1,2,3}) * ones(3,2)); "
           "Integer k[2,3](max = diagonal({5,7}) * ones(2,3)); Real lit[2,3](min = {{1,2,3},{4,5,6}}); "
           "equation z = fill(1.0, 2, 2); w = fill(2.0, 3, 2); k = fill(1, 2, 3); lit = fill(9.0, 2, 3); end K;")
    want = {"z": ("min", np.array([[0.0, 0.0], [1.0, 1.0]])), "w": ("start", np.array([[1.0, 1.0], [2.0, 2.0], [3.0, 3.0]])),
            "k": ("max", np.array([[5.0, 5.0, 5.0], [7.0, 7.0, 7.0]])), "lit": ("min", np.array([[1.0, 2.0, 3.0], [4.0, 5.0, 6.0]]))}
    o = _merge_default_options({"expand_vectors": True} if expand else {})
    m = generate(pymoca.parser.parse(txt), "K", o)
    if expand:
        m.simplify(o)
    blk = np.array(m.variable_metadata_function(ca.DM())[1])
    r = 0
    for v in m.alg_states:
        nm = v.symbol.name()
        base = nm.split("[")[0]
        a, W = want[base]
        if expand:
            idx = tuple(int(t) - 1 for t in nm[nm.index("[") + 1:-1].split(","))
            val = getattr(v, a)
            val = float(ca.DM(val)) if not isinstance(val, (int, float)) else float(val)
            if val != W[idx] or blk[r, ATTR_COL[a]] != W[idx]:
                return txt, "expand_vectors: %s.%s = %r, metadata row %r" % (nm, a, val, blk[r, ATTR_COL[a]]), "%r" % W[idx]
            r += 1
            continue
        val = getattr(v, a)
        M = np.array(val, dtype=float) if isinstance(val, list) else np.array(ca.DM(val))
        if M.shape != W.shape or not (M == W).all():
            return txt, "%s.%s of the Variable object is %s" % (nm, a, M.tolist()), "%s" % W.tolist()
        n_ = v.symbol.numel()
        G = blk[r:r + n_, ATTR_COL[a]].reshape(W.shape, order="F")
        if not (G == W).all():
            return txt, "metadata function reports %s.%s = %s" % (nm, a, G.tolist()), "%s" % W.tolist()
        r += n_
    return txt, None, None


def judge_matrix_expression_attributes():
    """a 2-D array whose attributes are matrix-valued EXPRESSIONS of parameters, expanded to scalars: element [i,j] reports the
    [i,j] entry of the expression, in the Variable object and in the metadata function"""
    import casadi as ca
    import pymoca.parser
    from pymoca.backends.casadi.generator import generate
    from pymoca.backends.casadi._options import _merge_default_options
    txt = ("model Q parameter Real p = 2; parameter Real A[2,3] = {{1,2,3},{4,5,6}}; parameter Real B[2,3] = {{7,8,9},{10,11,12}}; "
           "Real z[2,3](max = p * A, min = -A, start = B); equation z = fill(1.0, 2, 3); end Q;")
    o = _merge_default_options({"expand_vectors": True})
    m = generate(pymoca.parser.parse(txt), "Q", o)
    m.simplify(o)
    psyms = [q.symbol for q in m.parameters]
    pvals = []
    for q in m.parameters:
        nm = q.symbol.name()
        if nm == "p":
            pvals.append(2.0)
        else:
            i, j = (int(t) - 1 for t in nm[nm.index("[") + 1:-1].split(","))
            pvals.append(float({"A": 1, "B": 7}[nm[0]] + 3 * i + j))
    A = np.array([[1.0, 2, 3], [4, 5, 6]])
    B = A + 6
    want = {"max": 2 * A, "min": -A, "start": B}
    blk = np.array(m.variable_metadata_function(ca.veccat(*pvals))[1])
    for r, v in enumerate(m.alg_states):
        nm = v.symbol.name()
        idx = tuple(int(t) - 1 for t in nm[nm.index("[") + 1:-1].split(","))
        for a, W in want.items():
            val = getattr(v, a)
            got = float(ca.Function("f", psyms, [ca.MX(val)])(*pvals)) if not isinstance(val, (int, float)) else float(val)
            if got != W[idx] or blk[r, ATTR_COL[a]] != W[idx]:
                return txt, "expand_vectors: %s.%s evaluates to %r, metadata row %r" % (nm, a, got, blk[r, ATTR_COL[a]]), "%r" % W[idx]
    return txt, None, None


def judge_symbolic_matrix_literal():
    """an attribute written as a nested array LITERAL with symbolic entries on a square 2-D variable, expanded to scalars: element
    [i,j] reports entry j of the i-th inner literal"""
    import casadi as ca
    import pymoca.parser
    from pymoca.backends.casadi.generator import generate
    from pymoca.backends.casadi._options import _merge_default_options
    txt = "model Q2 parameter Real p = 2; Real Y[2,2](max = {{1 * p, 2 * p}, {3 * p, 4}}); equation Y = fill(1.0, 2, 2); end Q2;"
    o = _merge_default_options({"expand_vectors": True})
    m = generate(pymoca.parser.parse(txt), "Q2", o)
    m.simplify(o)
    psyms = [q.symbol for q in m.parameters]
    W = np.array([[2.0, 4.0], [6.0, 4.0]])
    blk = np.array(m.variable_metadata_function(ca.veccat(2.0))[1])
    for r, v in enumerate(m.alg_states):
        nm = v.symbol.name()
        idx = tuple(int(t) - 1 for t in nm[nm.index("[") + 1:-1].split(","))
        val = v.max
        got = float(ca.Function("f", psyms, [ca.MX(val)])(2.0)) if not isinstance(val, (int, float)) else float(val)
        if got != W[idx] or blk[r, ATTR_COL["max"]] != W[idx]:
            return txt, "expand_vectors: %s.max evaluates to %r, metadata row %r" % (nm, got, blk[r, ATTR_COL["max"]]), "%r" % W[idx]
    return txt, None, None


def main():
    payload = json.load(sys.stdin)
    tier, seed = payload.get("tier", "quick"), int(payload.get("seed", 0) or 0)
    rng = np.random.RandomState(seed + 13)
    ex = list(EXPRS)
    cases = []
    # all-allowed-ops models (so that the affine shortcut is taken when legitimate), with one bilinear attribute
    for e in ex:
        cases.append({("x", "max"): e, ("y", "min"): "p1 + p3", ("u", "nominal"): "p2"})
        cases.append({("v", "max"): e, ("x", "start"): "p1"})
    cases.append({("x", "min"): "p1 * p2", ("x", "max"): "p1 * p2 + p3", ("y", "start"): "p3 - p1", ("u", "max"): "p1 + p2"})
    cases.append({})
    for _ in range(10 if tier == "quick" else 150):
        a = {}
        for v in ("x", "v", "y", "u"):
            for at in ("min", "max", "start", "nominal"):
                if rng.rand() < 0.35:
                    a[(v, at)] = ex[rng.randint(len(ex))]
        cases.append(a)
    failures, n = [], 0
    for opts in ({"expand_vectors": True}, {"detect_aliases": True}, {"eliminate_constant_assignments": True}, {"replace_parameter_values": True},
                 {"expand_vectors": True, "detect_aliases": True, "replace_constant_values": True}):
        n += 1
        try:
            txt, obs, exp = judge_history(opts)
        except BaseException as e:  # noqa
            txt, obs, exp = "history model", "%s: %s" % (type(e).__name__, str(e)[:160]), "a model"
        if obs:
            failures.append({"class": "metadata", "input": txt, "observed": obs, "expected": exp})
    for expand in (False, True):
        n += 1
        try:
            txt, obs, exp = judge_computed_arrays(expand)
        except BaseException as e:  # noqa
            txt, obs, exp = "computed-array model", "%s: %s" % (type(e).__name__, str(e)[:160]), "a model"
        if obs:
            failures.append({"class": "metadata", "input": txt, "observed": obs, "expected": exp})
    n += 1
    try:
        txt, obs, exp = judge_symbolic_matrix_literal()
    except BaseException as e:  # noqa
        txt, obs, exp = "symbolic matrix literal model", "%s: %s" % (type(e).__name__, str(e)[:160]), "a model"
    if obs:
        failures.append({"class": "metadata", "input": txt, "observed": obs, "expected": exp})
    n += 1
    try:
        txt, obs, exp = judge_matrix_expression_attributes()
    except BaseException as e:  # noqa
        txt, obs, exp = "matrix-expression model", "%s: %s" % (type(e).__name__, str(e)[:160]), "a model"
    if obs:
        failures.append({"class": "metadata", "input": txt, "observed": obs, "expected": exp})
    for a in cases:
        n += 1
        try:
            txt, obs, exp = judge(a, rng)
        except BaseException as e:  # noqa
            txt, obs, exp = model(a), "%s: %s" % (type(e).__name__, str(e)[:120]), "a model"
        if obs:
            failures.append({"class": "metadata", "input": txt, "observed": obs, "expected": exp})
            if len(failures) >= 3:
                break
    if payload.get("mode") == "bounded":
        print(json.dumps({"performed": True, "cases": n, "distinct_nontrivial": n, "failures": failures,
                          "rule": "attributes of scalar / array / input variables set to literal, affine, bilinear (p1*p2), quadratic and non-polynomial expressions of three parameters, systematically and at random (seed %d); Variable attributes and variable_metadata_function are evaluated at 3 random parameter vectors and compared with the declared expressions; defaults and Python types checked; 2-D array attributes computed at generation time (cat/zeros/ones/diagonal products) and a 2-D matrix literal compared element by element, with and without expand_vectors; plus histories read / simplify(options) / read, where the second read must agree with the simplified model's Variable objects" % seed,
                          "bound": "%d models x 3 parameter vectors" % n}))
    else:
        f = failures[0] if failures else None
        print(json.dumps({"performed": True, "reproduces": f is not None, "input": f and f["input"], "observed": f and f["observed"],
                          "expected": f and f["expected"], "input_class": "metadata"}))


if __name__ == "__main__":
    main()
