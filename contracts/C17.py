"""C17 -- AliasRelation is a signed equivalence under any operation history.

Contracts on every method of the REAL class pymoca.backends.casadi.alias_relation.AliasRelation
(DESIGN.md section 4/C17 and Appendix B).  State model: z3 arrays over uninterpreted sorts
Name (valid signed names) and Ref (set objects); the heap H maps set objects to their contents, so
in-place `|=` on a shared set object is seen through every key bound to it.

wf is content-based where the original Appendix-B draft was identity-based: `copy()` gives every
key its own set object, so "all members map to the same object" is NOT an invariant of the class;
"all members map to objects with the same content" is, and `add` re-establishes it because its loop
re-points every member of the merged class.
"""
import z3

from pyvc.engine import LoopSpec
from pyvc.values import Ext, PyRaise, Unsupported, VDict, VObj, VSet, VSlice, stub, VBound

MOD = "pymoca.backends.casadi.alias_relation"
Name = z3.DeclareSort("Name")
Ref = z3.DeclareSort("Ref")
NSet = z3.ArraySort(Name, z3.BoolSort())
tog = z3.Function("tog", Name, Name)
neg = z3.Function("neg", Name, z3.BoolSort())
_x = z3.Const("x_", Name)
# Leaf facts: each is PROVED from the real bodies of __toggle_sign/__is_negative over z3 strings
# (harness `leaf`), then used abstractly (callers only see the callee contract).
LEAF = [z3.ForAll([_x], tog(tog(_x)) == _x), z3.ForAll([_x], tog(_x) != _x),
        z3.ForAll([_x], neg(tog(_x)) == z3.Not(neg(_x)))]


def strip(n):
    return z3.If(neg(n), tog(n), n)


EMPTY = z3.K(Name, False)


class NameV(Ext):
    """a valid signed variable name"""
    type_names = ("str",)

    def __init__(self, t):
        self.t = t

    def sym_eq(self, eng, other):
        if isinstance(other, NameV):
            return self.t == other.t
        return False

    def sym_getitem(self, eng, key):
        # a[1:] -- by leaf lemma `strip`: neg(a) => a[1:] == tog(a); requires neg(a)
        if isinstance(key, VSlice) and key.start == 1 and key.stop is None and key.step is None:
            eng.prove("name[1:].requires_negative", neg(self.t))
            return NameV(tog(self.t))
        raise Unsupported("string operation on an abstract name outside the leaf functions")


def nm(v):
    if isinstance(v, NameV):
        return v.t
    raise Unsupported("expected a variable name, got %r" % (v,))


class Heap:
    """contents of set objects + allocation.  A new object is a reference that no key of any
    AliasRelation state in scope is bound to and that differs from every object allocated earlier
    on this path (freshness); the content of unallocated references is unconstrained."""

    def __init__(self, eng, tag):
        self.H = eng.fresh("H_" + tag, z3.ArraySort(Ref, NSet))
        self.states = []
        self.allocated = []   # (ref, condition under which it really was allocated)

    def unused(self, r):
        k = z3.Const("kf", Name)
        return z3.And([z3.ForAll([k], z3.Implies(s.A_dom[k], s.A_val[k] != r)) for s in self.states])

    def fresh_ref(self, eng, cond=True):
        r = eng.fresh("r", Ref)
        facts = [self.unused(r)] + [z3.Implies(c, r != r2) if c is not True else r != r2 for r2, c in self.allocated]
        eng.assume(z3.And(facts) if cond is True else z3.Implies(cond, z3.And(facts)))
        self.allocated.append((r, cond))
        return r

    def alloc(self, eng, content):
        r = self.fresh_ref(eng)
        self.H = z3.Store(self.H, r, content)
        return SetRef(self, r)


class SetSnapshot:
    def __init__(self, heap, ref, S):
        self.heap, self.ref, self.S = heap, ref, S

    def ghost_empty(self, eng):
        return EMPTY

    def ghost_fresh(self, eng):
        d = eng.fresh("done", NSet)
        k = z3.Const("kd", Name)
        eng.assume(z3.ForAll([k], z3.Implies(d[k], self.S[k])))
        return d

    def pick(self, eng, done):
        v = eng.fresh("v", Name)
        eng.assume(self.S[v])
        eng.assume(z3.Not(done[v]))
        return NameV(v)

    def ghost_add(self, eng, done, elem):
        return z3.Store(done, elem.t, True)

    def ghost_is_all(self, eng, done):
        return done == self.S

    def unmodified(self, eng):
        return True if self.ref is None else self.heap.H[self.ref] == self.S


class SetRef(Ext):
    """a Python set object holding names, identified by a heap reference"""
    type_names = ("set",)

    def __init__(self, heap, ref):
        self.heap, self.ref = heap, ref

    def content(self):
        return self.heap.H[self.ref]

    def sym_contains(self, eng, x):
        return self.content()[nm(x)]

    def sym_inplace(self, eng, op, other):
        if op == "BitOr":
            self.heap.H = z3.Store(self.heap.H, self.ref, union(eng, self.content(), set_content(eng, other)))
            return self
        if op in ("Sub", "BitAnd", "BitXor"):
            self.heap.H = z3.Store(self.heap.H, self.ref, setop(eng, self.content(), set_content(eng, other), op))
            return self
        return NotImplemented

    def sym_binop(self, eng, op, other, reflected):
        if op == "BitOr":
            return self.heap.alloc(eng, union(eng, self.content(), set_content(eng, other)))
        if op in ("Sub", "BitAnd", "BitXor"):
            a, b = (set_content(eng, other), self.content()) if reflected else (self.content(), set_content(eng, other))
            return self.heap.alloc(eng, setop(eng, a, b, op))
        raise Unsupported("set operator %s" % op)

    def sym_eq(self, eng, other):
        if isinstance(other, SetRef):
            return self.content() == other.content()
        return False

    def sym_getattr(self, eng, name):
        if name == "copy":
            return stub(lambda eng: self.heap.alloc(eng, self.content()))
        if name == "discard":
            def discard(eng, x):
                self.heap.H = z3.Store(self.heap.H, self.ref, z3.Store(self.content(), nm(x), False))
            return stub(discard)
        if name == "add":
            def add(eng, x):
                self.heap.H = z3.Store(self.heap.H, self.ref, z3.Store(self.content(), nm(x), True))
            return stub(add)
        if name == "remove":
            def remove(eng, x):
                if not eng.branch(self.content()[nm(x)]):
                    raise PyRaise(eng.make_exc("KeyError", "x"))
                self.heap.H = z3.Store(self.heap.H, self.ref, z3.Store(self.content(), nm(x), False))
            return stub(remove)
        ops = {"union": "BitOr", "intersection": "BitAnd", "difference": "Sub", "symmetric_difference": "BitXor"}
        if name in ops:
            def pure(eng, *others):
                c = self.content()
                for o in others:
                    c = setop(eng, c, set_content(eng, o), ops[name])
                return self.heap.alloc(eng, c)
            return stub(pure)
        ups = {"update": "BitOr", "intersection_update": "BitAnd", "difference_update": "Sub", "symmetric_difference_update": "BitXor"}
        if name in ups:
            def upd(eng, *others):
                for o in others:
                    self.heap.H = z3.Store(self.heap.H, self.ref, setop(eng, self.content(), set_content(eng, o), ups[name]))
            return stub(upd)
        raise Unsupported("set method %s" % name)

    def loop_snapshot(self, eng):
        return SetSnapshot(self.heap, self.ref, self.content())


def setop(eng, a, b, op):
    """a | b, a & b, a - b as a fresh array with a quantified definition"""
    u = eng.fresh("S", NSet)
    k = z3.Const("ks", Name)
    body = {"BitOr": z3.Or(a[k], b[k]), "BitAnd": z3.And(a[k], b[k]), "Sub": z3.And(a[k], z3.Not(b[k])), "BitXor": z3.Xor(a[k], b[k])}[op]
    eng.assume(z3.ForAll([k], u[k] == body))
    return u


def union(eng, a, b):
    """set union as a fresh array with a quantified definition (the `map` combinator is slow in
    z3 and unknown to cvc5)"""
    u = eng.fresh("U", NSet)
    k = z3.Const("ku", Name)
    eng.assume(z3.ForAll([k], u[k] == z3.Or(a[k], b[k])))
    return u


def set_content(eng, v):
    if isinstance(v, SetRef):
        return v.content()
    if isinstance(v, VSet):
        c = EMPTY
        for x in v.items:
            c = z3.Store(c, nm(x), True)
        return c
    if isinstance(v, CanonSet):
        return v.st.C
    raise Unsupported("expected a set of names")


class ARState:
    """abstract state of one AliasRelation instance"""
    FIELDS = {"A_dom": NSet, "A_val": z3.ArraySort(Name, Ref), "M_dom": NSet,
              "M_c": z3.ArraySort(Name, Name), "M_s": z3.ArraySort(Name, z3.IntSort()), "C": NSet}

    def __init__(self, eng, heap, tag, empty=False):
        self.heap = heap
        for f, s in self.FIELDS.items():
            setattr(self, f, eng.fresh(f + "_" + tag, s))
        if empty:
            self.A_dom = self.M_dom = self.C = EMPTY

    def snapshot(self):
        c = ARState.__new__(ARState)
        c.heap = None
        for f in self.FIELDS:
            setattr(c, f, getattr(self, f))
        c.H = self.heap.H
        return c

    def Hc(self):
        return self.heap.H if self.heap is not None else self.H


def cl(s, a, b):
    """b is in the set stored for key a"""
    return s.Hc()[s.A_val[a]][b]


def view(s, a, m):
    return z3.If(s.A_dom[a], cl(s, a, m), m == a)


def wf(s, live=None):
    live = None
    k, m = z3.Consts("k m", Name)
    H = s.Hc()
    cs = [
        z3.ForAll([k], z3.Implies(s.A_dom[k], cl(s, k, k))),
        z3.ForAll([k, m], z3.Implies(z3.And(s.A_dom[k], cl(s, k, m)),
                                     z3.And(s.A_dom[m], H[s.A_val[m]] == H[s.A_val[k]]))),
        z3.ForAll([k], z3.Implies(s.A_dom[k], s.A_dom[tog(k)])),
        z3.ForAll([k, m], z3.Implies(s.A_dom[k], cl(s, k, m) == cl(s, tog(k), tog(m)))),
        z3.ForAll([k], z3.Implies(s.A_dom[k], z3.Not(cl(s, k, tog(k))))),
        z3.ForAll([k], z3.Implies(s.A_dom[k], z3.Exists([m], z3.And(m != k, cl(s, k, m))))),
        z3.ForAll([k], s.M_dom[k] == s.A_dom[k]),
        z3.ForAll([k], z3.Implies(s.A_dom[k], z3.And(
            z3.Not(neg(s.M_c[k])), z3.Or(s.M_s[k] == 1, s.M_s[k] == -1)))),
        z3.ForAll([k], z3.Implies(s.A_dom[k], s.C[s.M_c[k]])),
        z3.ForAll([k], z3.Implies(s.A_dom[k], cl(s, k, z3.If(s.M_s[k] == 1, s.M_c[k], tog(s.M_c[k]))))),
        z3.ForAll([k, m], z3.Implies(z3.And(s.A_dom[k], cl(s, k, m)),
                                     z3.And(s.M_c[m] == s.M_c[k], s.M_s[m] == s.M_s[k]))),
        z3.ForAll([k], z3.Implies(s.A_dom[k], z3.And(s.M_c[tog(k)] == s.M_c[k], s.M_s[tog(k)] == -s.M_s[k]))),
        z3.ForAll([k, m], z3.Implies(z3.And(s.A_dom[k], s.A_dom[m], s.M_c[k] == s.M_c[m]),
                                     z3.Or(cl(s, k, m), cl(s, k, tog(m))))),
        z3.ForAll([k], z3.Implies(s.C[k], z3.And(s.A_dom[k], s.M_c[k] == k, s.M_s[k] == 1))),
    ]
    if live is not None:
        cs.append(z3.ForAll([k], z3.Implies(s.A_dom[k], live[s.A_val[k]])))
    return cs


WF_NAMES = ["self_member", "members_same_content", "dom_closed_toggle", "toggle_image", "no_self_negation",
            "non_trivial", "map_dom", "canonical_unsigned", "canonical_in_set", "canonical_member", "canonical_class_constant", "canonical_toggle",
            "canonical_distinct", "canonical_set", "live"]


class AliasesMap(Ext):
    """self._aliases : dict name -> set object"""
    type_names = ("dict",)

    def __init__(self, st):
        self.st = st

    def sym_contains(self, eng, k):
        return self.st.A_dom[nm(k)]

    def sym_getitem(self, eng, k):
        if not eng.branch(self.st.A_dom[nm(k)]):
            raise PyRaise(eng.make_exc("KeyError", "key"))
        return SetRef(self.st.heap, self.st.A_val[nm(k)])

    def sym_setitem(self, eng, k, v):
        if isinstance(v, VSet):
            v = self.st.heap.alloc(eng, set_content(eng, v))
        if not isinstance(v, SetRef):
            raise Unsupported("_aliases value is not a set")
        self.st.A_dom = z3.Store(self.st.A_dom, nm(k), True)
        self.st.A_val = z3.Store(self.st.A_val, nm(k), v.ref)

    def sym_delitem(self, eng, k):
        if not eng.branch(self.st.A_dom[nm(k)]):
            raise PyRaise(eng.make_exc("KeyError", "key"))
        self.st.A_dom = z3.Store(self.st.A_dom, nm(k), False)

    def sym_getattr(self, eng, name):
        if name == "items":
            return stub(lambda eng: AliasesItems(self.st))
        raise Unsupported("dict method %s on _aliases" % name)


class AliasesItems(Ext):
    def __init__(self, st):
        self.st = st

    def loop_snapshot(self, eng):
        return ItemsSnapshot(self.st)


class ItemsSnapshot(SetSnapshot):
    def __init__(self, st):
        self.st = st
        self.dom0, self.val0 = st.A_dom, st.A_val
        SetSnapshot.__init__(self, st.heap, None, st.A_dom)

    def pick(self, eng, done):
        v = SetSnapshot.pick(self, eng, done)
        return (v, SetRef(self.heap, self.val0[v.t]))

    def ghost_add(self, eng, done, elem):
        return z3.Store(done, elem[0].t, True)

    def unmodified(self, eng):
        return z3.And(self.st.A_dom == self.dom0, self.st.A_val == self.val0)


class CanonMap(Ext):
    """self._canonical_variables_map : name -> (canonical name, sign)"""
    type_names = ("dict", "OrderedDict")

    def __init__(self, st):
        self.st = st

    def sym_contains(self, eng, k):
        return self.st.M_dom[nm(k)]

    def sym_getitem(self, eng, k):
        if not eng.branch(self.st.M_dom[nm(k)]):
            raise PyRaise(eng.make_exc("KeyError", "key"))
        return (NameV(self.st.M_c[nm(k)]), self.st.M_s[nm(k)])

    def sym_setitem(self, eng, k, v):
        if not (isinstance(v, tuple) and len(v) == 2):
            raise Unsupported("canonical map value is not a pair")
        from pyvc.ops import to_arith
        self.st.M_dom = z3.Store(self.st.M_dom, nm(k), True)
        self.st.M_c = z3.Store(self.st.M_c, nm(k), nm(v[0]))
        self.st.M_s = z3.Store(self.st.M_s, nm(k), to_arith(v[1]))

    def sym_delitem(self, eng, k):
        if not eng.branch(self.st.M_dom[nm(k)]):
            raise PyRaise(eng.make_exc("KeyError", "key"))
        self.st.M_dom = z3.Store(self.st.M_dom, nm(k), False)

    def sym_getattr(self, eng, name):
        st = self.st
        if name == "copy":
            return stub(lambda eng: CanonMapValue(self.st.M_dom, self.st.M_c, self.st.M_s))
        if name in ("get", "setdefault"):
            def get(eng, k, default=None):
                from pyvc.ops import to_arith
                kk = nm(k)
                if default is None or not (isinstance(default, tuple) and len(default) == 2):
                    if name == "setdefault":
                        raise Unsupported("canonical map setdefault without a (name, sign) default")
                    if not eng.branch(st.M_dom[kk]):
                        return default
                    return (NameV(st.M_c[kk]), st.M_s[kk])
                known, dc, ds = st.M_dom[kk], nm(default[0]), to_arith(default[1])
                res = (NameV(z3.If(known, st.M_c[kk], dc)), z3.If(known, st.M_s[kk], ds))
                if name == "setdefault":            # stores the default under a key it does not hold yet
                    st.M_c = z3.If(known, st.M_c, z3.Store(st.M_c, kk, dc))
                    st.M_s = z3.If(known, st.M_s, z3.Store(st.M_s, kk, ds))
                    st.M_dom = z3.Store(st.M_dom, kk, True)
                return res
            return stub(get)
        if name in ("items", "keys", "values"):
            return stub(lambda eng: CanonMapView(st, name))
        raise Unsupported("dict method %s on canonical map" % name)

    def loop_snapshot(self, eng):
        return CanonMapView(self.st, "keys").loop_snapshot(eng)


class CanonMapView(Ext):
    """items() / keys() / values() of the canonical map, iterated in some order"""

    def __init__(self, st, what):
        self.st, self.what = st, what

    def loop_snapshot(self, eng):
        st, what = self.st, self.what
        dom0, c0, s0 = st.M_dom, st.M_c, st.M_s

        class Snap(SetSnapshot):
            def pick(s, eng, done):
                v = SetSnapshot.pick(s, eng, done)
                pair = (NameV(c0[v.t]), s0[v.t])
                s.last = v
                return {"keys": v, "values": pair, "items": (v, pair)}[what]

            def ghost_add(s, eng, done, elem):
                return z3.Store(done, s.last.t, True)

            def unmodified(s, eng):
                return z3.And(st.M_dom == dom0, st.M_c == c0, st.M_s == s0)
        return Snap(st.heap, None, dom0)


class CanonMapValue(Ext):
    """an independent dict object (result of .copy()) with the given contents"""
    type_names = ("dict", "OrderedDict")

    def __init__(self, dom, c, s):
        self.dom, self.c, self.s = dom, c, s


class CanonSet(Ext):
    """self._canonical_variables : set of names"""
    type_names = ("set",)

    def __init__(self, st):
        self.st = st

    def sym_contains(self, eng, x):
        return self.st.C[nm(x)]

    def sym_getattr(self, eng, name):
        st = self.st
        if name == "add":
            def add(eng, x):
                st.C = z3.Store(st.C, nm(x), True)
            return stub(add)
        if name == "discard":
            def discard(eng, x):
                st.C = z3.Store(st.C, nm(x), False)
            return stub(discard)
        if name == "remove":
            def remove(eng, x):
                if not eng.branch(st.C[nm(x)]):
                    raise PyRaise(eng.make_exc("KeyError", "x"))
                st.C = z3.Store(st.C, nm(x), False)
            return stub(remove)
        if name == "copy":
            return stub(lambda eng: CanonSetValue(st.C))
        if name in ("difference_update", "update", "intersection_update"):
            op = {"difference_update": "Sub", "update": "BitOr", "intersection_update": "BitAnd"}[name]

            def upd(eng, other):
                st.C = setop(eng, st.C, set_content(eng, other), op)
            return stub(upd)
        raise Unsupported("set method %s on canonical set" % name)

    def sym_inplace(self, eng, op, other):
        if op in ("Sub", "BitOr", "BitAnd", "BitXor"):
            self.st.C = setop(eng, self.st.C, set_content(eng, other), op)
            return self
        return NotImplemented

    def sym_binop(self, eng, op, other, reflected):
        if op in ("Sub", "BitOr", "BitAnd", "BitXor"):
            a, b = (set_content(eng, other), self.st.C) if reflected else (self.st.C, set_content(eng, other))
            return self.st.heap.alloc(eng, setop(eng, a, b, op))
        raise Unsupported("set operator %s on canonical set" % op)

    def loop_snapshot(self, eng):
        outer = self

        class Snap(SetSnapshot):
            def unmodified(s, eng):
                return outer.st.C == s.S
        return Snap(self.st.heap, None, self.st.C)


class CanonSetValue(Ext):
    type_names = ("set",)

    def __init__(self, C):
        self.C = C


# ---------------------------------------------------------------------------------------------
class Ctx:
    """everything one harness run needs"""

    def __init__(self, eng, with_callee_contracts=True):
        self.eng = eng
        eng.qf_feasibility_only = True
        eng.ext_modules["collections"] = CollectionsStub()
        self.cls = eng.module_global(eng.load_module(MOD), "AliasRelation")
        self.heap = Heap(eng, "0")
        self.st = ARState(eng, self.heap, "pre")
        self.heap.states.append(self.st)
        self.obj = self.make_obj(self.st)
        for ax in LEAF:
            eng.assume(ax)
        for nme, c in zip(WF_NAMES, wf(self.st)):
            eng.assume(c)
            if nme == "non_trivial":
                eng.c17_nt = eng.pc[-1]
        self.pre = self.st.snapshot()
        eng.call_contracts.clear()
        eng.loop_specs.clear()
        if with_callee_contracts:
            self.install_callee_contracts()

    def make_obj(self, st):
        o = VObj(self.cls)
        o.fields["_aliases"] = AliasesMap(st)
        o.fields["_canonical_variables_map"] = CanonMap(st)
        o.fields["_canonical_variables"] = CanonSet(st)
        o.ar_state = st
        return o

    def name(self, label):
        return NameV(self.eng.input(label, self.eng.fresh(label, Name)))

    def method(self, name):
        f = self.eng.find_function(MOD, "AliasRelation." + name)
        return f

    def install_callee_contracts(self):
        eng = self.eng

        def st_of(selfobj):
            return selfobj.ar_state

        def c_aliases(eng, args, kwargs):
            # non-branching form: known key -> the stored object, else a new object holding {a}
            s, a = st_of(args[0]), nm(args[1])
            hp = s.heap
            known = s.A_dom[a]
            r = hp.fresh_ref(eng, z3.Not(known))
            eng.assume(z3.If(known, r == s.A_val[a], hp.H[r] == z3.Store(EMPTY, a, True)))
            return SetRef(hp, r)

        def c_canonical_signed(eng, args, kwargs):
            s, a = st_of(args[0]), nm(args[1])
            return (NameV(z3.If(s.M_dom[a], s.M_c[a], strip(a))),
                    z3.If(s.M_dom[a], s.M_s[a], z3.If(neg(a), z3.IntVal(-1), z3.IntVal(1))))

        def c_toggle(eng, args, kwargs):
            return NameV(tog(nm(args[-1])))

        def c_is_negative(eng, args, kwargs):
            return neg(nm(args[-1]))

        eng.call_contracts["AliasRelation.aliases"] = c_aliases
        eng.call_contracts["AliasRelation.canonical_signed"] = c_canonical_signed
        eng.call_contracts["AliasRelation.__toggle_sign"] = c_toggle
        eng.call_contracts["AliasRelation.__is_negative"] = c_is_negative


class CollectionsStub(Ext):
    def sym_getattr(self, eng, name):
        if name == "OrderedDict":
            from pyvc.builtins import b_ordered_dict
            return b_ordered_dict
        raise Unsupported("collections.%s" % name)


def prove_wf(eng, prefix, st, live):
    """wf of the post-state, clause by clause.  The existential clause (non_trivial) of the
    pre-state is left out of the context of every other clause: it is irrelevant to them and its
    Skolem function makes E-matching diverge."""
    for nme, c in zip(WF_NAMES, wf(st, live)):
        if nme == "non_trivial":
            eng.prove("%s.wf.%s" % (prefix, nme), c)
        else:
            eng.prove("%s.wf.%s" % (prefix, nme), c, context=[x for x in eng.pc if not x.eq(eng.c17_nt)])


def state_fields(st):
    return [(f, getattr(st, f)) for f in ARState.FIELDS] + [("H", st.heap.H)]


# ---------------------------------------------------------------------------------------------
def h_add(eng):
    """add(a, b)  requires  not cls(tog a, b)  [the property's hypothesis]."""
    cx = Ctx(eng)
    a, b = cx.name("a"), cx.name("b")
    st, p = cx.st, cx.pre
    eng.assume(z3.Not(view(p, tog(a.t), b.t)))
    eng.assume(a.t != tog(b.t))

    # closed forms (in terms of the inputs and the pre-state only, so that renaming locals of
    # `add` does not disturb the proof): merged class, merged toggled class, resulting canonical
    inA = lambda q: z3.Or(view(p, a.t, q), view(p, b.t, q))
    inIA = lambda q: z3.Or(view(p, tog(a.t), q), view(p, tog(b.t), q))
    q_ = z3.Const("q_", Name)
    SA, SIA = eng.fresh("SA", NSet), eng.fresh("SIA", NSet)
    eng.assume(z3.ForAll([q_], SA[q_] == inA(q_)))
    eng.assume(z3.ForAll([q_], SIA[q_] == inIA(q_)))
    ca = z3.If(p.M_dom[a.t], p.M_c[a.t], strip(a.t))
    sa = z3.If(p.M_dom[a.t], p.M_s[a.t], z3.If(neg(a.t), z3.IntVal(-1), z3.IntVal(1)))

    def inv1(eng, frame, done):
        k = z3.Const("ki", Name)
        q = frame.ghost_pre
        H = cx.heap.H
        return z3.And(frame.ghost_iter == SA, z3.ForAll([k], z3.And(
            z3.Implies(done[k], z3.And(st.A_dom[k], H[st.A_val[k]] == SA)),
            z3.Implies(done[tog(k)], z3.And(st.A_dom[k], H[st.A_val[k]] == SIA)),
            z3.Implies(z3.And(z3.Not(done[k]), z3.Not(done[tog(k)])),
                       z3.And(st.A_dom[k] == q.A_dom[k], st.A_val[k] == q.A_val[k])))))

    def prep1(eng, frame):
        frame.ghost_pre = st.snapshot()
        frame.ghost_iter = frame.cur_iter.content()

    def havoc1(eng, frame):
        st.A_dom = eng.fresh("A_dom_h", NSet)
        st.A_val = eng.fresh("A_val_h", ARState.FIELDS["A_val"])

    def inv2(eng, frame, done):
        k = z3.Const("kj", Name)
        q = frame.ghost_pre2
        return z3.And(frame.ghost_iter2 == SA, z3.ForAll([k], z3.And(
            z3.Implies(done[k], z3.And(st.M_dom[k], st.M_c[k] == ca, st.M_s[k] == sa)),
            z3.Implies(done[tog(k)], z3.And(st.M_dom[k], st.M_c[k] == ca, st.M_s[k] == -sa)),
            z3.Implies(z3.And(z3.Not(done[k]), z3.Not(done[tog(k)])),
                       z3.And(st.M_dom[k] == q.M_dom[k], st.M_c[k] == q.M_c[k], st.M_s[k] == q.M_s[k])))))

    def prep2(eng, frame):
        frame.ghost_pre2 = st.snapshot()
        frame.ghost_iter2 = frame.cur_iter.content()

    def havoc2(eng, frame):
        st.M_dom = eng.fresh("M_dom_h", NSet)
        st.M_c = eng.fresh("M_c_h", ARState.FIELDS["M_c"])
        st.M_s = eng.fresh("M_s_h", ARState.FIELDS["M_s"])

    ff = lambda eng, frame: state_fields(st)
    eng.loop_specs[("AliasRelation.add", "#1")] = LoopSpec("add.loop1", inv1, havoc1, ff, prep1)
    eng.loop_specs[("AliasRelation.add", "#2")] = LoopSpec("add.loop2", inv2, havoc2, ff, prep2)

    def on_assert(eng, node, frame, cond):
        eng.prove("add.assert_line", cond)
    eng.assert_hook = on_assert
    try:
        r = eng.call(VBound(cx.method("add"), cx.obj), [a, b], {})
    except PyRaise as e:
        eng.prove("add.no_exception", False, exc=repr(e.exc))
        return
    finally:
        eng.assert_hook = None
    eng.cover("add.exit")
    n, m = z3.Consts("n m", Name)
    post = st.snapshot()
    view_post = z3.ForAll([n, m], view(post, n, m) ==
                          z3.If(inA(n), inA(m), z3.If(inIA(n), inIA(m), view(p, n, m))))
    if not eng.loops_exited:
        # early return: nothing stored changed; prove directly
        prove_wf(eng, "add", st, None)
        eng.prove("add.ensures.view", view_post)
        ctx = None
    else:
        # main path: closed form of the post-state first (cuts, proved in the full context),
        # then wf and the view from the cuts alone
        k = z3.Const("kc", Name)
        cb = z3.If(p.M_dom[b.t], p.M_c[b.t], strip(b.t))
        outside = lambda q: z3.And(z3.Not(inA(q)), z3.Not(inIA(q)))
        cuts = [
            ("merged_class_keys", z3.ForAll([k], z3.Implies(inA(k), z3.And(post.A_dom[k], post.H[post.A_val[k]] == SA)))),
            ("merged_toggled_keys", z3.ForAll([k], z3.Implies(inIA(k), z3.And(post.A_dom[k], post.H[post.A_val[k]] == SIA)))),
            ("other_keys", z3.ForAll([k], z3.Implies(outside(k), z3.And(
                post.A_dom[k] == p.A_dom[k], post.A_val[k] == p.A_val[k],
                z3.Implies(p.A_dom[k], post.H[p.A_val[k]] == p.H[p.A_val[k]]))))),
            ("merged_class_canon", z3.ForAll([k], z3.Implies(inA(k), z3.And(post.M_dom[k], post.M_c[k] == ca, post.M_s[k] == sa)))),
            ("merged_toggled_canon", z3.ForAll([k], z3.Implies(inIA(k), z3.And(post.M_dom[k], post.M_c[k] == ca, post.M_s[k] == -sa)))),
            ("other_canon", z3.ForAll([k], z3.Implies(outside(k), z3.And(
                post.M_dom[k] == p.M_dom[k], post.M_c[k] == p.M_c[k], post.M_s[k] == p.M_s[k])))),
            ("canonical_set", post.C == z3.Store(z3.Store(p.C, ca, True), cb, False)),
            ("disjoint", z3.ForAll([k], z3.Not(z3.And(inA(k), inIA(k))))),
            ("toggle_swaps", z3.ForAll([k], inA(k) == inIA(tog(k)))),
            ("canonicals_differ", ca != cb),
            ("ca_unsigned_member", z3.And(z3.Not(neg(ca)), z3.Or(sa == 1, sa == -1),
                                          SA[z3.If(sa == 1, ca, tog(ca))], z3.Or(inA(ca), inIA(ca)))),
            ("outside_canon_kept", z3.ForAll([k], z3.Implies(z3.And(outside(k), p.A_dom[k]),
                                                             z3.And(p.M_c[k] != cb, p.M_c[k] != ca)))),
            ("old_canonicals", z3.ForAll([k], z3.Implies(p.C[k], z3.Or(k == cb, k == ca, outside(k))))),
        ]
        for nme, c in cuts:
            eng.prove("add.cut." + nme, c)
        ctx = LEAF + wf(p) + [z3.ForAll([q_], SA[q_] == inA(q_)), z3.ForAll([q_], SIA[q_] == inIA(q_)),
                              z3.Not(view(p, tog(a.t), b.t)), a.t != tog(b.t), z3.Not(view(p, a.t, b.t))]
        ctx += [c for _, c in cuts]
        eng.prove("add.cut.not_already_aliases", z3.Not(view(p, a.t, b.t)))
        nt_pre = wf(p)[WF_NAMES.index("non_trivial")]
        for nme, c in zip(WF_NAMES, wf(post)):
            # the existential clause is only needed for its own preservation
            eng.prove("add.wf." + nme, c, context=ctx if nme == "non_trivial" else [x for x in ctx if not x.eq(nt_pre)])
            if nme != "non_trivial":
                ctx = ctx + [c]
        eng.prove("add.ensures.view", view_post, context=ctx)
    # (P) least: any signed equivalence Q containing the old view and (a,b) contains the new view
    Q = z3.Function("Q", Name, Name, z3.BoolSort())
    x, y, w = z3.Consts("x y w", Name)
    qax = [z3.ForAll([x], Q(x, x)), z3.ForAll([x, y], z3.Implies(Q(x, y), Q(y, x))),
           z3.ForAll([x, y, w], z3.Implies(z3.And(Q(x, y), Q(y, w)), Q(x, w))),
           z3.ForAll([x, y], z3.Implies(Q(x, y), Q(tog(x), tog(y)))),
           z3.ForAll([x, y], z3.Implies(view(p, x, y), Q(x, y))), Q(a.t, b.t)]
    eng.prove("add.lemma.least_equivalence", z3.ForAll([n, m], z3.Implies(
        z3.If(inA(n), inA(m), z3.If(inIA(n), inIA(m), view(p, n, m))), Q(n, m))),
        context=LEAF + wf(p) + qax)


def h_remove(eng):
    cx = Ctx(eng)
    a = cx.name("a")
    st, p = cx.st, cx.pre

    def prep(eng, frame):
        frame.ghost_pre = st.snapshot()

    def inv(eng, frame, done):
        k = z3.Const("kr", Name)
        q = frame.ghost_pre
        return z3.ForAll([k], z3.And(
            z3.Implies(done[k], z3.And(z3.Not(st.A_dom[k]), z3.Not(st.M_dom[k]))),
            z3.Implies(z3.Not(done[k]), z3.And(st.A_dom[k] == q.A_dom[k], st.M_dom[k] == q.M_dom[k])),
            st.A_val[k] == q.A_val[k], st.M_c[k] == q.M_c[k], st.M_s[k] == q.M_s[k]))

    def havoc(eng, frame):
        for f in ("A_dom", "A_val", "M_dom", "M_c", "M_s"):
            setattr(st, f, eng.fresh(f + "_h", ARState.FIELDS[f]))

    eng.loop_specs[("AliasRelation.remove", "#1")] = LoopSpec(
        "remove.loop", inv, havoc, lambda eng, frame: state_fields(st), prep)
    try:
        eng.call(VBound(cx.method("remove"), cx.obj), [a], {})
    except PyRaise as e:
        eng.prove("remove.no_exception", False, exc=repr(e.exc))
        return
    eng.cover("remove.exit")
    prove_wf(eng, "remove", st, None)
    n, m = z3.Consts("n m", Name)
    gone = lambda q: z3.Or(view(p, a.t, q), view(p, tog(a.t), q))
    # (P) a canonical: its class and the toggled class become singletons; else nothing changes
    eng.prove("remove.ensures.view", z3.ForAll([n, m], view(st, n, m) == z3.If(
        z3.And(p.C[a.t], gone(n)), m == n, view(p, n, m))))


def h_aliases(eng):
    """body of aliases() against the contract its callers use"""
    cx = Ctx(eng, with_callee_contracts=False)
    a = cx.name("a")
    st, p = cx.st, cx.pre
    r = eng.call(VBound(cx.method("aliases"), cx.obj), [a], {})
    eng.cover("aliases.exit")
    m = z3.Const("m", Name)
    content = set_content(eng, r)
    eng.prove("aliases.ensures.whole_class", z3.ForAll([m], content[m] == view(p, a.t, m)))
    if isinstance(r, SetRef):
        eng.prove("aliases.ensures.is_stored_object", z3.And(p.A_dom[a.t], r.ref == p.A_val[a.t]))
    else:
        eng.prove("aliases.ensures.fresh_when_unknown", z3.Not(p.A_dom[a.t]))
    for f, t in state_fields(st):
        eng.prove("aliases.frame." + f, t == (getattr(p, f) if f != "H" else p.H))


def h_canonical_signed(eng):
    cx = Ctx(eng, with_callee_contracts=False)
    cx.eng.call_contracts["AliasRelation.__is_negative"] = lambda eng, args, kw: neg(nm(args[-1]))
    a, b = cx.name("a"), cx.name("b")
    st, p = cx.st, cx.pre
    from pyvc.ops import to_arith
    ca, sa = eng.call(VBound(cx.method("canonical_signed"), cx.obj), [a], {})
    cb, sb = eng.call(VBound(cx.method("canonical_signed"), cx.obj), [b], {})
    eng.cover("canonical_signed.exit")
    ca, cb, sa, sb = nm(ca), nm(cb), to_arith(sa), to_arith(sb)
    eng.prove("canonical_signed.ensures.contract", z3.And(
        ca == z3.If(p.M_dom[a.t], p.M_c[a.t], strip(a.t)),
        sa == z3.If(p.M_dom[a.t], p.M_s[a.t], z3.If(neg(a.t), -1, 1))))
    # (P) every member of a class gets the same canonical name and sign; the negation gets the
    # same name and the opposite sign; the canonical name is unsigned and is the member s*c
    eng.prove("canonical_signed.ensures.class_constant", z3.Implies(view(p, a.t, b.t), z3.And(ca == cb, sa == sb)))
    eng.prove("canonical_signed.ensures.toggle_flips", z3.Implies(view(p, a.t, tog(b.t)), z3.And(ca == cb, sa == -sb)))
    eng.prove("canonical_signed.ensures.unsigned_member", z3.And(
        z3.Not(neg(ca)), z3.Or(sa == 1, sa == -1), view(p, a.t, z3.If(sa == 1, ca, tog(ca)))))
    eng.prove("canonical_signed.ensures.distinct_classes_distinct_names", z3.Implies(
        z3.And(ca == cb), z3.Or(view(p, a.t, b.t), view(p, a.t, tog(b.t)))))
    for f, t in state_fields(st):
        eng.prove("canonical_signed.frame." + f, t == (getattr(p, f) if f != "H" else p.H))


def h_iter(eng):
    cx = Ctx(eng)
    st, p = cx.st, cx.pre
    yielded = []

    def inv(eng, frame, done):
        return z3.BoolVal(True)

    def havoc(eng, frame):
        # the body allocates and edits a private copy only: H changes at objects no key is bound to
        cx.heap.H = eng.fresh("H_h", z3.ArraySort(Ref, NSet))
        j = z3.Const("jh", Name)
        eng.assume(z3.ForAll([j], z3.Implies(p.A_dom[j], cx.heap.H[p.A_val[j]] == frame.ghost_H[p.A_val[j]])))

    def prep(eng, frame):
        frame.ghost_H = cx.heap.H
        frame.yielded = YieldProbe(eng, cx, frame)

    def ff(eng, frame):
        return [(f, getattr(st, f)) for f in ARState.FIELDS]

    class YieldProbe(list):
        def __init__(self, eng, cx, frame):
            self.frame = frame

        def append(self, val):
            # per-iteration obligation (P): the entry is (c, class(c) minus c) for the picked c
            c, s = val
            m = z3.Const("m", Name)
            eng.prove("iter.ensures.entry_is_canonical", p.C[nm(c)])
            eng.prove("iter.ensures.entry_is_class_minus_self", z3.ForAll(
                [m], set_content(eng, s)[m] == z3.And(view(p, nm(c), m), m != nm(c))))
            j = z3.Const("jy", Name)
            eng.prove("iter.ensures.yielded_set_is_private", z3.ForAll([j], z3.Implies(p.A_dom[j], p.A_val[j] != s.ref)))
            list.append(self, val)

    eng.loop_specs[("AliasRelation.__iter__", "#1")] = LoopSpec("iter.loop", inv, havoc, ff, prep,
                                                              locals_written=("aliases",))
    f = cx.method("__iter__")
    eng.call(VBound(f, cx.obj), [], {})
    eng.cover("iter.exit")
    # (P) one entry per non-trivial class pair: iteration is over the canonical set (each element
    # once), and wf says canonical names and class pairs correspond one to one
    k, m = z3.Consts("k m", Name)
    eng.prove("iter.lemma.one_canonical_per_class", z3.ForAll([k], z3.Implies(
        p.A_dom[k], z3.Exists([m], z3.And(p.C[m], z3.Or(view(p, k, m), view(p, k, tog(m))))))))
    eng.prove("iter.lemma.canonicals_in_distinct_classes", z3.ForAll([k, m], z3.Implies(
        z3.And(p.C[k], p.C[m], k != m), z3.And(z3.Not(view(p, k, m)), z3.Not(view(p, k, tog(m)))))))
    for fl, t in state_fields(st):
        if fl != "H":
            eng.prove("iter.frame." + fl, t == getattr(p, fl))
    j = z3.Const("jf", Name)
    eng.prove("iter.frame.H_of_stored_objects", z3.ForAll([j], z3.Implies(p.A_dom[j], cx.heap.H[p.A_val[j]] == p.H[p.A_val[j]])))


def h_copy(eng):
    cx = Ctx(eng)
    st, p = cx.st, cx.pre
    holder = {}

    def prep(eng, frame):
        cp = frame.locals["copy"]
        if not isinstance(cp, VObj):
            raise Unsupported("copy is not an AliasRelation instance")
        al = cp.fields.get("_aliases")
        if not (isinstance(al, VDict) and not al.keys):
            raise Unsupported("copy._aliases is not an empty dict before the loop")
        st2 = ARState(eng, cx.heap, "cp", empty=True)
        cx.heap.states.append(st2)
        cm, cs = cp.fields.get("_canonical_variables_map"), cp.fields.get("_canonical_variables")
        if not isinstance(cm, CanonMapValue) or not isinstance(cs, CanonSetValue):
            raise Unsupported("copy's canonical containers are not copies")
        st2.M_dom, st2.M_c, st2.M_s, st2.C = cm.dom, cm.c, cm.s, cs.C
        cp.fields["_aliases"] = AliasesMap(st2)
        cp.fields["_canonical_variables_map"] = CanonMap(st2)
        cp.fields["_canonical_variables"] = CanonSet(st2)
        cp.ar_state = st2
        holder["st2"] = st2
        frame.ghost_H = cx.heap.H

    def inv(eng, frame, done):
        st2 = holder["st2"]
        k, j = z3.Consts("kc jc", Name)
        return z3.And(
            z3.ForAll([k], st2.A_dom[k] == done[k]),
            z3.ForAll([k], z3.Implies(done[k], cx.heap.H[st2.A_val[k]] == frame.ghost_H[st.A_val[k]])),
            z3.ForAll([k, j], z3.Implies(z3.And(done[k], st.A_dom[j]), st2.A_val[k] != st.A_val[j])),
            z3.ForAll([j], z3.Implies(st.A_dom[j], cx.heap.H[st.A_val[j]] == frame.ghost_H[st.A_val[j]])))

    def havoc(eng, frame):
        st2 = holder["st2"]
        st2.A_dom = eng.fresh("A2_dom_h", NSet)
        st2.A_val = eng.fresh("A2_val_h", ARState.FIELDS["A_val"])
        cx.heap.H = eng.fresh("H_h", z3.ArraySort(Ref, NSet))

    def ff(eng, frame):
        st2 = holder["st2"]
        return state_fields(st) [:-1] + [("cp." + f, getattr(st2, f)) for f in ARState.FIELDS] + [("H", cx.heap.H)]

    eng.loop_specs[("AliasRelation.copy", "#1")] = LoopSpec("copy.loop", inv, havoc, ff, prep)
    res = eng.call(VBound(cx.method("copy"), cx.obj), [], {})
    eng.cover("copy.exit")
    if not isinstance(res, VObj) or "st2" not in holder or res.ar_state is not holder["st2"]:
        raise Unsupported("copy() did not return the new instance")
    st2 = holder["st2"]
    prove_wf(eng, "copy", st2, None)
    n, m = z3.Consts("n m", Name)
    # (P) equal view, equal canonical data
    eng.prove("copy.ensures.same_view", z3.ForAll([n, m], view(st2, n, m) == view(p, n, m)))
    eng.prove("copy.ensures.same_canonicals", z3.And(st2.C == p.C, st2.M_dom == p.M_dom, z3.ForAll(
        [n], z3.Implies(p.M_dom[n], z3.And(st2.M_c[n] == p.M_c[n], st2.M_s[n] == p.M_s[n])))))
    # (P) evolves independently: no set object of the copy is a set object of the source (or any
    # object that existed before), the three containers are new objects, the source is unchanged
    eng.prove("copy.ensures.no_shared_set_object", z3.ForAll([n, m], z3.Implies(
        z3.And(st2.A_dom[n], p.A_dom[m]), st2.A_val[n] != p.A_val[m])))
    f2 = res.fields
    eng.prove("copy.ensures.containers_are_new_objects", z3.BoolVal(
        f2["_aliases"].st is st2 and f2["_canonical_variables_map"].st is st2 and f2["_canonical_variables"].st is st2
        and st2 is not st))
    for fl, t in state_fields(st):
        if fl != "H":
            eng.prove("copy.frame.source." + fl, t == getattr(p, fl))
    eng.prove("copy.frame.source.H", z3.ForAll([n], z3.Implies(p.A_dom[n], cx.heap.H[p.A_val[n]] == p.H[p.A_val[n]])))


def h_init(eng):
    """__init__ establishes wf with an empty view"""
    eng.ext_modules["collections"] = CollectionsStub()
    eng.call_contracts.clear()
    eng.loop_specs.clear()
    cls = eng.module_global(eng.load_module(MOD), "AliasRelation")
    eng.find_function(MOD, "AliasRelation.__init__")
    o = eng.call(cls, [], {})
    eng.cover("init.exit")
    ok = (isinstance(o.fields.get("_aliases"), VDict) and not o.fields["_aliases"].keys
          and isinstance(o.fields.get("_canonical_variables_map"), VDict) and not o.fields["_canonical_variables_map"].keys
          and isinstance(o.fields.get("_canonical_variables"), VSet) and not o.fields["_canonical_variables"].items)
    eng.prove("init.ensures.empty_relation", z3.BoolVal(ok))
    objs = [o.fields.get(f) for f in ("_aliases", "_canonical_variables_map", "_canonical_variables")]
    eng.prove("init.ensures.three_distinct_containers", z3.BoolVal(len({id(x) for x in objs}) == 3))


def h_leaf(eng):
    """leaf lemmas about the REAL __toggle_sign / __is_negative on z3 strings (valid names:
    non-empty, not "-" alone, at most one leading "-")."""
    eng.call_contracts.clear()
    eng.loop_specs.clear()
    cls = eng.module_global(eng.load_module(MOD), "AliasRelation")
    o = VObj(cls)
    tg = eng.find_function(MOD, "AliasRelation.__toggle_sign")
    ng = eng.find_function(MOD, "AliasRelation.__is_negative")
    v = eng.input("v", eng.fresh_str("v"))
    dash = z3.StringVal("-")

    def valid(s):
        return z3.And(z3.Length(s) >= 1, z3.Implies(z3.SubString(s, 0, 1) == dash, z3.And(
            z3.Length(s) >= 2, z3.SubString(s, 1, 1) != dash)))
    eng.assume(valid(v))
    try:
        t = eng.call(VBound(tg, o), [v], {})
        n_v = eng.truth(eng.call(ng, [v], {}), sym=True)
        from pyvc.ops import to_z3
        t = to_z3(t)
        eng.prove("leaf.toggle_valid", valid(t))
        tt = to_z3(eng.call(VBound(tg, o), [t], {}))
        n_t = eng.truth(eng.call(ng, [t], {}), sym=True)
    except PyRaise as e:
        eng.prove("leaf.no_exception", False, exc=repr(e.exc))
        return
    eng.cover("leaf.exit")
    eng.prove("leaf.toggle_involution", tt == v)
    eng.prove("leaf.toggle_no_fixpoint", t != v)
    eng.prove("leaf.toggle_flips_sign", z3.Xor(_b(n_v), _b(n_t)))
    eng.prove("leaf.negative_iff_leading_dash", _b(n_v) == (z3.SubString(v, 0, 1) == dash))
    eng.prove("leaf.strip_is_toggle_when_negative", z3.Implies(_b(n_v), z3.SubString(v, 1, z3.Length(v) - 1) == t))


def _b(x):
    return z3.BoolVal(x) if isinstance(x, bool) else x


HARNESSES = [("AliasRelation.__init__", h_init), ("AliasRelation.__toggle_sign/__is_negative", h_leaf),
             ("AliasRelation.aliases", h_aliases), ("AliasRelation.canonical_signed", h_canonical_signed),
             ("AliasRelation.add", h_add), ("AliasRelation.remove", h_remove),
             ("AliasRelation.__iter__", h_iter), ("AliasRelation.copy", h_copy)]

EXPECTED_COVER = {"init.exit", "leaf.exit", "aliases.exit", "canonical_signed.exit", "add.exit", "remove.exit",
                  "iter.exit", "copy.exit"}
BOUNDED = True
LEVEL = "proof"
TRUSTED = ["pyvc VC generator (ast -> z3) and its model of dict/set/heap", "z3 5.1.0 / cvc5 1.0.3 / z3 4.8.12",
           "CPython semantics of dict, set, str slicing as encoded (A1-A7)"]
ASSUMPTIONS = [
    "variable names are valid signed names (non-empty, not '-' alone, at most one leading '-'): precondition of every method",
    "add(a, b) is only called when b is not in the class of -a and a != -b (the property's hypothesis 'never relates a variable to its own negation')",
    "induction over the operation history is the meta-argument: __init__ establishes wf, every method preserves wf and moves the view by its spec function",
    "generator __iter__ is evaluated eagerly (the contract speaks about the yielded entries, not about laziness)",
    "a new set object is a heap reference no key is bound to; contents of unallocated references are unconstrained",
]
EXPLANATION = ("Representation invariant wf (13 clauses) + whole-view postconditions on every method of the real "
               "AliasRelation, unbounded in history length and universe size; leaf string lemmas on the real "
               "__toggle_sign/__is_negative.")
MANIFEST = {
    "category": "proof",
    "text": "Every method of the real AliasRelation class is verified against a representation invariant (13 clauses) and whole-view postconditions by symbolic execution of the source and z3; unbounded in history length and universe size, so the property's history quantifier is decided by induction over operations rather than by sampling sequences. A bounded exhaustive replay on the real class (labelled bounded) runs beside it and supplies concrete failing histories. Obligations that every solver leaves unknown are re-instantiated over 4- and 6-element universes to obtain a counter-model (refutation only).",
    "note": "Trusted: the pyvc VC generator and its heap/set/dict model, z3/cvc5, validity of names (non-empty, at most one leading '-') and the hypothesis that add never relates a variable to its own negation; generator __iter__ evaluated eagerly; termination not proved.",
    "technique": "contract-based deductive verification: sidecar contracts + loop invariants on the real source, VCs by symbolic execution, discharged by z3/cvc5",
}
