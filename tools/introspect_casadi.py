"""Interface facts of the installed CasADi (run under /venv/bin/python by the check): which names exist on MX, and which functions the casadi module itself offers."""
import json, sys
import casadi as ca
x = ca.MX.sym("x")
print(json.dumps({"casadi_version": ca.__version__, "mx_attributes": sorted(n for n in dir(x)), "module_functions": sorted(n for n in dir(ca) if not n.startswith("_") and callable(getattr(ca, n)) and not isinstance(getattr(ca, n), type))}))
