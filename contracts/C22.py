"""C22 -- delay durations are validated and delay arguments preserved.

Under contract (real source):
  Model._post_checks                       raises iff a duration depends on a disallowed symbol
  Generator.exitExpression, `delay` branch (fragment) delay_states / inputs / delay_arguments grow in lock step
  Model.delay_arguments_function           output list is [e1, d1, e2, d2, ...]
  api._compile_model                       _post_checks is called on the compiled model
CasADi expressions are modelled by their set of free symbols (an arbitrary set per expression):
assumed contract  depends_on(e, S) <=> symvar(e) intersects S ; veccat / vertcat = union.
"""
import ast

import z3

from pyvc import ops
from pyvc.values import Ext, NoOp, PyRaise, Unsupported, VBound, VClass, VDict, VList, VObj, VSet, stub

MODEL = "pymoca.backends.casadi.model"
GEN = "pymoca.backends.casadi.generator"
API = "pymoca.backends.casadi.api"
Sym = z3.DeclareSort("Sym")
SSet = z3.ArraySort(Sym, z3.BoolSort())
EMPTY = z3.K(Sym, False)


class MXS(Ext):
    """a CasADi expression, abstracted to its set of free symbols"""
    type_names = ("MX",)

    def __init__(self, deps, label="e"):
        self.deps, self.label = deps, label

    def sym_getattr(self, eng, name):
        if name == "is_constant":
            return stub(lambda eng: self.deps == EMPTY)
        if name == "is_symbolic":
            return stub(lambda eng: bool(getattr(self, "symbolic", False)))
        if name == "name":
            return stub(lambda eng: self.label)
        if name == "size":
            return stub(lambda eng: (1, 1))
        raise Unsupported("MX.%s" % name)


def union(eng, parts):
    out = EMPTY
    x = z3.Const("xs", Sym)
    for p in parts:
        if isinstance(p, MXS):
            u = eng.fresh("U", SSet)
            eng.assume(z3.ForAll([x], u[x] == z3.Or(out[x], p.deps[x])))
            out = u
        elif p is None or isinstance(p, (int, float)):
            continue
        else:
            raise Unsupported("union of %r" % (p,))
    return out


def casadi_stub(eng):
    from contracts.api_common import ModuleStub
    mx = VClass("MX")
    mx.constructor = lambda eng, c, a, k: a[0] if isinstance(a[0], MXS) else MXS(EMPTY, "const")

    def cat(eng, *parts):
        return MXS(union(eng, parts), "cat")

    def depends_on(eng, e, s):
        x = z3.Const("xd", Sym)
        return z3.Exists([x], z3.And(e.deps[x], s.deps[x]))
    fn = VClass("Function")
    fn.constructor = lambda eng, c, a, k: VObj(c, {"name": a[0], "inputs": a[1], "outputs": a[2]})
    return ModuleStub("casadi", {"MX": mx, "veccat": stub(cat), "vertcat": stub(cat), "depends_on": stub(depends_on),
                                 "Function": fn, "symvar": stub(lambda eng, e: VList([]))})


def install(eng):
    from contracts.api_common import ModuleStub, CollectionsStub

    def chain_from_iterable(eng, seqs):
        out = []
        for s in eng.iterate(seqs):
            out.extend(eng.iterate(s))
        return VList(out)
    chain = stub(lambda eng, *a: VList([x for s in a for x in eng.iterate(s)]))
    chain_obj = ChainStub(chain_from_iterable)
    typing = ModuleStub("typing", {})
    typing.attrs.update({k: typing for k in ("Dict", "Iterable", "Union", "List", "Optional")})
    eng.ext_modules.update({"casadi": casadi_stub(eng), "numpy": ModuleStub("numpy", {"nan": float("nan"), "inf": float("inf")}),
                            "logging": ModuleStub("logging", {"getLogger": stub(lambda eng, *a: NoOp())}),
                            "itertools": ModuleStub("itertools", {"chain": chain_obj}), "re": ModuleStub("re", {}),
                            "sys": ModuleStub("sys", {"maxsize": 2 ** 63 - 1}), "collections": CollectionsStub(), "typing": typing})
    # stubs a previous harness installed in place of repo modules must not leak into the next one
    for k in ("pymoca.backends.casadi.generator", "pymoca.parser", "pymoca"):
        eng.ext_modules.pop(k, None)
    eng.call_contracts.clear()
    eng.loop_specs.clear()


class ChainStub(Ext):
    def __init__(self, from_iterable):
        self.fi = from_iterable

    def sym_call(self, eng, args, kwargs):
        return VList([x for s in args for x in eng.iterate(s)])

    def sym_getattr(self, eng, name):
        if name == "from_iterable":
            return stub(self.fi)
        raise Unsupported("chain.%s" % name)


SHAPES = [  # (n delays, states, der_states, alg_states, inputs)
    (1, 1, 1, 1, 1), (2, 1, 1, 0, 2), (2, 0, 0, 1, 1), (1, 0, 0, 0, 0), (3, 1, 1, 1, 1),
]


def h_post_checks(eng):
    install(eng)
    mm = eng.load_module(MODEL)
    cls = eng.module_global(mm, "Model")
    f = eng.find_function(MODEL, "Model._post_checks")
    nd, ns, nds, na, ni = SHAPES[eng.choice(len(SHAPES))]
    eng.input("shape(delays,states,der_states,alg_states,inputs)", [nd, ns, nds, na, ni])
    symbols = []

    def var(label, fixed=None):
        s = eng.fresh(label, Sym)
        symbols.append(s)
        v = VObj(VClass("Variable"), {"symbol": MXS(z3.Store(EMPTY, s, True), label)})
        if fixed is not None:
            v.fields["fixed"] = fixed
        v.sym = s
        return v
    tsym = eng.fresh("time", Sym)
    symbols.append(tsym)
    states = [var("x%d" % i) for i in range(ns)]
    ders = [var("dx%d" % i) for i in range(nds)]
    algs = [var("a%d" % i) for i in range(na)]
    inputs = [var("u%d" % i, eng.input("u%d.fixed" % i, eng.fresh_bool("fixed%d" % i))) for i in range(ni)]
    eng.assume(z3.Distinct(symbols)) if len(symbols) > 1 else None
    durs = [eng.fresh("D%d" % i, SSet) for i in range(nd)]
    dargs = VList([VObj(VClass("DelayArgument"), {"expr": MXS(eng.fresh("E%d" % i, SSet)), "duration": MXS(durs[i], "dur%d" % i)}) for i in range(nd)])
    m = VObj(cls, {"time": MXS(z3.Store(EMPTY, tsym, True), "time"), "states": VList(states), "der_states": VList(ders),
                   "alg_states": VList(algs), "inputs": VList(inputs), "delay_states": VList(["_pymoca_delay_%d" % i for i in range(nd)]),
                   "delay_arguments": dargs})
    raised = None
    try:
        eng.call(VBound(f, m), [], {})
        raised = False
    except PyRaise as e:
        raised = e.exc.cls.name if isinstance(e.exc, VObj) else "?"
    eng.cover("post.raises" if raised else "post.returns")
    # (P) rejected exactly when some duration depends on time, a state, a derivative, an algebraic
    # variable or an input that is not fixed
    x = z3.Const("xq", Sym)
    dis = [x == tsym] + [x == v.sym for v in states + ders + algs] + [z3.And(x == v.sym, z3.Not(ops.to_z3(v.fields["fixed"]))) for v in inputs]
    bad = z3.Or([z3.Exists([x], z3.And(d[x], z3.Or(dis))) for d in durs])
    if raised:
        eng.prove("post.rejection_is_a_ValueError", z3.BoolVal(raised == "ValueError"))
        eng.prove("post.rejects_only_disallowed_dependencies", bad)
    else:
        eng.prove("post.accepts_only_allowed_dependencies", z3.Not(bad))


def h_no_delays(eng):
    install(eng)
    mm = eng.load_module(MODEL)
    cls = eng.module_global(mm, "Model")
    f = eng.find_function(MODEL, "Model._post_checks")
    m = VObj(cls, {"delay_states": VList([]), "delay_arguments": VList([])})
    try:
        eng.call(VBound(f, m), [], {})
    except PyRaise as e:
        eng.prove("post.model_without_delays_accepted", False)
        return
    eng.cover("post.nodelay")
    eng.prove("post.model_without_delays_accepted", True)


def delay_branch(fn):
    """body of the `elif op == "delay" and n_operands == 2:` branch of exitExpression"""
    for n in ast.walk(fn):
        if isinstance(n, ast.If):
            t = n.test
            for c in ast.walk(t):
                if isinstance(c, ast.Compare) and isinstance(c.left, ast.Name) and c.left.id == "op" and \
                        isinstance(c.comparators[0], ast.Constant) and c.comparators[0].value == "delay":
                    return n.body
    raise KeyError("delay branch")


def h_delay_translation(eng):
    install(eng)
    gm = eng.load_module(GEN)
    n0 = eng.input("delay_counter_before", eng.fresh_int("n"))
    eng.assume(n0 >= 0)
    k = eng.choice(3)   # existing entries
    eng.input("existing_delays", k)
    var_cls = eng.module_global(gm, "Variable")
    var_cls.constructor = lambda eng, c, a, kw: VObj(c, {"symbol": a[0]})
    da_cls = VClass("DelayArgument")
    da_cls.constructor = lambda eng, c, a, kw: VObj(c, {"expr": a[0], "duration": a[1]})
    gm.globals["DelayArgument"] = da_cls
    model = VObj(VClass("Model"), {"delay_states": VList(["old%d" % i for i in range(k)]),
                                   "inputs": VList([VObj(var_cls, {"symbol": MXS(EMPTY, "oldin%d" % i)}) for i in range(k + 1)]),
                                   "delay_arguments": VList([VObj(da_cls, {}) for i in range(k)])})
    e_expr, e_dur = MXS(eng.fresh("E", SSet), "expr"), MXS(eng.fresh("D", SSet), "duration")
    t0, t1 = VObj(VClass("Node")), VObj(VClass("Node"))
    tree = VObj(VClass("Expression"), {"operator": "delay", "operands": VList([t0, t1])})
    g = VObj(eng.module_global(gm, "Generator"), {"model": model, "delay_counter": n0, "for_loops": VList([]), "src": VDict()})
    eng.call_contracts["Generator.get_mx"] = lambda eng, args, kw: e_expr if args[1] is t0 else (e_dur if args[1] is t1 else _uns())
    new = []

    def new_mx(eng, args, kw):
        mx = MXS(EMPTY, args[0])
        new.append(mx)
        return mx
    eng.call_contracts["_new_mx"] = new_mx
    pre = {k_: list(v.items) for k_, v in model.fields.items()}
    try:
        eng.exec_fragment(GEN, "Generator.exitExpression", delay_branch,
                          {"self": g, "tree": tree, "op": "delay", "n_operands": 2}, label="delay-branch")
    except PyRaise as e:
        eng.prove("delay.no_exception", False, exc=repr(e.exc))
        return
    eng.cover("delay.done")
    ds, ins, das = model.fields["delay_states"].items, model.fields["inputs"].items, model.fields["delay_arguments"].items
    # (P) the three lists grow by exactly one entry at the end, for the same new delay state
    ok_len = len(ds) == k + 1 and len(ins) == k + 2 and len(das) == k + 1 and ds[:k] == pre["delay_states"] and \
        all(a is b for a, b in zip(ins[:k + 1], pre["inputs"])) and all(a is b for a, b in zip(das[:k], pre["delay_arguments"]))
    eng.prove("delay.lists_grow_in_lock_step", z3.BoolVal(bool(ok_len and len(new) == 1)))
    if not (ok_len and len(new) == 1):
        return
    name = new[0].label
    eng.prove("delay.state_name_is_counter_based", ops.to_z3(name) == z3.Concat(z3.StringVal("_pymoca_delay_"), z3.IntToStr(n0)))
    eng.prove("delay.counter_incremented", ops.to_arith(g.fields["delay_counter"]) == n0 + 1)
    eng.prove("delay.same_name_registered", ops.eq_expr(eng, ds[k], name))
    eng.prove("delay.input_is_the_delay_state", z3.BoolVal(ins[k + 1].fields.get("symbol") is new[0]))
    eng.prove("delay.argument_is_expression_and_duration", z3.BoolVal(das[k].fields.get("expr") is e_expr and das[k].fields.get("duration") is e_dur))


def _uns():
    raise Unsupported("get_mx of an unexpected node")


def h_delay_arguments_function(eng):
    """delay_arguments_function: outputs are [expr1, duration1, expr2, duration2, ...]"""
    install(eng)
    mm = eng.load_module(MODEL)
    cls = eng.module_global(mm, "Model")
    f = eng.find_function(MODEL, "Model.delay_arguments_function")
    nd = eng.choice(4)
    eng.input("delays", nd)
    es = [MXS(eng.fresh("E%d" % i, SSet), "e%d" % i) for i in range(nd)]
    dsr = [MXS(eng.fresh("D%d" % i, SSet), "d%d" % i) for i in range(nd)]
    with_vectors = bool(eng.choice(2))
    m = VObj(cls, {"time": MXS(EMPTY, "time"), "delay_arguments": VList([(e, d) for e, d in zip(es, dsr)])})
    for c in ("states", "der_states", "alg_states", "inputs", "constants", "parameters"):
        m.fields[c] = VList([])
    if with_vectors:
        for c in ("_states_vector", "_der_states_vector", "_alg_states_vector", "_inputs_vector"):
            m.fields[c] = MXS(EMPTY, c)
    cls.attrs["_expand_mx_func"] = _identity_method
    r = eng.call_function(f, [m], {})
    eng.cover("dafn.done")
    outs = r.fields.get("outputs") if isinstance(r, VObj) else None
    items = eng.iterate(outs) if outs is not None else None
    want = [x for pair in zip(es, dsr) for x in pair]
    eng.prove("delayfn.outputs_interleave_expression_and_duration", z3.BoolVal(items is not None and len(items) == len(want) and all(a is b for a, b in zip(items, want))))


def _identity(eng, selfobj, f):
    return f


_identity._pyvc_method = True
_identity_method = _identity


def h_compile_calls_post_checks(eng):
    """api._compile_model runs _post_checks on the model it returns (after simplification)"""
    from contracts import api_common as A
    w = A.make_world(eng, with_db=False, minimal_env=True)
    A.install(eng, w)
    log = []
    model = VObj(VClass("Model"))
    for nme in ("check_balanced", "simplify", "_post_checks"):
        model.cls.attrs[nme] = _recorder(log, nme)
    gen = A.ModuleStub("generator", {"generate": A.stub(lambda eng, *a: model)})
    eng.ext_modules["pymoca.backends.casadi.generator"] = gen
    parsed = VObj(VClass("Tree"))
    parsed.cls.attrs["extend"] = _recorder(log, "extend")
    eng.ext_modules["pymoca.parser"] = A.ModuleStub("parser", {"parse": A.stub(lambda eng, *a: parsed)})
    eng.ext_modules["pymoca"].attrs["parser"] = eng.ext_modules["pymoca.parser"]

    class F(A.FileCtx):
        def sym_getattr(self, eng, name):
            if name == "read":
                return A.stub(lambda eng: "text")
            return A.FileCtx.sym_getattr(self, eng, name)
    eng.builtins["open"] = A.stub(lambda eng, *a, **k: F())
    f = eng.find_function(API, "_compile_model")
    opts = VDict([("library_folders", VList([])), ("check_balanced", eng.fresh_bool("cb")), ("verbose", eng.fresh_bool("vb"))])
    r = eng.call(f, [A.PathStr("MODEL"), "M", opts], {})
    eng.cover("compile.done")
    eng.prove("compile.post_checks_called_on_returned_model", z3.BoolVal(r is model and log.count("_post_checks") == 1 and
                                                                         "simplify" in log and log.index("simplify") < log.index("_post_checks")))


def _recorder(log, name):
    def m(eng, selfobj, *a, **k):
        log.append(name)
    m._pyvc_method = True
    return m


def h_substitute_delay_arguments(eng):
    """Model._substitute_delay_arguments (used by every simplification step): BOTH the delayed expression and the duration of every
    delay argument are rewritten with the full substitution -- otherwise a compound duration keeps referring to a symbol the step has
    just removed from the variable lists, and _post_checks (which only sees the listed symbols) misses the dependency"""
    install(eng)
    mm = eng.load_module(MODEL)
    cls = eng.module_global(mm, "Model")
    f = eng.find_function(MODEL, "Model._substitute_delay_arguments")
    nd = 1 + eng.choice(3)
    eng.input("delays", nd)
    log = []

    class Sub(MXS):
        pass

    def substitute(eng, exprs, symbols, values):
        outs = []
        for e in eng.iterate(exprs):
            o = Sub(EMPTY, "subst(%s)" % getattr(e, "label", "?"))
            o.of, o.symbols, o.values = e, symbols, values
            outs.append(o)
        log.append(outs)
        return VList(outs)
    cas = eng.ext_modules["casadi"]
    cas.attrs["substitute"] = stub(substitute)
    da_cls = VClass("DelayArgument")
    da_cls.constructor = lambda eng, c, a, kw: VObj(c, {"expr": a[0], "duration": a[1]})
    mm.globals["DelayArgument"] = da_cls
    kinds = [eng.choice(3) for _ in range(nd)]      # duration: 0 a bare symbol, 1 a compound expression, 2 a number
    eng.input("duration_kinds", kinds)
    es = [MXS(eng.fresh("E%d" % i, SSet), "e%d" % i) for i in range(nd)]
    ds = []
    for i, k in enumerate(kinds):
        if k == 2:
            ds.append(2.5)
        else:
            d = MXS(eng.fresh("D%d" % i, SSet), "d%d" % i)
            d.symbolic = (k == 0)
            ds.append(d)
    args = VList([VObj(da_cls, {"expr": e, "duration": d}) for e, d in zip(es, ds)])
    symbols, values = VList([MXS(EMPTY, "sym")]), VList([MXS(EMPTY, "val")])
    m = VObj(cls, {})
    r = eng.call(VBound(f, m), [args, symbols, values], {})
    eng.cover("subst.done")
    items = eng.iterate(r)
    ok = len(items) == nd
    for i in range(nd):
        if not ok:
            break
        e2, d2 = items[i].fields.get("expr"), items[i].fields.get("duration")
        ok = isinstance(e2, Sub) and e2.of is es[i] and e2.symbols is symbols and e2.values is values
        ok = ok and isinstance(d2, Sub) and (d2.of is ds[i] or kinds[i] == 2) and d2.symbols is symbols and d2.values is values
    eng.prove("subst.expression_and_duration_of_every_delay_rewritten_with_the_full_substitution", z3.BoolVal(bool(ok)), kinds=kinds)


def h_delay_translation_in_loop(eng):
    """delay() inside a for-loop (the loop object built by the REAL ForLoop constructor): whether or not the delayed expression uses a
    symbol indexed by the loop, delay_states, the delay inputs and delay_arguments are extended together, by one entry each, for the
    same new delay state -- the three lists are paired BY POSITION everywhere else (delay_arguments_function, vector expansion, the
    model cache), so they must be in step after every delay() call, not only when the loop is closed."""
    install(eng)
    from contracts.C11 import Arange, _get_integer
    from contracts.ast_common import AstFactory
    gm = eng.load_module(GEN)
    eng.ext_modules["numpy"].attrs["arange"] = stub(lambda eng, a, b, s_=1, dtype=None: Arange(a, b, s_))
    from contracts.api_common import CollectionsStub
    var_cls = eng.module_global(gm, "Variable")
    var_cls.constructor = lambda eng, c, a, kw: VObj(c, {"symbol": a[0]})
    da_cls = VClass("DelayArgument")
    da_cls.constructor = lambda eng, c, a, kw: VObj(c, {"expr": a[0], "duration": a[1]})
    gm.globals["DelayArgument"] = da_cls
    new = []

    def new_mx(eng, args, kw):
        mx = MXS(EMPTY, args[0])
        new.append(mx)
        return mx
    eng.call_contracts["_new_mx"] = new_mx
    # the open loop
    A = AstFactory(eng)
    stop_node = A.ref("n")
    rng = VObj(VClass("Slice"), {"start": A.prim(1), "step": A.prim(1), "stop": stop_node})
    idx = VObj(VClass("ForIndex"), {"name": "i", "expression": rng})
    loop_tree = VObj(VClass("ForEquation"), {"indices": VList([idx])})
    genstub = VObj(VClass("GeneratorStub"), {"map_mode": "inline"})
    genstub.cls.attrs["get_integer"] = _get_integer(stop_node, 3)
    loop = eng.call(eng.module_global(gm, "ForLoop"), [genstub, loop_tree], {})
    new.clear()
    xi = MXS(eng.fresh("XI", SSet), "x[i]")
    loop.fields["indexed_symbols"].keys.append(xi)
    loop.fields["indexed_symbols"].vals.append(VObj(VClass("ForLoopIndexedSymbol"), {}))
    registered = []

    def reg(eng, selfobj, e, *a, **k):
        registered.append(e)
    reg._pyvc_method = True
    loop.cls.attrs["register_indexed_symbol"] = reg
    uses_indexed = bool(eng.choice(2))
    eng.input("delayed_expression_uses_a_symbol_indexed_by_the_loop", uses_indexed)
    k = eng.choice(2)
    eng.input("existing_delays", k)
    model = VObj(VClass("Model"), {"delay_states": VList(["old%d" % i for i in range(k)]),
                                   "inputs": VList([VObj(var_cls, {"symbol": MXS(EMPTY, "oldin%d" % i)}) for i in range(k)]),
                                   "delay_arguments": VList([VObj(da_cls, {}) for i in range(k)])})
    e_expr, e_dur = MXS(eng.fresh("E", SSet), "expr"), MXS(eng.fresh("D", SSet), "duration")
    eng.ext_modules["casadi"].attrs["symvar"] = stub(lambda eng, e: VList([xi, MXS(EMPTY, "other")] if uses_indexed else [MXS(EMPTY, "other")]))
    t0, t1 = VObj(VClass("Node")), VObj(VClass("Node"))
    tree = VObj(VClass("Expression"), {"operator": "delay", "operands": VList([t0, t1])})
    n0 = eng.fresh_int("n")
    eng.assume(n0 >= 0)
    from contracts.gen_common import new_generator
    g = new_generator(eng, gm, {"model": model, "delay_counter": n0, "for_loops": VList([loop]), "src": VDict()})
    eng.call_contracts["Generator.get_mx"] = lambda eng, args, kw: e_expr if args[1] is t0 else (e_dur if args[1] is t1 else _uns())
    try:
        eng.exec_fragment(GEN, "Generator.exitExpression", delay_branch, {"self": g, "tree": tree, "op": "delay", "n_operands": 2}, label="delay-branch")
    except PyRaise as e:
        eng.prove("delayloop.no_exception", False, exc=repr(e.exc))
        return
    eng.cover("delayloop.done")
    eng.prove("delayloop.no_exception", True)
    ds, ins, das = model.fields["delay_states"].items, model.fields["inputs"].items, model.fields["delay_arguments"].items
    ok = len(ds) == k + 1 and len(ins) == k + 1 and len(das) == k + 1 and len(new) == 1
    ok = ok and ins[k].fields.get("symbol") is new[0] and das[k].fields.get("expr") is e_expr and das[k].fields.get("duration") is e_dur
    eng.prove("delayloop.states_inputs_and_arguments_stay_in_step_inside_a_loop", z3.BoolVal(bool(ok)), states=len(ds), inputs=len(ins), arguments=len(das))
    eng.prove("delayloop.delay_symbol_is_mapped_over_the_loop_iff_the_expression_is_indexed", z3.BoolVal((len(registered) == 1 and registered[0] is new[0]) if uses_indexed else not registered))


def h_expand_delays(eng):
    """vector expansion of a delayed array expression (C18's contract of _expand_vectors, restricted to the delayed cases): the delay
    state named ...[i,j] delays element (i,j) of the expression, with the same duration"""
    from . import C18
    for k in ("pymoca.backends.casadi.model",):
        eng.ext_modules.pop(k, None)
    C18.h_expand(eng, cases=[c for c in C18.CASES if c[3]])


def h_simplification_steps_keep_delay_arguments_closed(eng):
    """every simplification step that removes symbols from the model (the four replace_* steps, eliminable variables, alias
    detection) hands ALL of them to _substitute_delay_arguments whenever there are delay arguments -- whatever ca.depends_on says
    about them: a delay argument's graph can mention a symbol its value does not depend on, and a symbol left in the graph makes
    delay_arguments_function unbuildable.  These are C15's contracts of those steps, run here for their delay obligations."""
    from . import C15
    k = eng.choice(3)
    [C15.h_replace_blocks, C15.h_eliminable_counting, C15.h_alias_counting][k](eng)


def h_fixed_flags_are_resolved_with_the_other_attributes(eng):
    """_post_checks decides "fixed input" by the truth value of x.fixed.  An input declared `u(fixed = hold)` with a Boolean parameter
    or constant carries the expression `hold` until _substitute_metadata replaces it (resolve_parameter_values,
    replace_parameter_values, replace_constant_values, ...): EVERY expression-valued attribute -- `fixed` like value / min / max /
    start / nominal -- has to get its own substituted value there, or an acceptable model is refused (a symbolic MX has no truth
    value).  This is C13's contract of Model._substitute_metadata."""
    from contracts import C13
    C13.h_substitute_metadata(eng)


HARNESSES = [("Model._post_checks", h_post_checks), ("Model._post_checks/no-delays", h_no_delays),
             ("Generator.exitExpression#delay-branch", h_delay_translation),
             ("Model.delay_arguments_function", h_delay_arguments_function), ("api._compile_model", h_compile_calls_post_checks),
             ("Model._substitute_delay_arguments", h_substitute_delay_arguments),
             ("Generator.exitExpression#delay-branch inside a for-loop", h_delay_translation_in_loop),
             ("Model._expand_vectors on delayed array expressions (delay states and arguments element by element)", h_expand_delays),
             ("simplification steps: every removed symbol is substituted in the delay arguments", h_simplification_steps_keep_delay_arguments_closed),
             ("Model._substitute_metadata: every expression-valued attribute (also `fixed`) is resolved", h_fixed_flags_are_resolved_with_the_other_attributes)]
EXPECTED_COVER = {"post.raises", "post.returns", "post.nodelay", "delay.done", "dafn.done", "compile.done", "subst.done", "delayloop.done", "expand.done", "count.alias", "count.eliminable", "submeta.done"}
BOUNDED = True
LEVEL = "proof"
TRUSTED = ["pyvc VC generator", "z3 5.1.0",
           "ca.depends_on(e, S) <=> symvar(e) intersects symvar(S) (after CasADi's own simplification); veccat/vertcat = union of free symbols",
           "a Variable's symbol is one CasADi symbol, distinct per variable"]
ASSUMPTIONS = [
    "shapes enumerated: 1-3 delays, 0-2 variables per category; the free-symbol set of every duration is an arbitrary set; input fixed flags symbolic",
    "delays inside for-loops: the delay branch is verified with one open loop (built by the real ForLoop constructor) for indexed and loop-invariant expressions; the re-shaping of the delay argument when the loop is closed (exitForEquation's delay part) is exercised by the bounded replay only",
]
EXPLANATION = "Set-algebra contract of _post_checks plus lock-step bookkeeping of the delay translation."
MANIFEST = {
    "category": "proof",
    "text": "_post_checks is executed symbolically with every delay duration's free-symbol set arbitrary and the fixed flags of inputs symbolic: it raises ValueError exactly when some duration depends on time, a state, a derivative, an algebraic variable or a non-fixed input. The delay branch of exitExpression (extracted structurally) is verified to extend delay_states, inputs and delay_arguments in lock step with a counter-based name; delay_arguments_function to output [e1,d1,e2,d2,...]; _compile_model to call _post_checks on what it returns; _substitute_delay_arguments (used by every simplification step) to rewrite both the expression and the duration of every delay with the full substitution. A bounded replay compiles real models with durations from each variable category. Model._substitute_metadata (C13's contract) is discharged here: a fixed flag written as a Boolean parameter is resolved like every other attribute.",
    "note": "CasADi's depends_on/veccat are assumed (free-symbol-set semantics); list shapes enumerated; delays in for-loops only in the replay.",
    "technique": "contract-based deductive verification: symbolic execution with expressions abstracted to free-symbol sets (z3 arrays + quantifiers), structural fragment extraction",
}
