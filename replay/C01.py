"""C01 replay / bounded stand-in: the real pymoca.parser.parse driven through histories of cache operations and faults.

Every parse(text) result is compared structurally with parse(text, bypass_cache=True) (None exactly for a syntax error,
the same exception type when the uncached parser raises), and after every step the rows of the models table are checked
against the cache invariant J: a row that unpickles holds the tree of the text it is keyed by, and no row exists for a
text that does not parse.  Faults are applied between calls: truncated / emptied / random / re-classed / re-moduled
blobs, a pickled None, dropped tables, wrong layouts (with and without the columns used), a garbage database file, a
deleted file, a version change, clock jumps (both directions), module reload (parse.initialized_dbs forgotten).
Directed scenarios (each fault x {fresh module, database already checked by this process}) run first, then random
histories."""
import collections
import enum
import hashlib
import json
import logging
import pathlib
import pickle
import shutil
import sqlite3
import sys
import tempfile

import numpy as np

TEXTS = [
    "model A\n  Real x(start=1);\n  parameter Real k = 2;\nequation\n  der(x) = -k * x;\nend A;\n",
    "model B\n  Real y, z;\nequation\n  y = 2 * z + 1;\n  z = sin(time);\nend B;\n",
    "package P\n  model C\n    Real a;\n  equation\n    a = if time > 1 then 1 else 0;\n  end C;\n  constant Real g = 9.81;\nend P;\n",
    "connector Pin\n  Real v;\n  flow Real i;\nend Pin;\nmodel R\n  Pin p, n;\nequation\n  p.v - n.v = p.i;\n  connect(p, n);\nend R;\n",
]
# texts that differ only in the line terminator INSIDE a string literal: different texts, different trees
_ML = 'model S "first line%ssecond line"\n  Real s;\n  parameter String t = "a%sb";\nequation\n  s = 1;\nend S;\n'
TEXTS += [_ML % ("\n", "\n"), _ML % ("\r\n", "\r\n"), _ML % ("\r", "\x0b")]
BROKEN = ["model X\n  Real x\nequation\n  x = ;\nend X;\n", "model Y Real y; equation y = (1; end Y;\n"]
RAISING = ["model D\n  Real x;\n  Real x;\nend D;\n"]


def struct(o, memo=None, depth=0):
    """structure of an object graph: classes, field names and values; shared / cyclic references by first-visit number"""
    if memo is None:
        memo = {}
    if isinstance(o, (str, int, float, bool, bytes, type(None))):
        return (type(o).__name__, o)
    if isinstance(o, enum.Enum):
        return ("enum", type(o).__name__, o.name)
    if id(o) in memo:
        return ("ref", memo[id(o)])
    memo[id(o)] = len(memo)
    if isinstance(o, (list, tuple)):
        return (type(o).__name__, tuple(struct(x, memo, depth + 1) for x in o))
    if isinstance(o, (dict, collections.OrderedDict)):
        return (type(o).__name__, tuple((struct(k, memo, depth + 1), struct(v, memo, depth + 1)) for k, v in o.items()))
    if isinstance(o, (set, frozenset)):
        return (type(o).__name__, tuple(sorted(repr(struct(x, memo, depth + 1)) for x in o)))
    if isinstance(o, np.ndarray):
        return ("ndarray", o.shape, tuple(o.ravel().tolist()))
    d = getattr(o, "__dict__", None)
    if d is not None:
        return (type(o).__module__ + "." + type(o).__name__, tuple((k, struct(v, memo, depth + 1)) for k, v in d.items() if k != "__deepcopy__"))
    return ("opaque", type(o).__name__, repr(o))


class Harness:
    def __init__(self, parser, pymoca):
        self.parser, self.pymoca = parser, pymoca
        self.real_version = pymoca.__version__
        self.real_time = parser.time
        self.fresh = {}
        self.dir = pathlib.Path(tempfile.mkdtemp(prefix="pyvc_c01_"))
        self.n = 0

    def close(self):
        self.pymoca.__version__ = self.real_version
        self.parser.time = self.real_time
        shutil.rmtree(self.dir, ignore_errors=True)

    def new_folder(self):
        self.n += 1
        d = self.dir / ("f%d" % self.n)
        d.mkdir()
        (d / "sub").mkdir()
        return d

    def expected(self, txt):
        if txt not in self.fresh:
            try:
                t = self.parser.parse(txt, bypass_cache=True)
                self.fresh[txt] = ("value", None if t is None else struct(t))
            except Exception as e:  # the uncached parser's own exception (e.g. a duplicate declaration)
                self.fresh[txt] = ("raises", type(e).__name__)
        return self.fresh[txt]

    def db(self, folder):
        return folder / self.parser.DEFAULT_MODEL_CACHE_DB

    # ---- one observed call
    def call(self, folder, txt, **kw):
        want = self.expected(txt)
        try:
            # the same folder, optionally in a spelling that is not its canonical path
            t = self.parser.parse(txt, model_cache_folder=(folder / "sub" / "..") if getattr(self, "noncanonical", False) else folder, **kw)
            got = ("value", None if t is None else struct(t))
        except Exception as e:
            got = ("raises", type(e).__name__ + ": " + str(e)[:80])
        if want[0] == "raises":
            ok = got[0] == "raises" and got[1].split(":")[0] == want[1]
        else:
            ok = got == want
        if ok:
            return None
        if got[0] == "raises":
            return "parse raised %s" % got[1]
        if want[0] == "raises":
            return "parse returned a value where the uncached parser raises %s" % want[1]
        if (got[1] is None) != (want[1] is None):
            return "parse returned %s where the uncached parse gives %s" % ("None" if got[1] is None else "a tree", "None" if want[1] is None else "a tree")
        return "parse returned a tree that differs from the uncached parse of the same text"

    def check_rows(self, folder):
        """J on the stored rows (readable database with the expected columns only)"""
        try:
            c = sqlite3.connect(self.db(folder))
            rows = c.execute("SELECT txt_hash, pymoca_version, data FROM models").fetchall()
            c.close()
        except sqlite3.Error:
            return None
        by_hash = {hashlib.sha256(t.encode("utf-8")).hexdigest(): t for t in TEXTS + BROKEN + RAISING}
        for h, v, blob in rows:
            txt = by_hash.get(h)
            if txt is None:
                continue
            try:
                t = pickle.loads(blob)
            except Exception:
                continue          # unloadable rows are allowed by J
            if t is None:
                if getattr(self, "planted_none", False):
                    continue
                return "a row holding a pickled None is stored for %r" % txt[:20]
            want = self.expected(txt)
            if want[0] != "value" or want[1] is None:
                return "a failed parse is stored in the cache (text %r)" % txt[:30]
            if v == self.pymoca.__version__ and struct(t) != want[1]:
                return "a stored tree differs from the parse of the text it is keyed by (%r)" % txt[:20]
        return None

    # ---- faults
    def with_db(self, folder, fn):
        try:
            c = sqlite3.connect(self.db(folder))
            fn(c)
            c.commit()
            c.close()
            return True
        except sqlite3.Error:
            return False

    def fault(self, folder, kind, rng):
        db = self.db(folder)
        if kind == "garbage-file":
            db.write_bytes(bytes(rng.randint(0, 256, size=int(rng.randint(1, 4000))).astype(np.uint8)))
        elif kind == "empty-file":
            db.write_bytes(b"")
        elif kind == "sqlite-header-only":
            if db.exists():
                db.write_bytes(db.read_bytes()[:int(rng.randint(16, 600))])
        elif kind == "delete-file":
            if db.exists():
                db.unlink()
        elif kind == "drop-models":
            self.with_db(folder, lambda c: c.execute("DROP TABLE IF EXISTS models"))
        elif kind == "drop-metadata":
            self.with_db(folder, lambda c: c.execute("DROP TABLE IF EXISTS metadata"))
        elif kind == "models-without-columns":
            self.with_db(folder, lambda c: (c.execute("DROP TABLE IF EXISTS models"), c.execute("CREATE TABLE models (txt_hash TEXT, data BLOB)")))
        elif kind == "models-extra-column":
            self.with_db(folder, lambda c: c.execute("ALTER TABLE models ADD COLUMN extra TEXT"))
        elif kind == "metadata-wrong-layout":
            self.with_db(folder, lambda c: (c.execute("DROP TABLE IF EXISTS metadata"), c.execute("CREATE TABLE metadata (k TEXT)")))
        elif kind == "metadata-rows-deleted":
            self.with_db(folder, lambda c: c.execute("DELETE FROM metadata"))
        elif kind in ("blob-truncated", "blob-empty", "blob-random", "blob-module-renamed", "blob-class-renamed", "blob-none", "blob-bitflip"):
            def edit(c):
                rows = c.execute("SELECT txt_hash, pymoca_version, data FROM models").fetchall()
                for h, v, blob in rows:
                    if rng.rand() < 0.7:
                        if kind == "blob-truncated":
                            nb = blob[:int(rng.randint(0, max(1, len(blob))))]
                        elif kind == "blob-empty":
                            nb = b""
                        elif kind == "blob-random":
                            nb = bytes(rng.randint(0, 256, size=int(rng.randint(1, 200))).astype(np.uint8))
                        elif kind == "blob-module-renamed":
                            nb = blob.replace(b"pymoca.ast", b"pymoca.axt")
                        elif kind == "blob-class-renamed":
                            nb = blob.replace(b"Tree", b"Tres").replace(b"Class", b"Klass")
                        elif kind == "blob-none":
                            nb = pickle.dumps(None)
                            self.planted_none = True
                        elif not blob:
                            nb = b"\x80"
                        else:
                            i = int(rng.randint(0, min(len(blob), 40)))
                            nb = blob[:i] + bytes([blob[i] ^ 0xFF]) + blob[i + 1:]
                        if kind != "blob-none":
                            # keep the cache invariant: a damaged blob must not happen to be the pickle of some other object
                            try:
                                if pickle.loads(nb) is not None:
                                    continue
                            except Exception:
                                pass
                        c.execute("UPDATE models SET data = ? WHERE txt_hash = ? AND pymoca_version = ?", (nb, h, v))
            self.with_db(folder, edit)
        elif kind == "expire-rows":
            self.with_db(folder, lambda c: c.execute("UPDATE models SET last_hit = 0"))
        elif kind == "version-change":
            self.pymoca.__version__ = str(rng.choice(["9.9.9", "0.1.0+3.gabc", self.real_version]))
        elif kind == "dirty-version":
            self.pymoca.__version__ = self.real_version + ".dirty"
        elif kind == "clean-version":
            self.pymoca.__version__ = self.real_version
        elif kind == "clock-jump":
            off = int(rng.choice([-400, -40, -2, 2, 40, 400])) * 86400 * 10 ** 9
            real = self.real_time

            class T:
                def __getattr__(self, n):
                    return getattr(real, n)

                def time_ns(self):
                    return real.time_ns() + off
            self.parser.time = T()
        elif kind == "module-reload":
            if hasattr(self.parser.parse, "initialized_dbs"):
                del self.parser.parse.initialized_dbs
        else:
            raise ValueError(kind)


FAULTS = ["garbage-file", "empty-file", "sqlite-header-only", "delete-file", "drop-models", "drop-metadata", "models-without-columns", "models-extra-column",
          "metadata-wrong-layout", "metadata-rows-deleted", "blob-truncated", "blob-empty", "blob-random", "blob-module-renamed", "blob-class-renamed", "blob-none",
          "blob-bitflip", "expire-rows", "version-change", "dirty-version", "clean-version", "clock-jump", "module-reload"]


def main():
    logging.disable(logging.CRITICAL)
    import pymoca
    import pymoca.parser as parser
    payload = json.load(sys.stdin)
    tier, seed = payload.get("tier", "quick"), int(payload.get("seed", 0) or 0)
    bounded = payload.get("mode") == "bounded"
    rng = np.random.RandomState(seed)
    if pymoca.__version__.endswith(".dirty"):
        # the cache is bypassed for a dirty work tree; the replay pins a clean version string so that the cache is exercised
        pymoca.__version__ = pymoca.__version__[:-len(".dirty")] or "0.0"
    H = Harness(parser, pymoca)
    failures, cases, seen = [], 0, set()
    texts = TEXTS + BROKEN + RAISING

    def record(history, what):
        failures.append({"class": "history", "input": {"history": list(history)}, "observed": what,
                         "expected": "the result of parse(text, bypass_cache=True); rows satisfying the cache invariant"})

    try:
        # ---- no fault at all: every text, twice (miss then hit), in one folder
        folder = H.new_folder()
        hist, bad = [], None
        for ti in list(range(len(texts))) * 2:
            hist.append("parse(text%d)" % ti)
            bad = bad or H.call(folder, texts[ti]) or H.check_rows(folder)
        cases += 1
        seen.add(tuple(hist))
        if bad:
            record(hist, bad)
            if not bounded:
                raise StopIteration
        # ---- directed scenarios: fault x {database checked earlier by this process, fresh module}
        for kind in FAULTS:
            for checked_before in (True, False, "noncanonical-spelling"):
                H.noncanonical = checked_before == "noncanonical-spelling"
                for ti in (0, len(TEXTS), len(TEXTS) + len(BROKEN)):
                    H.pymoca.__version__ = H.real_version if not H.real_version.endswith(".dirty") else "0.0"
                    H.parser.time = H.real_time
                    H.planted_none = False
                    folder = H.new_folder()
                    hist = []
                    bad = None
                    for step in (("parse", 0), ("parse", 1), ("parse", ti)):
                        hist.append("parse(text%d)" % step[1])
                        bad = bad or H.call(folder, texts[step[1]])
                    if H.noncanonical:
                        hist.append("(cache folder given as <folder>/sub/..)")
                    if not checked_before:
                        H.fault(folder, "module-reload", rng)
                        hist.append("module-reload")
                    H.fault(folder, kind, rng)
                    hist.append(kind)
                    for step in (ti, 0, 1, 0):
                        hist.append("parse(text%d)" % step)
                        bad = bad or H.call(folder, texts[step], always_update_last_hit=bool(step))
                        bad = bad or H.check_rows(folder)
                    cases += 1
                    seen.add(tuple(hist))
                    if bad:
                        record(hist, bad)
                    shutil.rmtree(folder, ignore_errors=True)
                    if failures and not bounded:
                        raise StopIteration
        H.noncanonical = False
        # ---- random histories
        n_hist, n_ops = (400, 30) if tier == "thorough" else (60, 14)
        for _ in range(n_hist):
            H.pymoca.__version__ = H.real_version if not H.real_version.endswith(".dirty") else "0.0"
            H.parser.time = H.real_time
            H.planted_none = False
            folder = H.new_folder()
            hist, bad = [], None
            for _ in range(n_ops):
                if rng.rand() < 0.6:
                    ti = int(rng.randint(len(texts)))
                    kw = {}
                    if rng.rand() < 0.3:
                        kw["always_update_last_hit"] = True
                    if rng.rand() < 0.3:
                        kw["cache_expiration_days"] = int(rng.choice([0, 1, 30, 3650]))
                    hist.append("parse(text%d%s)" % (ti, "".join(", %s=%s" % kv for kv in sorted(kw.items()))))
                    bad = H.call(folder, texts[ti], **kw) or H.check_rows(folder)
                else:
                    k = str(rng.choice(FAULTS))
                    hist.append(k)
                    H.fault(folder, k, rng)
                if bad:
                    break
            cases += 1
            seen.add(tuple(hist))
            if bad:
                record(hist, bad)
                if not bounded:
                    break
            shutil.rmtree(folder, ignore_errors=True)
    except StopIteration:
        pass
    finally:
        H.close()
    failures.sort(key=lambda f: len(f["input"]["history"]))
    if bounded:
        print(json.dumps({"performed": True, "cases": cases, "distinct_nontrivial": len(seen), "failures": failures[:10],
                          "rule": "%d fault kinds x {database already checked by this process, module reloaded} x 3 texts as directed histories (3 parses, fault, 4 parses), then random histories of parses "
                                  "(10 texts: 7 valid of which 3 differ only in line terminators inside string literals, 2 with syntax errors, 1 the parser rejects; random always_update_last_hit / cache_expiration_days) and faults; after every parse the result is compared structurally "
                                  "with parse(bypass_cache=True) and the stored rows with the cache invariant; distinct = distinct histories" % len(FAULTS),
                          "bound": "%d histories" % cases}))
    else:
        f = failures[0] if failures else None
        print(json.dumps({"performed": True, "reproduces": f is not None, "input": f and f["input"], "observed": f and f["observed"],
                          "expected": f and f["expected"], "input_class": "history"}))


if __name__ == "__main__":
    main()
