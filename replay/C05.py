"""C05 replay / bounded stand-in: histories of flatten / generate requests on ONE parsed tree, every step compared
with the same request on a FRESH parse; plus a native frame probe (structural snapshot of the parsed tree before
and after each request, reported as diagnostic only) and the compiler CLI alone-vs-together comparison."""
import glob
import io
import itertools
import json
import logging
import os
import sys
import tempfile

REPO = os.environ.get("PYVC_REPO", "/repo")

LIBS = {
    "components": """
model Tank
  parameter Real k = 2.0;
  input Real u;
  Real h(start = 1.0);
  Real q = k * h;
  output Real level = h + 0.5;
equation
  der(h) = u - q;
end Tank;
model Damped
  extends Tank(k = 4.0);
  Real e = q * q;
end Damped;
model Pair
  Tank a;
  Tank b(k = 3.0);
  Real total = a.q + b.q;
equation
  a.u = 1.0;
  b.u = total;
end Pair;
""",
    "connectors": """
connector Pin
  Real v;
  flow Real i;
end Pin;
model R
  Pin p;
  Pin n;
  parameter Real r = 2;
equation
  p.v - n.v = r * p.i;
  p.i + n.i = 0;
end R;
model Net
  R r1;
  R r2(r = 5);
  input Real vin;
equation
  connect(r1.n, r2.p);
  r1.p.v = vin;
  r2.n.v = 0;
end Net;
model Net2
  extends Net;
  R r3;
equation
  connect(r3.p, r2.p);
  r3.n.v = 1;
end Net2;
""",
    "constants": """
package K
  constant Real g(min = 0) = 9.81;
  constant Real a[2] = {1, 2};
  type Volt = Real(unit = "V", nominal = 10);
  constant Volt v0 = 12;
  model In
    constant Real c = 3;
    Real s;
  equation
    s = c * g;
  end In;
end K;
model UseK
  Real x;
  parameter Real y = K.g;
  Real z;
equation
  x = K.a[1] * K.v0;
  z = K.In.c + y;
end UseK;
model UseIn
  K.In i1;
  K.In i2(c = 4);
  Real w;
equation
  w = i1.s + i2.s + K.g;
end UseIn;
model ExtIn
  extends K.In(c = 5);
  Real t = K.v0;
end ExtIn;
""",
    "redeclare": """
package P1
  constant Real p = 1;
end P1;
package P2
  constant Real p = 2;
end P2;
model A
  replaceable package m = P1;
  Real x;
equation
  x = m.p;
end A;
model B
  extends A(redeclare package m = P2);
  Real y = 2 * m.p;
end B;
model C
  A a1;
  B b1;
  Real s;
equation
  s = a1.x + b1.y;
end C;
""",
    "redeclare_components": """
model Pump
  parameter Real gain = 1.0;
  Real head;
  Real rate;
equation
  rate = gain * head;
end Pump;
model NoLoop
  Real rate;
equation
  rate = 0;
end NoLoop;
model PumpLoop
  Real rate;
  Pump pump(gain = 3.5);
equation
  rate = pump.rate;
  pump.head = 2;
end PumpLoop;
model Unit
  replaceable model Loop = NoLoop;
  Loop circuit;
  Real sum;
equation
  sum = circuit.rate;
end Unit;
model Site
  Unit unit(redeclare model Loop = PumpLoop);
end Site;
model Site2
  extends Unit(redeclare model Loop = PumpLoop);
end Site2;
""",
    "functions": """
function f
  input Real a;
  input Real b = 2;
  output Real r;
protected
  Real t = a * b;
algorithm
  r := t + 1;
end f;
model CallF
  Real x;
  Real y = f(x, 3);
equation
  der(x) = -f(x);
end CallF;
model CallTwice
  CallF c1;
  CallF c2;
  Real z;
equation
  z = f(c1.x + c2.x, 1);
end CallTwice;
""",
    "imports": """
package A model X Real v; equation v = 1; end X; end A;
package B model Y Real w; equation w = 2; end Y; end B;
package P
  import A.*;
  import B.*;
  model M X x; Y y; end M;
  model N extends M; A.X x2; end N;
end P;
""",
    "types_arrays": """
type Len = Real(unit = "m", min = 0);
model Seg
  parameter Integer n = 3;
  Len l[n](each start = 1);
  input Real q;
  output Real tot;
equation
  for i in 1:n loop
    der(l[i]) = q - l[i];
  end for;
  tot = sum(l);
end Seg;
model TwoSeg
  Seg s1(n = 2);
  Seg s2;
  Len d = s1.tot - s2.tot;
equation
  s1.q = 1;
  s2.q = d;
end TwoSeg;
""",
}


def classes_of(t, prefix=""):
    out = []
    for n, c in t.classes.items():
        out.append(prefix + n)
        out += classes_of(c, prefix + n + ".")
    return out


def req_flatten(tree, cls):
    import pymoca.ast as ast
    from pymoca.tree import flatten
    try:
        f = flatten(tree, ast.ComponentRef.from_string(cls))
        return json.dumps(ast.Node.to_json(f), sort_keys=True, default=repr)
    except Exception as e:  # an exception is an outcome too (its text may carry object addresses: keep the type and head)
        return "EXC %s: %s" % (type(e).__name__, str(e).split(" at 0x")[0][:120])


def req_casadi(tree, cls):
    from pymoca.backends.casadi import generator
    try:
        m = generator.generate(tree, cls, {})
    except Exception as e:
        return "EXC %s: %s" % (type(e).__name__, str(e).split(" at 0x")[0][:120])
    cats = ["states", "der_states", "alg_states", "inputs", "outputs", "constants", "parameters"]
    out = {c: [(v if isinstance(v, str) else (v.symbol.name(), str(v.value), str(v.start), str(v.min), str(v.max), str(v.nominal), v.fixed)) for v in getattr(m, c)] for c in cats}
    out["equations"] = [str(e) for e in m.equations]
    out["initial_equations"] = [str(e) for e in m.initial_equations]
    return json.dumps(out, sort_keys=True, default=repr)


def req_sympy(tree, cls):
    from pymoca.backends.sympy import generator
    try:
        return generator.generate(tree, cls)
    except Exception as e:
        return "EXC %s: %s" % (type(e).__name__, str(e).split(" at 0x")[0][:120])


KINDS = {"flatten": req_flatten, "casadi": req_casadi, "sympy": req_sympy}


class Source:
    """One library text with memoised fresh-parse references."""

    def __init__(self, name, text):
        import pymoca.parser
        self.name, self.text = name, text
        self.parse = lambda: pymoca.parser.parse(text)
        t = self.parse()
        self.classes = classes_of(t) if t is not None else []
        self.ref = {}

    def fresh(self, kind, cls):
        k = (kind, cls)
        if k not in self.ref:
            self.ref[k] = KINDS[kind](self.parse(), cls)
        return self.ref[k]

    def run(self, history):
        """history: [(kind, cls)]. Returns None or a failure dict for the first step that differs from a fresh parse."""
        t = self.parse()
        for i, (kind, cls) in enumerate(history):
            got = KINDS[kind](t, cls)
            want = self.fresh(kind, cls)
            if got != want:
                return {"class": "history", "input": {"library": self.name, "source": self.text if len(self.text) < 3000 else self.name, "history": history, "step": i},
                        "observed": first_diff(got, want), "expected": "step %d (%s %s) equal to the same request on a fresh parse" % (i, kind, cls)}
        return None


def first_diff(got, want):
    if got.startswith("EXC") or want.startswith("EXC"):
        return "one tree: %s | fresh parse: %s" % (got[:200], want[:200])
    n = next((i for i, (a, b) in enumerate(zip(got, want)) if a != b), min(len(got), len(want)))
    return "results differ at char %d: one tree ...%s... | fresh parse ...%s..." % (n, got[max(0, n - 60):n + 60], want[max(0, n - 60):n + 60])


def sources(tier):
    import pymoca.parser  # noqa
    logging.disable(logging.CRITICAL)
    out = []
    for name, text in LIBS.items():
        out.append(Source("generated:" + name, text))
        if len(out[-1].classes) < 2:
            raise RuntimeError("generated library %s does not parse: the sweep would be vacuous" % name)
    for fn in sorted(glob.glob(os.path.join(REPO, "test", "models", "*.mo"))):
        try:
            s = Source(os.path.basename(fn), open(fn).read())
        except Exception:  # files that do not parse are outside the quantifier
            continue
        if s.classes:
            out.append(s)
    return out


def histories(src, tier):
    cl = src.classes
    gen = src.name.startswith("generated:")
    # repeat and ordered pairs of flatten requests over every class
    for a in cl:
        yield [("flatten", a), ("flatten", a)]
    pairs = list(itertools.permutations(cl, 2))
    if not gen and len(pairs) > (400 if tier == "thorough" else 60):
        pairs = pairs[:: max(1, len(pairs) // (400 if tier == "thorough" else 60))]
    for a, b in pairs:
        yield [("flatten", a), ("flatten", b)]
    if gen or tier == "thorough":
        models = [c for c in cl]
        # a long history: every class once, then every class again in reverse order
        yield [("flatten", c) for c in models] + [("flatten", c) for c in reversed(models)]
        # back ends after flatten and after each other
        for a in models:
            yield [("casadi", a), ("casadi", a)]
            yield [("flatten", a), ("casadi", a), ("sympy", a), ("flatten", a)]
        for a, b in itertools.permutations(models, 2):
            yield [("casadi", a), ("casadi", b)]
        if tier == "thorough":
            for a, b, c in itertools.permutations(models, 3):
                yield [("flatten", a), ("casadi", b), ("flatten", c)]


def cli_cases(tier):
    """tools/compiler.main: each model alone vs. all together (flatten-only and sympy targets)."""
    sys.path.insert(0, os.path.join(REPO, "tools"))
    import importlib
    compiler = importlib.import_module("compiler")
    failures, n = [], 0
    logging.disable(logging.CRITICAL)
    for name in ("components", "connectors", "constants", "redeclare"):
        text = LIBS[name]
        src = Source("generated:" + name, text)
        top = [c for c in src.classes if "." not in c]
        with tempfile.TemporaryDirectory() as tmp:
            lib = os.path.join(tmp, name + ".mo")
            with open(lib, "w") as f:
                f.write(text)
            for target in ([], ["-t", "sympy"]):
                def status(models):
                    out = os.path.join(tmp, "out%d" % len(os.listdir(tmp)))
                    os.mkdir(out)
                    argv = [lib] + target + ["-o", out] + [x for m in models for x in ("-m", m)]
                    try:
                        rc = compiler.main(argv)
                    except SystemExit as e:
                        rc = e.code
                    produced = {}
                    for fn in sorted(os.listdir(out)):
                        produced[fn] = open(os.path.join(out, fn)).read()
                    return rc, produced
                alone = {m: status([m]) for m in top}
                for order in (top, list(reversed(top)), top + top):
                    n += 1
                    rc, produced = status(order)
                    want_rc = sum(1 for m in order if alone[m][0])
                    bad = None
                    if bool(rc) != bool(want_rc) or (isinstance(rc, int) and rc != want_rc):
                        bad = "exit status %r together, but alone the models give %r" % (rc, {m: alone[m][0] for m in top})
                    for m in top:
                        for fn, txt in alone[m][1].items():
                            if produced.get(fn) != txt:
                                bad = bad or "output %s differs (or is missing) when %s is requested together with %s" % (fn, m, order)
                    if bad:
                        failures.append({"class": "cli", "input": {"library": name, "target": target, "models": order}, "observed": bad,
                                         "expected": "each model the same outcome alone or together"})
    return n, failures


def frame_probe(srcs):
    """Diagnostic only: which parsed-tree objects a flatten request writes to (the property is about results)."""
    import pymoca.ast as ast

    def snap(o, seen):
        if isinstance(o, (str, int, float, bool, type(None))):
            return repr(o)
        if id(o) in seen:
            return "@%d" % seen[id(o)]
        seen[id(o)] = len(seen)
        if isinstance(o, (list, tuple)):
            return [snap(x, seen) for x in o]
        if isinstance(o, dict):
            return [(snap(k, seen), snap(v, seen)) for k, v in o.items()]
        if isinstance(o, ast.Node):
            return (type(o).__name__, [(k, snap(v, seen)) for k, v in sorted(o.__dict__.items())])
        return repr(o)
    leaks = []
    for s in srcs:
        for c in s.classes:
            t = s.parse()
            before = json.dumps(snap(t, {}))
            req_flatten(t, c)
            if json.dumps(snap(t, {})) != before:
                leaks.append("%s:%s" % (s.name, c))
    return leaks


def sweep(tier, stop_at_first=False):
    srcs = sources(tier)
    failures, n = [], 0
    for s in srcs:
        for h in histories(s, tier):
            n += 1
            try:
                bad = s.run(h)
            except BaseException as e:  # noqa
                bad = {"class": "history", "input": {"library": s.name, "history": h}, "observed": "%s: %s" % (type(e).__name__, str(e)[:150]), "expected": "no crash of the harness"}
            if bad:
                failures.append(bad)
                if stop_at_first:
                    return srcs, n, failures
    return srcs, n, failures


def main():
    payload = json.load(sys.stdin)
    tier = payload.get("tier", "quick")
    if payload.get("mode") == "bounded":
        srcs, n, failures = sweep(tier)
        ncli, fcli = cli_cases(tier)
        leaks = frame_probe(srcs)
        seen, uniq = set(), []
        for f in failures + fcli:
            key = (f["input"].get("library"), f["observed"][:80])
            if key not in seen:
                seen.add(key)
                uniq.append(f)
        print(json.dumps({"performed": True, "cases": n + ncli, "distinct_nontrivial": n + ncli, "failures": uniq[:10],
                          "rule": "histories of flatten / casadi generate / sympy generate requests on one parsed tree (every class twice, ordered pairs, a there-and-back history over all classes, "
                                  "back ends interleaved; triples in the thorough tier) over %d sources (8 generated libraries: components with declaration equations, connectors, package constants and derived types, "
                                  "redeclare (of packages and of models with sub-components), functions, unqualified imports, arrays; and every class of every parseable test model), each step compared with the same request on a fresh parse by full JSON dump; "
                                  "tools/compiler.main alone vs together vs repeated for flatten-only and sympy targets. Diagnostic: parsed-tree objects still written by flatten: %s" % (len(srcs), leaks or "none"),
                          "bound": "%d histories of length 2-%d, %d CLI runs" % (n, 2 * max(len(s.classes) for s in srcs), ncli)}))
    else:
        srcs, n, failures = sweep("quick", stop_at_first=True)
        if not failures:
            _n, failures = cli_cases("quick")
        f = failures[0] if failures else None
        print(json.dumps({"performed": True, "reproduces": f is not None, "input": f and f["input"], "observed": f and f["observed"],
                          "expected": f and f["expected"], "input_class": f["class"] if f else "history"}))


if __name__ == "__main__":
    main()
