"""Precedence facts of the generated parser's left-recursive rule `expr`, read from the tree under check (run under
/venv/bin/python with PYTHONPATH=<repo>/src by contracts/C03.py on every run).

The ATN that ModelicaParser deserialises at import time is what adaptivePredict consults, so it -- not the precpred()
calls in the generated method, which only re-check -- decides how an expression is grouped.  For every alternative of
`expr` this prints: the precedence predicate that guards it (binary alternatives), the token set of its operator, and
the sequence of operand rules with the precedence argument passed to a recursive `expr` call.  Also: literalNames."""
import json
import sys

from antlr4.atn.Transition import Transition

from pymoca.generated.ModelicaParser import ModelicaParser as P

atn = P.atn
names = P.ruleNames
R = names.index("expr")
lit = list(P.literalNames)
sym = list(P.symbolicNames)


def tokname(t):
    if 0 <= t < len(lit) and lit[t] != "<INVALID>":
        return lit[t].strip("'")
    if 0 <= t < len(sym):
        return sym[t]
    return str(t)


def walk(state, acc, out, seen):
    """follow one alternative until the rule's stop state or the loop-back; record tokens and operand rules"""
    while True:
        if state.stateNumber in seen:
            out.append(acc)
            return
        seen = seen | {state.stateNumber}
        if state is atn.ruleToStopState[R]:
            out.append(acc)
            return
        ts = state.transitions
        if len(ts) != 1:
            # a decision inside an alternative: stop here (the star-loop entry or block end of the rule)
            out.append(acc)
            return
        t = ts[0]
        k = t.serializationType
        if k == Transition.RULE:
            acc = acc + [("rule", names[t.ruleIndex], t.precedence)]
            state = t.followState
        elif k in (Transition.ATOM, Transition.SET, Transition.RANGE):
            acc = acc + [("tokens", sorted(tokname(x) for x in t.label))]
            state = t.target
        elif k == Transition.PRECEDENCE:
            acc = acc + [("precpred", t.precedence)]
            state = t.target
        elif k == Transition.EPSILON:
            state = t.target
        else:
            acc = acc + [("other", k)]
            state = t.target


def alternatives():
    res = []
    # every decision state of rule expr; each alternative is walked linearly
    for s in atn.states:
        if s is None or s.ruleIndex != R or len(s.transitions) < 2:
            continue
        for i, t in enumerate(s.transitions):
            out = []
            walk(t.target, [], out, frozenset([s.stateNumber]))
            for acc in out:
                if any(a[0] in ("tokens", "rule", "precpred") for a in acc):
                    res.append({"decision_state": s.stateNumber, "alt": i + 1, "elements": acc})
    return res


print(json.dumps({"rule": "expr", "alternatives": alternatives(),
                  "literalNames": [x.strip("'") for x in lit]}))
