"""C19 replay / bounded stand-in: real cached models versus fresh compiles (under /venv/bin/python)."""
import json
import os
import sys
import tempfile
import time

import numpy as np

MODELS = {
    "VecThenScalar": """model VecThenScalar
  parameter Real p = 2.0;
  parameter Real q = 3.0;
  Real v[3](each min = -1.0);
  Real w[2,2];
  Real s(min = 2 * p, max = 10 * q, nominal = p + q, start = p);
  Real t(max = q);
equation
  der(v) = {1, 2, 3} * p;
  w[1,1] = p; w[1,2] = 2 * p; w[2,1] = 3; w[2,2] = 4;
  s = v[1] + p;
  t = s * q;
end VecThenScalar;""",
    "ParamVec": """model ParamVec
  parameter Real k[2] = {1.0, 2.0};
  parameter Real g = 4.0;
  parameter Real h(min = g, max = 3 * g) = 5.0;
  input Real u(min = -g, max = g, fixed = true);
  output Real y;
  Real x(start = g, max = 2 * h);
equation
  der(x) = -k[1] * x + u;
  y = k[2] * x + h;
end ParamVec;""",
    "AliasDelay": """model AliasDelay
  parameter Real p = 1.5;
  constant Real g = 9.81;
  parameter Real q = 0.5;
  parameter String name = "abc";
  Real x(start = 1.0, min = -p);
  Real a(max = 3 * p);
  Real d;
  input Real u(fixed = true);
  output Real z;
equation
  der(x) = -x + u;
  a = -x;
  d = delay(x, p + q);
  z = a + d + g;
end AliasDelay;""",
}
MODELS["MatAttr"] = """model MatAttr
  parameter Real pm[2,3] = {{1, 2, 3}, {4, 5, 6}};
  parameter Real s = 2.0;
  Real w[2,3](min = pm, max = 10 * pm, nominal = s * pm);
  Real z;
equation
  w = fill(2 * time, 2, 3);
  z = w[2,1] + s;
end MatAttr;"""
OPTION_SETS = [{}, {"detect_aliases": True}, {"replace_constant_values": True, "expand_vectors": False}]
EXTRA_CASES = [("MatAttr", {"resolve_parameter_values": True})]


def eval_attr(model, attr, pvals):
    import casadi as ca
    if isinstance(attr, ca.MX):
        syms = [v.symbol for v in model.parameters]
        f = ca.Function("a", syms, [attr], {"allow_free": True})
        if f.has_free():
            return "free:" + str(f.get_free())
        return np.array(f(*pvals)).round(9).tolist()
    if isinstance(attr, (list, tuple, np.ndarray)):
        return np.array(attr, dtype=float).round(9).tolist()
    if isinstance(attr, float) and np.isnan(attr):
        return "nan"
    try:
        return np.array(ca.DM(attr)).round(9).tolist()
    except Exception:
        return repr(attr)


def norm(x):
    """broadcast-insensitive form of an attribute value"""
    if isinstance(x, list):
        flat = np.array(x, dtype=float).reshape(-1)
        if flat.size and np.all(flat == flat[0]) or (flat.size and np.all(np.isnan(flat))):
            return ["all", "nan" if np.isnan(flat[0]) else float(flat[0])]
        return flat.tolist()
    if isinstance(x, (int, float, bool)):
        return ["all", float(x)]
    return x


def fingerprint(m, rng):
    import casadi as ca
    pvals = [np.array(rng.uniform(0.5, 3.0, size=v.symbol.shape)) for v in m.parameters]
    out = {}
    for cat in ("states", "der_states", "alg_states", "inputs", "parameters", "constants"):
        lst = []
        for v in getattr(m, cat):
            d = {"name": v.symbol.name(), "shape": list(v.symbol.shape), "type": v.python_type.__name__}
            if cat != "der_states":
                for a in ("value", "min", "max", "start", "fixed", "nominal"):
                    if cat == "parameters" and a == "value":
                        continue
                    d[a] = norm(eval_attr(m, getattr(v, a), pvals))
            lst.append(d)
        out[cat] = lst
    out["outputs"] = list(m.outputs)
    out["delay_states"] = list(m.delay_states)
    out["aliases"] = sorted((c, sorted(a)) for c, a in m.alias_relation)
    out["string_parameters"] = [repr(v) for v in m.string_parameters]
    if m.delay_states:
        syms = [m.time] + [v.symbol for cat in ("states", "der_states", "alg_states", "inputs", "constants", "parameters") for v in getattr(m, cat)]
        vals = [rng.uniform(0.5, 2.0, size=s.shape) for s in syms]
        das = []
        for da in m.delay_arguments:
            f = ca.Function("d", syms, [ca.MX(da.expr), ca.MX(da.duration)], {"allow_free": True})
            das.append("free" if f.has_free() else [np.array(o).round(7).tolist() for o in f(*vals)])
        out["delay_arguments"] = das
    for fname in ("dae_residual_function", "initial_residual_function", "variable_metadata_function"):
        f = getattr(m, fname)
        args = [rng.uniform(0.5, 2.0, size=(f.size1_in(i), f.size2_in(i))) for i in range(f.n_in())]
        if f.n_out() == 0:
            out[fname] = []
            continue
        res = f(*args)
        res = res if isinstance(res, (list, tuple)) else [res]
        out[fname] = [np.array(r).round(7).tolist() for r in res]
    return out


def diff(a, b, path=""):
    if isinstance(a, dict) and isinstance(b, dict):
        for k in a:
            d = diff(a[k], b.get(k), path + "/" + str(k))
            if d:
                return d
        return None
    if isinstance(a, list) and isinstance(b, list) and len(a) == len(b):
        for i, (x, y) in enumerate(zip(a, b)):
            d = diff(x, y, path + "[%d]" % i)
            if d:
                return d
        return None
    if a != b and not (a != a and b != b):
        return "%s: cached %r vs fresh %r" % (path, b, a)
    return None


def derivative_attribute_witness():
    """alias detection makes der(x) the canonical variable of v = der(x) and gives it v's min / max / nominal (expressions of p):
    fresh compile versus the model read back from the cache"""
    from pymoca.backends.casadi.api import transfer_model
    txt = "model D\n  parameter Real p = 2.0;\n  Real x(start = 1.0);\n  Real v(min = -p, max = 3 * p, nominal = p);\nequation\n  der(x) = v;\n  v = -x;\nend D;\n"
    with tempfile.TemporaryDirectory() as tmp:
        with open(os.path.join(tmp, "D.mo"), "w") as f:
            f.write(txt)
        past = time.time() - 1000
        os.utime(os.path.join(tmp, "D.mo"), (past, past))
        o = {"detect_aliases": True, "allow_derivative_aliases": True}
        fresh = transfer_model(tmp, "D", dict(o, cache=False))
        transfer_model(tmp, "D", dict(o, cache=True))
        cached = transfer_model(tmp, "D", dict(o, cache=True))
        show = lambda m: [(v.symbol.name(), str(v.min), str(v.max), str(v.nominal)) for v in m.der_states]
        a, b = show(fresh), show(cached)
    bad = type(cached).__name__ == "CachedModel" and a != b
    return {"performed": True, "reproduces": bad, "input": {"model": txt, "options": o, "history": "transfer_model(cache=True) twice, second call loads the cache"},
            "observed": "cached der_states %s" % b, "expected": "as the fresh compile: %s" % a, "input_class": "derivative-variable-attribute-expression"}


def main():
    payload = json.load(sys.stdin)
    if payload.get("mode") == "replay" and payload.get("obligation") == "roundtrip2.attribute_expressions_of_derivative_variables_survive":
        print(json.dumps(derivative_attribute_witness()))
        return
    tier = payload.get("tier", "quick")
    seed = int(payload.get("seed", 0) or 0)
    from pymoca.backends.casadi.api import transfer_model
    failures, cases = [], 0
    todo = [(name, text, opts) for name, text in MODELS.items() for opts in (OPTION_SETS if tier != "quick" else OPTION_SETS[:2])]
    todo += [(name, MODELS[name], opts) for name, opts in EXTRA_CASES]
    for name, text, opts in todo:
        if True:
            cases += 1
            with tempfile.TemporaryDirectory() as tmp:
                with open(os.path.join(tmp, name + ".mo"), "w") as f:
                    f.write(text)
                past = time.time() - 1000
                os.utime(os.path.join(tmp, name + ".mo"), (past, past))
                try:
                    fresh = transfer_model(tmp, name, dict(opts, cache=False, expand_mx=True))
                    transfer_model(tmp, name, dict(opts, cache=True))
                    cached = transfer_model(tmp, name, dict(opts, cache=True))
                    if type(cached).__name__ != "CachedModel":
                        failures.append({"class": "cache", "input": {"model": name, "options": opts}, "observed": "second call did not load the cache", "expected": "CachedModel"})
                        continue
                    fa = fingerprint(fresh, np.random.RandomState(seed + 7))
                    fb = fingerprint(cached, np.random.RandomState(seed + 7))
                    d = diff(fa, fb)
                except BaseException as e:  # noqa
                    d = "%s: %s" % (type(e).__name__, str(e)[:150])
                if d:
                    failures.append({"class": "cache", "input": {"model": name, "options": opts}, "observed": d,
                                     "expected": "cached model equal to a fresh compile"})
    # compiled shared libraries, after an option change in the same folder: the libraries of the first save lie in the folder when
    # the second save generates its own
    for name, first, second in [("ParamVec", {}, {"replace_parameter_values": True}), ("AliasDelay", {"detect_aliases": True}, {})][: (1 if tier == "quick" else 2)]:
        cases += 1
        with tempfile.TemporaryDirectory() as tmp:
            with open(os.path.join(tmp, name + ".mo"), "w") as f:
                f.write(MODELS[name])
            past = time.time() - 1000
            os.utime(os.path.join(tmp, name + ".mo"), (past, past))
            try:
                transfer_model(tmp, name, dict(first, cache=False, codegen=True))
                transfer_model(tmp, name, dict(second, cache=False, codegen=True))
                cached = transfer_model(tmp, name, dict(second, cache=False, codegen=True))
                fresh = transfer_model(tmp, name, dict(second, cache=False, codegen=False, expand_mx=True))
                if type(cached).__name__ != "CachedModel":
                    d = "third call did not load the compiled libraries (got %s)" % type(cached).__name__
                else:
                    d = diff(fingerprint(fresh, np.random.RandomState(seed + 7)), fingerprint(cached, np.random.RandomState(seed + 7)))
            except BaseException as e:  # noqa
                d = "%s: %s" % (type(e).__name__, str(e)[:150])
            if d:
                failures.append({"class": "cache", "input": {"model": name, "history": ["transfer_model(codegen, %r)" % first, "transfer_model(codegen, %r)" % second, "transfer_model(codegen, %r)" % second]},
                                 "observed": d, "expected": "model loaded from the compiled libraries equal to a fresh compile with the current options"})
    # a cache written for one option set, then a request that differs in an option pymoca keeps no default for
    # (iterative_simplification is read by Model.simplify through options.get): whatever is returned equals a fresh compile
    ITER = "model Iter Real f; Real g; Real z; Real h; equation f = 0; g = 1; f = z - h; h = g; end Iter;"
    base = {"eliminate_constant_assignments": True, "detect_aliases": True, "replace_constant_values": True}
    for first, second in [(base, dict(base, iterative_simplification=True)), (dict(base, iterative_simplification=True), base)]:
        cases += 1
        with tempfile.TemporaryDirectory() as tmp:
            with open(os.path.join(tmp, "Iter.mo"), "w") as f:
                f.write(ITER)
            past = time.time() - 1000
            os.utime(os.path.join(tmp, "Iter.mo"), (past, past))
            try:
                transfer_model(tmp, "Iter", dict(first, cache=True))
                got = transfer_model(tmp, "Iter", dict(second, cache=True))
                fresh = transfer_model(tmp, "Iter", dict(second, cache=False, expand_mx=True))
                d = diff(fingerprint(fresh, np.random.RandomState(seed + 7)), fingerprint(got, np.random.RandomState(seed + 7)))
                if d:
                    d = "%s returned for the second request: %s" % (type(got).__name__, d)
            except BaseException as e:  # noqa
                d = "%s: %s" % (type(e).__name__, str(e)[:150])
            if d:
                failures.append({"class": "cache", "input": {"model": ITER, "history": ["transfer_model(cache, %r)" % first, "transfer_model(cache, %r)" % second]},
                                 "observed": d, "expected": "a model equal to a fresh compile with the options of the second request"})
    if payload.get("mode") == "bounded":
        print(json.dumps({"performed": True, "cases": cases, "distinct_nontrivial": cases, "failures": failures[:4],
                          "rule": "models with vectors/matrices before scalars, parameter-dependent attributes, aliases, delay and string parameters x option sets: the real transfer_model(cache=True) result (loaded from the cache file) is compared with a fresh compile on names, order, shapes, Python types, every attribute at random parameter values, outputs, delay states, aliases and the residual / initial residual / metadata functions at random points; plus code-generated libraries loaded after an option change in the same folder, and a cached request after a change of an option outside pymoca's default table",
                          "bound": "%d model/option pairs, one random point each (seed %d)" % (cases, seed)}))
    else:
        f = failures[0] if failures else None
        print(json.dumps({"performed": True, "reproduces": f is not None, "input": f and f["input"], "observed": f and f["observed"],
                          "expected": f and f["expected"], "input_class": "cache"}))


if __name__ == "__main__":
    main()
