#!/bin/bash
# Developer sweep of every thorough check with evidence diverted to out/thorough_evidence (the committed evidence/ is
# written by the quick sweep); the nested selftest of the thorough tier is skipped (it has its own runner).
cd "$(dirname "$0")/.."
mkdir -p out/thorough_evidence out/probe
for id in $(python3 -c "import json;print(' '.join(c['property_id'] for c in json.load(open('MANIFEST.json'))['checks']))"); do
  [ -n "$1" ] && [[ " $* " != *" $id "* ]] && continue
  t0=$(date +%s)
  PYVC_NO_SELFTEST=1 PYVC_EVIDENCE_DIR=$PWD/out/thorough_evidence ./check $id --tier thorough > out/probe/$id.thorough.log 2>&1
  rc=$?
  t1=$(date +%s)
  echo "$id rc=$rc violations=$(grep -c '^VIOLATION' out/probe/$id.thorough.log) known=$(grep -c '^KNOWN-FINDING' out/probe/$id.thorough.log) $((t1-t0))s"
done
