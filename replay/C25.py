"""C25 replay / bounded stand-in: XML produced by the real backend for generated models is parsed back and
compared with the flat AST (component per variable, equation per equation, operator for operator)."""
import itertools
import json
import sys

import numpy as np

LITS = ["2.5", "0", "1", "3", "1e-8", "2.5e-7", "1.25e-6", "1e20", "123456789.125", "0.1"]


def expr_text(rng, depth, names):
    if depth == 0 or rng.rand() < 0.25:
        return str(rng.choice(names)) if rng.rand() < 0.5 else str(rng.choice(LITS))
    k = rng.randint(0, 5)
    a = expr_text(rng, depth - 1, names)
    b = expr_text(rng, depth - 1, names)
    if k == 0:
        return "(%s + %s)" % (a, b)
    if k == 1:
        return "(%s * %s)" % (a, b)
    if k == 2:
        return "(-(%s))" % a
    if k == 3:
        return "sin(%s)" % a
    return "(%s - %s / 2)" % (a, b)


def model(rng, idx):
    decl = ["  parameter Real p(start = %s) = %s;" % (rng.choice(LITS), rng.choice(LITS)), "  constant Real c = %s;" % rng.choice(LITS),
            "  discrete Real d(start = %s);" % rng.choice(LITS), "  Real x(start = %s, fixed = true);" % rng.choice(LITS), "  Real y;",
            "  Integer n(start = 3);", "  parameter Boolean b%d = %s;" % (idx, rng.choice(["false", "true"])),
            "  discrete Boolean l(start = %s);" % rng.choice(["false", "true"]), "  Real w = %s;" % expr_text(rng, 2, ["x", "p", "c"]),
            "  Real zero(start = 0) = 0.0;"]
    names = ["p", "c", "x", "y", "d"]
    eqs = ["  der(x) = %s;" % expr_text(rng, 3, names), "  y = %s;" % expr_text(rng, 3, names), "  d = %s;" % expr_text(rng, 2, names),
           "  n = 2;"]
    return "model M%d\n%s\nequation\n%s\nend M%d;\n" % (idx, "\n".join(decl), "\n".join(eqs), idx)


def same_number(txt, v):
    try:
        if isinstance(v, bool):
            return txt == str(v)
        return float(txt) == float(v)
    except (TypeError, ValueError):
        return False


def cmp_expr(el, node, ast):
    tag = el.tag
    if isinstance(node, ast.Primary):
        return None if tag == "real" and same_number(el.get("value"), node.value) else "literal %r became <%s value=%r>" % (node.value, tag, el.get("value"))
    if isinstance(node, ast.Symbol):
        # declaration equation: the symbol itself is the left-hand side
        return None if tag == "local" and el.get("name") == node.name else "variable %s (left side of its declaration equation) became <%s name=%r>" % (node.name, tag, el.get("name"))
    if isinstance(node, ast.ComponentRef):
        return None if tag == "local" and el.get("name") == node.name else "reference %s became <%s name=%r>" % (node.name, tag, el.get("name"))
    if isinstance(node, ast.Expression):
        op = node.operator.name if isinstance(node.operator, ast.ComponentRef) else node.operator
        want_tag, attr = ("operator", "name") if len(node.operands) == 1 else ("apply", "builtin")
        if tag != want_tag or el.get(attr) != op:
            return "operator %r/%d became <%s %s=%r>" % (op, len(node.operands), tag, attr, el.get(attr))
        kids = list(el)
        if len(kids) != len(node.operands):
            return "operator %r has %d operand elements for %d operands" % (op, len(kids), len(node.operands))
        for k, o in zip(kids, node.operands):
            r = cmp_expr(k, o, ast)
            if r:
                return r
        return None
    return "unsupported node %s" % type(node).__name__


def judge(txt, name):
    import copy
    from lxml import etree
    import pymoca.parser
    from pymoca import ast
    from pymoca.tree import flatten
    from pymoca.backends.xml import generator
    tree = pymoca.parser.parse(txt)
    xml_txt = generator.generate(tree, name)
    flat = flatten(copy.deepcopy(tree), ast.ComponentRef(name=name))
    fc = flat.classes[name]
    try:
        root = etree.fromstring(xml_txt.encode())
    except Exception as e:  # noqa
        return "not well-formed: %s" % e
    # the class element of THIS model (called functions are classes of the flat tree too)
    cls = next((cd.find("class") for cd in root.iter("classDefinition") if cd.get("name") == name), None)
    if cls is None:
        cls = root.find(".//class")
    comps = cls.findall("component")
    if [c.get("name") for c in comps] != list(fc.symbols.keys()):
        return "components %s for symbols %s" % ([c.get("name") for c in comps], list(fc.symbols.keys()))
    for c, s in zip(comps, fc.symbols.values()):
        if c.find("builtin").get("name") != s.type.name:
            return "%s: builtin %r, type %s" % (s.name, c.find("builtin").get("name"), s.type.name)
        var = next((v for v in ["discrete", "continuous", "parameter", "constant"] if v in s.prefixes), None)
        if c.get("variability") != var:
            return "%s: variability %r, expected %r" % (s.name, c.get("variability"), var)
        items = {i.get("name"): i for i in c.find("modifier").findall("item")}
        for f in ("start", "value"):
            v = getattr(s, f).value
            if v is None:
                if f in items:
                    return "%s: unexpected %s item" % (s.name, f)
            elif f not in items or not same_number(items[f][0].get("value"), v):
                return "%s.%s: literal %r became %r" % (s.name, f, v, items[f][0].get("value") if f in items else None)
    eqs = list(cls.find("equation"))
    if len(eqs) != len(fc.equations):
        return "%d equation elements for %d equations" % (len(eqs), len(fc.equations))
    for el, eq in zip(eqs, fc.equations):
        if el.tag != "equal" or len(el) != 2:
            return "equation element <%s> with %d children" % (el.tag, len(el))
        for k, side in zip(el, (eq.left, eq.right)):
            r = cmp_expr(k, side, ast)
            if r:
                return r
    return None


WHEN_MODEL = ("model W Real x(start = 1); Real y; discrete Real d; Boolean c; equation der(x) = -x; c = x < 0.5; "
              "when c then y = 0.5 * x; d = x; end when; end W;\n")


# a called user function whose formal parameters are named like top-level variables of the model
FUNCTION_MODEL = ("function Sat input Real x; input Real lim; output Real r; algorithm r := x * lim; end Sat; "
                  "model FP parameter Real lim = 0.5; Real x(start = 1); discrete Real r; Real y; equation der(x) = -x; r = 2; y = Sat(x, lim); end FP;\n")


def judge_when():
    """variables assigned inside a when-equation: each component carries the variability of ITS declaration"""
    import copy
    from lxml import etree
    import pymoca.parser
    from pymoca import ast
    from pymoca.tree import flatten
    from pymoca.backends.xml import generator
    tree = pymoca.parser.parse(WHEN_MODEL)
    root = etree.fromstring(generator.generate(tree, "W").encode())
    fc = flatten(copy.deepcopy(tree), ast.ComponentRef(name="W")).classes["W"]
    comps = root.find(".//class").findall("component")
    if [c.get("name") for c in comps] != list(fc.symbols.keys()):
        return "components %s for symbols %s" % ([c.get("name") for c in comps], list(fc.symbols.keys()))
    for c, s_ in zip(comps, fc.symbols.values()):
        var = next((v for v in ["discrete", "continuous", "parameter", "constant"] if v in s_.prefixes), None)
        if c.get("variability") != var:
            return "%s: variability %r, the flat variable's prefixes %s give %r" % (s_.name, c.get("variability"), list(s_.prefixes), var)
    if len(root.findall(".//when")) != 1:
        return "%d <when> elements for one when-equation" % len(root.findall(".//when"))
    return None


def main():
    payload = json.load(sys.stdin)
    tier, seed = payload.get("tier", "quick"), int(payload.get("seed", 0) or 0)
    rng = np.random.RandomState(seed + 25)
    n_models = 40 if tier == "quick" else 400
    failures, n = [], 0
    n += 1
    try:
        bad = judge_when()
    except BaseException as e:  # noqa
        bad = "%s: %s" % (type(e).__name__, str(e)[:120])
    if bad:
        failures.append({"class": "xml", "input": WHEN_MODEL, "observed": bad, "expected": "XML mirroring the flat model"})
    n += 1
    try:
        bad = judge(FUNCTION_MODEL, "FP")
    except BaseException as e:  # noqa
        bad = "%s: %s" % (type(e).__name__, str(e)[:120])
    if bad:
        failures.append({"class": "xml", "input": FUNCTION_MODEL, "observed": bad, "expected": "XML mirroring the flat model"})
    for i in range(n_models):
        n += 1
        txt = model(rng, i)
        try:
            bad = judge(txt, "M%d" % i)
        except BaseException as e:  # noqa
            bad = "%s: %s" % (type(e).__name__, str(e)[:120])
        if bad:
            failures.append({"class": "xml", "input": txt, "observed": bad, "expected": "XML mirroring the flat model"})
            if len(failures) >= 3:
                break
    if payload.get("mode") == "bounded":
        print(json.dumps({"performed": True, "cases": n, "distinct_nontrivial": n, "failures": failures,
                          "rule": "a model with a when-equation (components keep the variability of their declarations); a model calling a function whose formal parameters are named like its own variables; random flat models (seed %d) with unary / n-ary operators, function calls, variables of each variability (incl. Boolean variables with literal false/true and zero-valued literals), declaration equations (Real w = expr) and literals incl. 1e-8, 2.5e-7, 1e20: the XML text of the real backend is parsed with lxml and compared with an independent flatten() of the same model" % seed,
                          "bound": "%d models, expression depth 3" % n}))
    else:
        f = failures[0] if failures else None
        print(json.dumps({"performed": True, "reproduces": f is not None, "input": f and f["input"], "observed": f and f["observed"],
                          "expected": f and f["expected"], "input_class": "xml"}))


if __name__ == "__main__":
    main()
