#!/usr/bin/env python3
"""Mutation self-test (DESIGN 2.8): applies scripted edits to a scratch copy of /repo (outside /repo and
/verif, removed afterwards) and runs the registered quick check of the property against it.
usage: selftest/run.py [PROP ...] [-k NAME]      mutants are in selftest/mutants/<PROP>.json:
  [{"name":..., "file":..., "find":..., "replace":..., "expect": "violation"|"pass", "why":...}]
Also accepts seeded/<dir>/patch.diff (expect violation of meta.property)."""
import json, os, shutil, subprocess, sys, tempfile, glob

VERIF = os.path.dirname(os.path.dirname(os.path.abspath(__file__)))


def scratch():
    d = tempfile.mkdtemp(prefix="pyvc_selftest_", dir="/tmp")
    subprocess.check_call(["git", "-C", "/repo", "worktree", "add", "--detach", "-f", d + "/repo", "HEAD"],
                          stdout=subprocess.DEVNULL, stderr=subprocess.DEVNULL)
    # carry over uncommitted state of /repo as well (checks must follow the working tree)
    diff = subprocess.run(["git", "-C", "/repo", "diff", "HEAD"], capture_output=True, text=True).stdout
    if diff.strip():
        subprocess.run(["git", "-C", d + "/repo", "apply"], input=diff, text=True, check=True)
    return d


def cleanup(d):
    subprocess.call(["git", "-C", "/repo", "worktree", "remove", "--force", d + "/repo"],
                    stdout=subprocess.DEVNULL, stderr=subprocess.DEVNULL)
    shutil.rmtree(d, ignore_errors=True)


def run_check(prop, repo):
    # evidence of a run against a scratch tree goes under out/ (git-ignored), never into evidence/
    env = dict(os.environ, PYVC_REPO=repo, PYVC_EVIDENCE_DIR=os.path.join(VERIF, "out", "selftest_evidence"))
    p = subprocess.run([os.path.join(VERIF, "check"), prop, "--tier", "quick"], capture_output=True, text=True, env=env, cwd=VERIF)
    return p.returncode, p.stdout + p.stderr


def one_job(prop, name, m):
    """returns (report text, 1 if mismatch else 0)"""
    d = scratch()
    try:
        repo = d + "/repo"
        if "patch" in m:
            r = subprocess.run(["git", "-C", repo, "apply", m["patch"]], capture_output=True, text=True)
            if r.returncode:
                return "%-5s %-45s PATCH-DOES-NOT-APPLY %s" % (prop, name, r.stderr.strip()[:100]), 1
        else:
            path = os.path.join(repo, m["file"])
            text = open(path).read()
            if text.count(m["find"]) != 1 and not (m.get("replace_all") and text.count(m["find"]) > 1):
                return "%-5s %-45s ANCHOR-NOT-UNIQUE (%d)" % (prop, name, text.count(m["find"])), 1
            open(path, "w").write(text.replace(m["find"], m["replace"]))
        rc, out = run_check(prop, repo)
        got = "violation" if rc == 1 and "VIOLATION property=%s" % prop in out else ("pass" if rc == 0 else "rc=%d" % rc)
        ok = got == m["expect"]
        viol = [l for l in out.splitlines() if l.startswith("failed obligation")]
        line = "%-5s %-45s expect=%-9s got=%-9s %s  %s" % (prop, name, m["expect"], got, "OK" if ok else "MISMATCH", "; ".join(v[19:] for v in viol[:4]))
        if not ok:
            line += "\n      " + "\n      ".join(out.splitlines()[-8:])
        return line, 0 if ok else 1
    finally:
        cleanup(d)


def main():
    args = [a for a in sys.argv[1:]]
    if "-j" in args:
        i = args.index("-j"); del args[i:i + 2]
    only = None
    if "-k" in args:
        i = args.index("-k"); only = args[i + 1]; del args[i:i + 2]
    props = args
    jobs = []
    for f in sorted(glob.glob(os.path.join(VERIF, "selftest", "mutants", "*.json"))):
        prop = os.path.basename(f)[:-5]
        if props and prop not in props:
            continue
        for m in json.load(open(f)):
            jobs.append((prop, m["name"], m))
    for d in sorted(glob.glob(os.path.join(VERIF, "seeded", "*"))):
        meta = json.load(open(os.path.join(d, "meta.json")))
        prop = meta["property"]
        if props and prop not in props:
            continue
        jobs.append((prop, "seeded/" + os.path.basename(d), {"patch": os.path.join(d, "patch.diff"), "expect": "violation"}))
    nj = 1
    if "-j" in sys.argv:
        nj = int(sys.argv[sys.argv.index("-j") + 1])
    todo = [j for j in jobs if not only or only in j[1]]
    if nj > 1:
        from concurrent.futures import ThreadPoolExecutor
        with ThreadPoolExecutor(max_workers=nj) as ex:
            results = list(ex.map(lambda j: one_job(*j), todo))
        bad = 0
        for line, b in results:
            print(line)
            bad += b
        print("selftest: %d jobs, %d mismatches" % (len(todo), bad))
        return 1 if bad else 0
    bad = 0
    for prop, name, m in jobs:
        if only and only not in name:
            continue
        d = scratch()
        try:
            repo = d + "/repo"
            if "patch" in m:
                r = subprocess.run(["git", "-C", repo, "apply", m["patch"]], capture_output=True, text=True)
                if r.returncode:
                    print("%-5s %-45s PATCH-DOES-NOT-APPLY %s" % (prop, name, r.stderr.strip()[:100])); bad += 1; continue
            else:
                path = os.path.join(repo, m["file"])
                text = open(path).read()
                if text.count(m["find"]) != 1 and not (m.get("replace_all") and text.count(m["find"]) > 1):
                    print("%-5s %-45s ANCHOR-NOT-UNIQUE (%d)" % (prop, name, text.count(m["find"]))); bad += 1; continue
                open(path, "w").write(text.replace(m["find"], m["replace"]))
            rc, out = run_check(prop, repo)
            got = "violation" if rc == 1 and "VIOLATION property=%s" % prop in out else ("pass" if rc == 0 else "rc=%d" % rc)
            ok = got == m["expect"]
            if not ok:
                bad += 1
            viol = [l for l in out.splitlines() if l.startswith("failed obligation")]
            print("%-5s %-45s expect=%-9s got=%-9s %s  %s" % (prop, name, m["expect"], got, "OK" if ok else "MISMATCH", "; ".join(v[19:] for v in viol[:4])))
            if not ok:
                print("      " + "\n      ".join(out.splitlines()[-8:]))
        finally:
            cleanup(d)
    print("selftest: %d jobs, %d mismatches" % (len([j for j in jobs if not only or only in j[1]]), bad))
    return 1 if bad else 0


if __name__ == "__main__":
    sys.exit(main())
