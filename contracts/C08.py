"""C08 -- modifications take effect with Modelica precedence in either spelling.

pymoca represents precedence by ORDER: every list of pending modification arguments is ordered from the innermost
(declaration, base class) to the outermost (enclosing component, extends clause), and modify_symbol applies the
arguments of the matching scope in list order, so the last one -- the outermost -- wins.  The contracts pin this
invariant down on each function that builds or consumes such a list (real source, callees / recursive calls under
contract):

  modify_symbol              applies exactly the arguments whose scope is None or the current class, in order (the last
                             applicable one determines the attribute); arguments of other scopes are kept, in order;
                             an unknown attribute is rejected.
  flatten_extends            resulting environment = base classes' environments (in order), then the environment handed
                             in by the extends clause / enclosing component: the outer one is last.
  build_instance_tree        (symbol loop fragment) elementary variable: pending arguments = the declaration's own, then
                             the enclosing environment's, in order; a value binding becomes a `value` argument; the
                             nested spelling x(start = e) and the dotted spelling x.start = e yield the SAME argument
                             (attribute start, expression e, scope kept).  Component: a dotted argument a.p... is handed
                             one level down as p..., after the component's own modifications, with the scope of the class
                             where it was written; the nested two-level spelling is either equivalent or rejected.
  flatten_symbols            modifications are applied (scope = the class being flattened) BEFORE that level's references
                             are renamed with that level's instance prefix: an expression is resolved in the scope where
                             it was written (references inside still-pending modifications are left alone: C07's renamer
                             contract).
"""
import z3

from pyvc import ops
from pyvc.values import Ext, NoOp, PyRaise, Unsupported, VBound, VDict, VList, VObj, stub

from . import copy_model
from .ast_common import AstFactory, base_modules
from .C07 import put, setup, symbol_loop_selector

AST = "pymoca.ast"
TREE = "pymoca.tree"


def elem_arg(A, path, value, scope=None):
    """ClassModificationArgument for  path = value  (path dotted: a.x.start)"""
    names = path.split(".")
    ref = None
    for n in reversed(names):
        r = A.ref(n)
        if ref is not None:
            r.fields["child"] = VList([ref])
        ref = r
    em = A.new("ElementModification", component=ref, modifications=VList([value]))
    return A.new("ClassModificationArgument", value=em, scope=scope)


def nested_arg(A, name, inner_args, scope=None):
    """ClassModificationArgument for  name( inner_args )"""
    em = A.new("ElementModification", component=A.ref(name), modifications=VList([A.new("ClassModification", arguments=VList(list(inner_args)))]))
    return A.new("ClassModificationArgument", value=em, scope=scope)


def describe(arg):
    """(attribute path, expression object id, scope object) of a pending argument"""
    em = arg.fields["value"]
    names, c = [], em.fields["component"]
    while True:
        names.append(c.fields["name"])
        if not c.fields["child"].items:
            break
        c = c.fields["child"].items[0]
    return (".".join(names), em.fields["modifications"].items[0], arg.fields["scope"])


# ------------------------------------------------------------------------------------------------ modify_symbol
def h_modify_symbol(eng):
    A = setup(eng)
    f = eng.find_function(TREE, "modify_symbol")
    root = A.new("Tree", name="root")
    here = A.new("InstanceClass", name="M", type="model")
    twin = A.new("InstanceClass", name="M", type="model")      # same simple name, other package
    pk = A.new("Class", name="Other", type="package")
    add = eng.find_function(AST, "Class.add_class")
    eng.call(VBound(add, root), [here], {})
    eng.call(VBound(add, root), [pk], {})
    eng.call(VBound(add, pk), [twin], {})
    # the class being flattened may be a COPY of the class the argument's scope points at (a local class is instantiated once for the
    # enclosing class and copied again for every component of its type): same place in the hierarchy, another object
    here_copy = A.new("InstanceClass", name="M", type="model")
    here_copy.fields["parent"] = root
    n = 1 + eng.choice(3)
    attrs, scopes, vals, args = [], [], [], []
    for i in range(n):
        attrs.append(["start", "value", "min"][eng.choice(3)])
        scopes.append([None, here, twin, here_copy][eng.choice(4)])
        vals.append(A.prim(100 + i))
        args.append(elem_arg(A, attrs[-1], vals[-1], scopes[-1]))
    sym = A.new("Symbol", name="x", type=A.ref("Real"))
    decl = {k: sym.fields[k] for k in ("start", "value", "min")}
    sym.fields["class_modification"] = A.new("ClassModification", arguments=VList(list(args)))
    eng.input("arguments", [(a, "None" if s is None else ("this class" if s is here else ("another object for this class (a copy)" if s is here_copy else "other class of the same simple name")))
                            for a, s in zip(attrs, scopes)])
    eng.call(f, [sym, here], {})
    eng.cover("modify.n%d" % n)
    if twin in scopes:
        eng.cover("modify.other_scope_same_simple_name")
    if here_copy in scopes:
        eng.cover("modify.scope_is_a_copy_of_this_class")
    # (P) a modification belongs to the class where it was WRITTEN (its place in the hierarchy), whichever object represents that class
    applicable = [i for i in range(n) if scopes[i] is None or scopes[i] is here or scopes[i] is here_copy]
    # (P) the LAST applicable argument of an attribute determines it (list order = innermost .. outermost)
    for a in ("start", "value", "min"):
        idx = [i for i in applicable if attrs[i] == a]
        want = vals[idx[-1]] if idx else decl[a]
        eng.prove("modify.last_applicable_argument_wins", z3.BoolVal(sym.fields[a] is want), attribute=a)
    left = sym.fields["class_modification"].fields["arguments"].items
    eng.prove("modify.arguments_of_other_scopes_stay_pending_in_order", z3.BoolVal([id(x) for x in left] == [id(args[i]) for i in range(n) if i not in applicable]))


def h_modify_symbol_rejects_unknown(eng):
    A = setup(eng)
    f = eng.find_function(TREE, "modify_symbol")
    root = A.new("Tree", name="root")
    here = A.new("InstanceClass", name="M", type="model")
    eng.call(VBound(eng.find_function(AST, "Class.add_class"), root), [here], {})
    sym = A.new("Symbol", name="x", type=A.ref("Real"))
    name = ["strt", "x", "name", "type", "prefixes"][eng.choice(5)]
    sym.fields["class_modification"] = A.new("ClassModification", arguments=VList([elem_arg(A, name, A.prim(1))]))
    before = dict(sym.fields)
    eng.input("attribute", name)
    raised = False
    try:
        eng.call(f, [sym, here], {})
    except PyRaise:
        raised = True
    eng.cover("modify.unknown")
    eng.prove("modify.unknown_attribute_is_rejected_not_stored", z3.BoolVal(raised and all(sym.fields[k] is before[k] for k in ("name", "type", "prefixes", "start", "value"))))


# ------------------------------------------------------------------------------------------------ flatten_extends: environment order
def h_extends_environment_order(eng):
    A = setup(eng)
    f = eng.find_function(TREE, "flatten_extends")
    nbases = eng.choice(3)
    root = A.new("Tree", name="root")
    me = A.new("Class", name="D", type="model")
    add = eng.find_function(AST, "Class.add_class")
    eng.call(VBound(add, root), [me], {})
    bases, clause_mods, base_env_args = [], [], []
    for i in range(nbases):
        m = A.new("ClassModification", arguments=VList([elem_arg(A, "p", A.prim(10 + i))]))
        clause_mods.append(m)
        me.fields["extends"].items.append(A.new("ExtendsClause", component=A.ref("B%d" % i), class_modification=m))
        b = A.new("Class", name="B%d" % i, type="model")
        eng.call(VBound(add, root), [b], {})
        bases.append(b)
    outer_args = [elem_arg(A, "p", A.prim(99)), elem_arg(A, "q", A.prim(98))]
    outer = A.new("ClassModification", arguments=VList(list(outer_args)))
    state = {"outer": True}

    def rec(eng, args, kwargs):
        if state["outer"]:
            state["outer"] = False
            return eng.call_function(f, list(args), kwargs, bypass_contract=True)
        c, env = args[0], args[1] if len(args) > 1 else kwargs.get("modification_environment")
        # induction hypothesis: the base's environment ends with what its extends clause handed in
        out = A.new("InstanceClass", name=c.fields["name"], type="model")
        own = elem_arg(A, "p", A.prim(1))
        base_env_args.append([own] + list(env.fields["arguments"].items))
        out.fields["modification_environment"] = A.new("ClassModification", arguments=VList([own] + list(env.fields["arguments"].items)))
        return out

    def find_class(eng, args, kwargs):
        cp = A.new("Class", name=args[1].fields["name"], type="model")
        cp.fields["parent"] = root
        return cp
    eng.call_contracts["flatten_extends"] = rec
    eng.call_contracts["Class.find_class"] = find_class
    out = eng.call(f, [me, outer], {})
    eng.input("bases", nbases)
    eng.cover("envorder.%d_bases" % nbases)
    got = out.fields["modification_environment"].fields["arguments"].items
    want = [a for env in base_env_args for a in env] + outer_args
    # (P) an extends clause's / enclosing component's modifications come after (override) the base classes' own
    eng.prove("envorder.base_environments_then_the_one_handed_in", z3.BoolVal([id(x) for x in got] == [id(x) for x in want]), n=len(got))
    eng.prove("envorder.each_base_gets_its_own_clause_modifications", z3.BoolVal(all(env[1:] == list(clause_mods[i].fields["arguments"].items) for i, env in enumerate(base_env_args))))


def h_extends_of_elementary_types(eng):
    """flatten_extends on a chain of type definitions  type T1 = Real(a1); type T2 = T1(a2); ... : the real function, real recursion
    and the real find_class (built-in Real included).  A class that inherits from an elementary type -- directly or through other
    type definitions -- IS that elementary type: every modification collected on the way, the one handed in from outside last, ends
    up on its value symbol in that order (so that the outermost wins), and nothing stays behind in the class's own environment
    (where nothing would ever apply it)."""
    A = setup(eng)
    eng.call_contracts.pop("flatten_extends", None)
    eng.call_contracts.pop("Class.find_class", None)
    f = eng.find_function(TREE, "flatten_extends")
    add = eng.find_function(AST, "Class.add_class")
    depth = 1 + eng.choice(3)
    eng.input("chain_of_type_definitions", depth)
    root = A.new("Tree", name="root")
    level_args, prev = [], "Real"
    last = None
    for i in range(depth):
        arg = elem_arg(A, ["max", "min", "nominal"][i], A.prim(10 + i))
        level_args.append(arg)
        c = A.new("Class", name="T%d" % (i + 1), type="type")
        c.fields["extends"].items.append(A.new("ExtendsClause", component=A.ref(prev), class_modification=A.new("ClassModification", arguments=VList([arg]))))
        eng.call(VBound(add, root), [c], {})
        prev, last = "T%d" % (i + 1), c
    outer_args = [elem_arg(A, "min", A.prim(7)), elem_arg(A, "start", A.prim(3))]
    outer = A.new("ClassModification", arguments=VList(list(outer_args)))
    try:
        out = eng.call(f, [last, outer], {"parent": root})
    except PyRaise as e:
        eng.prove("alias.no_exception", False, exc=repr(e.exc))
        return
    eng.cover("alias.depth%d" % depth)
    eng.prove("alias.a_type_defined_from_an_elementary_type_is_elementary_at_any_depth", z3.BoolVal(out.fields.get("type") == "__builtin"), type=repr(out.fields.get("type")))
    vs = out.fields["symbols"].vals[out.fields["symbols"].keys.index("__value")] if "__value" in out.fields["symbols"].keys else None
    cm = vs.fields.get("class_modification") if vs is not None else None
    got = list(cm.fields["arguments"].items) if isinstance(cm, VObj) else []
    want = level_args + outer_args
    # (type definitions further in are looked up as copies: compare what the argument says, attribute path and value)
    says = lambda a: (describe(a)[0], describe(a)[1].fields.get("value") if isinstance(describe(a)[1], VObj) else None)
    eng.prove("alias.every_modification_reaches_the_value_symbol_innermost_first_outermost_last",
              z3.BoolVal([says(x) for x in got] == [says(x) for x in want] and [id(x) for x in got[-2:]] == [id(x) for x in outer_args]),
              got=[says(a) for a in got], want=[says(a) for a in want])
    left = out.fields["modification_environment"].fields["arguments"].items
    eng.prove("alias.no_modification_is_left_behind_in_the_class_environment", z3.BoolVal(len(left) == 0), left=[describe(a)[0] for a in left])


# ------------------------------------------------------------------------------------------------ build_instance_tree: elementary variable
def run_symbol_loop(eng, A, ext, contracts=None):
    eng.call_contracts["extends_builtin"] = lambda eng, args, kwargs: False
    for k, v in (contracts or {}).items():
        eng.call_contracts[k] = v
    eng.exec_fragment(TREE, "build_instance_tree", symbol_loop_selector, {"extended_orig_class": ext, "orig_class": ext}, label="symbol-loop")


def elementary_setup(eng, A, env_args, decl_args):
    ext = A.new("InstanceClass", name="M", type="model")
    ext.fields["modification_environment"] = A.new("ClassModification", arguments=VList(list(env_args)))
    x = A.new("Symbol", name="x", type=A.ref("Real"))
    if decl_args is not None:
        x.fields["class_modification"] = A.new("ClassModification", arguments=VList(list(decl_args)))
    put(eng, ext.fields["symbols"], "x", x)
    put(eng, ext.fields["symbols"], "y", A.new("Symbol", name="y", type=A.ref("Real")))

    def find_class(eng, args, kwargs):
        raise PyRaise(eng.make_exc("FoundElementaryClassError", ""))
    return ext, x, {"Class.find_class": find_class}


def h_elementary_spellings(eng):
    A = setup(eng)
    scope = A.new("InstanceClass", name="Outer", type="model")
    e = A.prim(5)
    spelling = eng.choice(3)
    has_decl = eng.choice(2)
    decl = [elem_arg(A, "start", A.prim(1))] if has_decl else None
    if spelling == 0:
        env = [nested_arg(A, "x", [elem_arg(A, "start", e, None)], scope)]     # as parsed: only the outer argument has met its scope
    elif spelling == 1:
        env = [elem_arg(A, "x.start", e, scope)]
    else:
        env = [elem_arg(A, "x", e, scope)]               # value binding x = e
    other = elem_arg(A, "y.min", A.prim(0), scope)
    env.append(other)
    ext, x, contracts = elementary_setup(eng, A, env, decl)
    eng.input("spelling", ["x(start = e)", "x.start = e", "x = e"][spelling])
    run_symbol_loop(eng, A, ext, contracts)
    eng.cover("elem.%s" % ["nested", "dotted", "binding"][spelling])
    pend = [describe(a) for a in x.fields["class_modification"].fields["arguments"].items]
    want_attr = "value" if spelling == 2 else "start"
    # (P) either spelling of an attribute modification yields the same pending argument; a binding becomes `value`
    mine = pend[1:] if has_decl else pend
    eng.prove("elem.spelling_yields_attribute_expression_scope", z3.BoolVal(len(mine) == 1 and mine[0][0] == want_attr and mine[0][1] is e and mine[0][2] is scope),
              got=[(p[0], p[2] is scope) for p in mine])
    # (P) the declaration's own modifications stay in front (the enclosing one overrides them)
    if has_decl:
        eng.prove("elem.declaration_modifications_precede_enclosing_ones", z3.BoolVal(len(pend) == 2 and pend[0][0] == "start" and pend[0][1] is decl[0].fields["value"].fields["modifications"].items[0]))
    # (P) arguments for other variables are not consumed by x and reach their own variable
    ypend = [describe(a) for a in ext.fields["symbols"].vals[1].fields["class_modification"].fields["arguments"].items]
    eng.prove("elem.modifications_reach_only_their_own_variable", z3.BoolVal(len(ypend) == 1 and ypend[0][0] == "min" and not ext.fields["modification_environment"].fields["arguments"].items))


def h_elementary_order(eng):
    A = setup(eng)
    scope1 = A.new("InstanceClass", name="Mid", type="model")
    scope2 = A.new("InstanceClass", name="Outer", type="model")
    e1, e2, e3 = A.prim(11), A.prim(12), A.prim(13)
    forms = [lambda v, s: nested_arg(A, "x", [elem_arg(A, "start", v, None)], s), lambda v, s: elem_arg(A, "x.start", v, s)]
    k1, k2 = eng.choice(2), eng.choice(2)
    env = [forms[k1](e2, scope1), forms[k2](e3, scope2)]       # environment order: inner level first, outer level last
    ext, x, contracts = elementary_setup(eng, A, env, [elem_arg(A, "start", e1)])
    eng.input("spellings", [["nested", "dotted"][k1], ["nested", "dotted"][k2]])
    run_symbol_loop(eng, A, ext, contracts)
    eng.cover("elem.order")
    pend = [describe(a) for a in x.fields["class_modification"].fields["arguments"].items]
    # (P) innermost .. outermost order is preserved whatever the spellings, so the outermost is applied last
    eng.prove("elem.pending_order_is_declaration_then_inner_then_outer", z3.BoolVal([p[1] for p in pend] == [e1, e2, e3] and [p[0] for p in pend] == ["start"] * 3 and
                                                                                  [p[2] for p in pend] == [None, scope1, scope2]))


# ------------------------------------------------------------------------------------------------ build_instance_tree: component
def h_component_shift(eng):
    A = setup(eng)
    written_in = A.new("InstanceClass", name="Outer", type="model")
    e_own, e_env = A.prim(2), A.prim(7)
    spelling = eng.choice(3)       # dotted a.p = e | dotted attribute a.x.start = e | nested a(p = e)
    scoped = eng.choice(2)         # the environment argument already carries the scope of an outer class, or none yet
    sc = written_in if scoped else None
    if spelling == 0:
        env_arg = elem_arg(A, "a.p", e_env, sc)
    elif spelling == 1:
        env_arg = elem_arg(A, "a.x.start", e_env, sc)
    else:
        env_arg = nested_arg(A, "a", [elem_arg(A, "p", e_env, sc)], sc)
    ext = A.new("InstanceClass", name="M", type="model")
    ext.fields["modification_environment"] = A.new("ClassModification", arguments=VList([env_arg]))
    own = elem_arg(A, "p", e_own)
    a = A.new("Symbol", name="a", type=A.ref("Comp"))
    a.fields["class_modification"] = A.new("ClassModification", arguments=VList([own]))
    put(eng, ext.fields["symbols"], "a", a)
    handed = {}

    def find_class(eng, args, kwargs):
        cp = A.new("Class", name="Comp", type="model")
        cp.fields["parent"] = ext
        return cp

    def bit(eng, args, kwargs):
        handed["env"] = [describe(x) for x in args[1].fields["arguments"].items]
        return A.new("InstanceClass", name="Comp", type="model")
    eng.input("spelling", ["a.p = e", "a.x.start = e", "a(p = e)"][spelling])
    raised = None
    try:
        run_symbol_loop(eng, A, ext, {"Class.find_class": find_class, "build_instance_tree": bit})
    except PyRaise as r:
        raised = r
    eng.cover("comp.%s" % ["dotted", "dotted_attribute", "nested"][spelling])
    want_path = ["p", "x.start", "p"][spelling]
    want_scope = written_in if scoped else ext
    if raised is not None:
        # the nested two-level spelling may be rejected, but never silently changed
        eng.prove("comp.only_the_nested_spelling_may_be_rejected", z3.BoolVal(spelling == 2))
        eng.cover("comp.rejected")
        return
    env = handed.get("env")
    # (P) handed one level down, after the component's own modifications, resolved in the class where it was written
    eng.prove("comp.argument_is_handed_one_level_down_after_own_modifications",
              z3.BoolVal(env is not None and len(env) == 2 and env[0][1] is e_own and env[1][0] == want_path and env[1][1] is e_env), got=[p[0] for p in env or []])
    eng.prove("comp.scope_is_the_class_where_the_modification_was_written", z3.BoolVal(env is not None and len(env) == 2 and env[1][2] is want_scope and env[0][2] is ext))
    eng.prove("comp.environment_is_consumed", z3.BoolVal(not ext.fields["modification_environment"].fields["arguments"].items and a.fields["class_modification"] is None))


# ------------------------------------------------------------------------------------------------ flatten_symbols: apply before rename
def h_apply_before_rename(eng):
    A = setup(eng)
    f = eng.find_function(TREE, "flatten_symbols")
    cls = A.new("InstanceClass", name="C", type="model")
    put(eng, cls.fields["symbols"], "x", A.new("Symbol", name="x", type=A.ref("Real")))
    nested = eng.choice(2)
    name = "b.a" if nested else ""
    trace = []
    eng.call_contracts["apply_symbol_modifications"] = lambda eng, args, kwargs: trace.append(("apply", args[0], args[1]))

    def refs(eng, args, kwargs):
        trace.append(("rename", args[1], args[2]))
        return args[1]
    eng.call_contracts["flatten_component_refs"] = refs
    eng.call_contracts["fully_scope_function_calls"] = lambda eng, args, kwargs: args[1]
    flat = eng.call(f, [cls, name], {})
    eng.cover("order.apply_rename")
    kinds = [t[0] for t in trace]
    # (P) modifications whose scope is this class are applied to the flat symbols before this level's renaming, which uses this level's prefix
    eng.prove("order.modifications_applied_once_with_this_class_as_scope", z3.BoolVal(kinds.count("apply") == 1 and trace[kinds.index("apply")][1] is flat and trace[kinds.index("apply")][2] is cls))
    eng.prove("order.applied_before_symbols_are_renamed", z3.BoolVal("rename" in kinds and kinds.index("apply") < kinds.index("rename")))
    eng.prove("order.renaming_uses_this_levels_prefix", z3.BoolVal(all(t[2] == ("b.a." if nested else "") for t in trace if t[0] == "rename")))


# ------------------------------------------------------------------------------------------------ build_instance_tree: local classes
def classes_loop_selector(fn):
    import ast as _ast
    for st in fn.body:
        if isinstance(st, _ast.For) and isinstance(st.target, _ast.Tuple) and [getattr(e, "id", None) for e in st.target.elts] == ["class_name", "c"]:
            return [st]
    raise KeyError("classes loop")


def h_local_classes_are_instantiated_from_copies(eng):
    """build_instance_tree MODIFIES the symbols of the class it instantiates (their type becomes an instance class, their pending
    modifications get a scope and move into it).  The classes nested in the class being instantiated are instantiated in place, yet
    the same declared class is looked up again later -- by another local class that extends it, or by a component of its type.  So
    (frame obligation at the call site) the loop over the nested classes must hand build_instance_tree a private copy, and leave the
    declared class as it was: otherwise a modification written in a local base class is lost on the way to the classes extending it."""
    A = setup(eng)
    ext = A.new("InstanceClass", name="T", type="model")
    ext.fields["modification_environment"] = A.new("ClassModification")
    decl = {}
    for n in ("A", "C"):
        c = A.new("Class", name=n, type="model")
        sub = A.new("Symbol", name="s", type=A.ref("Sub"))
        sub.fields["class_modification"] = A.new("ClassModification", arguments=VList([elem_arg(A, "k", A.prim(3))]))
        put(eng, c.fields["symbols"], "s", sub)
        c.fields["parent"] = ext
        put(eng, ext.fields["classes"], n, c)
        decl[n] = (c, sub, sub.fields["class_modification"], sub.fields["type"])
    handed = []

    def bit(eng, args, kwargs):
        cls_ = args[0]
        handed.append(cls_)
        # the callee's frame: it rewrites the symbols of the class it is given
        for sy in cls_.fields["symbols"].vals:
            sy.fields["type"] = A.new("InstanceClass", name="Sub", type="model")
            sy.fields["class_modification"] = None
        return A.new("InstanceClass", name=cls_.fields["name"], type="model")
    eng.call_contracts["build_instance_tree"] = bit
    eng.exec_fragment(TREE, "build_instance_tree", classes_loop_selector, {"extended_orig_class": ext, "orig_class": ext}, label="classes-loop")
    eng.cover("local.classes_loop")
    eng.prove("local.each_nested_class_instantiated_once", z3.BoolVal(sorted(h.fields["name"] for h in handed) == ["A", "C"] and
                                                                      all(v.cls.name == "InstanceClass" for v in ext.fields["classes"].vals)))
    untouched = all(sub.fields["class_modification"] is mod and sub.fields["type"] is typ and c.fields["symbols"].vals[0] is sub for c, sub, mod, typ in decl.values())
    eng.prove("local.declared_local_classes_are_left_as_declared", z3.BoolVal(bool(untouched)))


HARNESSES = [("modify_symbol: order and scope", h_modify_symbol),
             ("modify_symbol: unknown attribute", h_modify_symbol_rejects_unknown),
             ("flatten_extends: environment order", h_extends_environment_order),
             ("flatten_extends: type definitions over elementary types, any depth", h_extends_of_elementary_types),
             ("build_instance_tree: elementary variable, spellings", h_elementary_spellings),
             ("build_instance_tree: elementary variable, order", h_elementary_order),
             ("build_instance_tree: component, shift one level", h_component_shift),
             ("flatten_symbols: apply before rename", h_apply_before_rename),
             ("build_instance_tree: local classes instantiated from copies", h_local_classes_are_instantiated_from_copies)]
EXPECTED_COVER = {"modify.n1", "modify.n2", "modify.n3", "modify.other_scope_same_simple_name", "modify.scope_is_a_copy_of_this_class", "modify.unknown", "envorder.0_bases", "envorder.1_bases", "envorder.2_bases", "alias.depth1", "alias.depth2", "alias.depth3",
                  "elem.nested", "elem.dotted", "elem.binding", "elem.order", "comp.dotted", "comp.dotted_attribute", "comp.nested", "order.apply_rename", "local.classes_loop"}
BOUNDED = True
LEVEL = "proof"
TRUSTED = ["the parser turns `T x(start = a) = b` into declaration modifications [start = a, value = b] with scope None and a.x.start = e into component a with children x, start (parser.py 703-723; not executable by the symbolic executor, sampled by the bounded replay)",
           "Class.find_class / full_reference (lookup rules) and TreeWalker's traversal order", "copy.deepcopy follows CPython's documented protocol"]
ASSUMPTIONS = [
    "precedence is carried by list order; the induction hypothesis (a callee's environment ends with what was handed in) is the contract assumed for recursive calls",
    "argument lists are enumerated up to length 3 with three attributes and three scope kinds; expressions are opaque AST objects compared by identity, so the contracts hold for every expression",
    "the nested two-level spelling b(a(p = e)) is currently rejected (IndexError): allowed by the statement ('or is rejected'), reported by coverage label comp.rejected",
    "modifications of array elements (subscripted modifiers) are rejected by the code and outside the decided scope; redeclarations are C05/C07 territory",
]
EXPLANATION = ("Precedence is an ordering invariant on pending-argument lists; each function that builds or consumes such a list is executed symbolically (real source) with callees and recursive calls under contract and "
               "shown to keep innermost-to-outermost order, to treat the dotted and nested spellings alike, to keep the scope where the modification was written, and to apply before renaming. A bounded replay flattens generated "
               "multi-level modification scenarios in both spellings and compares with a reference evaluation.")
MANIFEST = {
    "category": "proof",
    "text": "Precedence is carried by the order of pending modification arguments (innermost first, outermost last). On the real source, with callees and recursive calls under contract: modify_symbol applies exactly the arguments of scope None or the current class (compared by full reference, so a class of the same simple name elsewhere does not match), in order, the last one determining each attribute, keeps the others pending in order, and rejects unknown attributes; flatten_extends puts the base classes' environments first and the one handed in by the extends clause / enclosing component last; build_instance_tree's symbol loop gives an elementary variable [declaration's own, then the enclosing ones in order], turns a binding into a `value` argument and the nested x(start=e) and dotted x.start=e spellings into the same argument with the scope kept, and hands a component's a.p / a.x.start argument one level down after the component's own, with the scope of the class where it was written (the nested two-level spelling may only be rejected, never changed); flatten_symbols applies modifications of the current scope before renaming that level's references with that level's prefix. A bounded replay flattens generated hierarchies with modifications at declaration, component, extends and type level in both spellings and compares every attribute with a reference evaluation (outermost wins, names resolved where written, spellings equal or rejected).",
    "note": "The parser's share (declaration value to modification) is trusted and only sampled; lists are enumerated up to length 3; one genuine defect repaired (fix: 3dd3348).",
    "technique": "contract-based deductive verification: ordering invariant on modification lists, symbolic execution of the real functions/fragments with callees and recursive calls under contract; bounded replay",
}
