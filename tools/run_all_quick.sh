#!/bin/bash
# Exercise every MANIFEST quick_cmd the way the harness does: evidence removed first, env exported,
# then validate the rewritten evidence file (tools/validate_evidence.py). Prints one line per check.
cd "$(dirname "$0")/.."
export CARGO_NET_OFFLINE=true GOPROXY=off PIP_NO_INDEX=1 VERIF_SEED=${VERIF_SEED:-1} VERIF_TIER=${VERIF_TIER:-quick}
mkdir -p out/probe
rc_all=0
for id in $(python3 -c "import json;print(' '.join(c['property_id'] for c in json.load(open('MANIFEST.json'))['checks']))"); do
  [ -n "$1" ] && [[ " $* " != *" $id "* ]] && continue
  cmd=$(python3 -c "import json,sys;print([c for c in json.load(open('MANIFEST.json'))['checks'] if c['property_id']=='$id'][0]['quick_cmd'])")
  rm -f evidence/$id.json
  t0=$(date +%s)
  bash -c "$cmd" > out/probe/$id.log 2>&1
  rc=$?
  t1=$(date +%s)
  v=$(python3 tools/validate_evidence.py $id 2>&1 | tail -1)
  viol=$(grep -c '^VIOLATION' out/probe/$id.log)
  echo "$id rc=$rc violations=$viol $((t1-t0))s evidence: $v"
  [ $rc -ne 0 ] && rc_all=1
  [[ "$v" != ok* ]] && rc_all=1
done
exit $rc_all
