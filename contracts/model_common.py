"""Harness objects of pymoca.backends.casadi.model built through the real constructors."""
from pyvc.values import PyRaise, Unsupported, VClass, VObj


def new_model(eng, fields=None):
    """a Model built by the REAL constructor (every field __init__ sets exists, with its real initial value) and then given the
    harness's fields.  Its class is a fresh subclass of the real Model, so a harness may hang recording methods on `model.cls.attrs`
    without touching the real class other harnesses use."""
    mm = eng.load_module("pymoca.backends.casadi.model")
    real = eng.module_global(mm, "Model")
    try:
        base = eng.call(real, [], {})
    except (Unsupported, PyRaise):
        base = VObj(real, {})
    m = VObj(VClass("Model", bases=[real]), dict(base.fields))
    m.fields.pop("_expand_mx_func", None)
    m.fields.update(fields or {})
    return m
