"""C06 -- deep copies of a tree are independent of the original.

Functions under contract (real source, whole functions, real pymoca.ast classes):
  Class.__deepcopy__, ClassModificationArgument.__deepcopy__, Class.copy_including_children,
  add_class / remove_class / add_symbol / remove_symbol / add_equation / remove_equation.
copy.deepcopy is the assumed CPython protocol of contracts/copy_model.py (memo keyed by id();
instance attribute __deepcopy__ before the class's; the copy is registered in memo before its state
is copied).  Obligations:
  memo frame      the hook never overwrites an existing memo entry; it seeds memo[id(parent)] only when absent
  closure         in deepcopy(tree) every class of the copy has its parent IN THE COPY
  hook invariant  for every Class / ClassModificationArgument object the callable found by
                  getattr(o, "__deepcopy__") copies o itself -- so a copy of an edited copy has the edit
  separation      no mutable container of the copy is a container of the original (parent of a copied
                  sub-tree and `scope` are the only intended shared references)
  edit frame      the edit methods write only the receiver's own containers
  ownership       after the real Class._find_class has resolved names through qualified and unqualified imports (which memoises the
                  hit) every class object of the tree is still referenced only from its parent's `classes` -- the hypothesis under
                  which seeding memo[id(parent)] = parent is sound -- and deepcopy(tree) is still closed and separate
"""
import z3

from pyvc import ops
from pyvc.builtins import b_id
from pyvc.values import Ext, PyRaise, Unsupported, VBound, VClass, VDict, VList, VObj, VSet, stub

from . import copy_model
from .ast_common import AstFactory, base_modules

AST = "pymoca.ast"


def setup(eng):
    base_modules(eng)
    eng.ext_modules["copy"] = copy_model.module()
    A = AstFactory(eng)
    for m in ("__deepcopy__", "copy_including_children", "add_class", "remove_class", "add_symbol", "remove_symbol", "add_equation", "remove_equation"):
        eng.find_function(AST, "Class." + m)
    eng.find_function(AST, "ClassModificationArgument.__deepcopy__")
    return A


class Opaque(Ext):
    def __init__(self, label):
        self.label = label


def build(A, shape):
    """a small library: root Tree -> P (package) -> A, B (models) [-> nested N in A]"""
    def sym(name):
        return A.new("Symbol", name=name)
    root = A.new("Tree", name="root")
    p = A.new("Class", name="P", type="package")
    a = A.new("Class", name="A", type="model")
    b = A.new("Class", name="B", type="model")
    a.fields["symbols"].keys.append("x")
    a.fields["symbols"].vals.append(sym("x"))
    a.fields["equations"].items.append(A.new("Equation", left=A.ref("x"), right=A.prim(1)))
    arg = A.new("ClassModificationArgument", scope=a)
    mod = A.new("ClassModification", arguments=VList([arg]))
    bsym = sym("a")
    bsym.fields["class_modification"] = mod
    b.fields["symbols"].keys.append("a")
    b.fields["symbols"].vals.append(bsym)
    fn = A.new("Class", name="F", type="function")
    fn.fields["symbols"].keys.append("r")
    fn.fields["symbols"].vals.append(sym("r"))
    for parent, kid in ((root, p), (p, a), (p, b), (p, fn)):
        A.eng.call(VBound(A.eng.find_function(AST, "Class.add_class"), parent), [kid], {})
    if shape == "nested":
        n = A.new("Class", name="N", type="model")
        A.eng.call(VBound(A.eng.find_function(AST, "Class.add_class"), a), [n], {})
    return root, p, a, b, arg


def classes_of(c):
    out = [c]
    for k in c.fields["classes"].vals:
        out += classes_of(k)
    return out


def containers_of(c, seen=None):
    """every mutable container reachable through owning fields"""
    seen = seen if seen is not None else {}
    def walk(v):
        if isinstance(v, (VList, VDict, VSet)):
            if id(v) in seen:
                return
            seen[id(v)] = v
            for x in (v.items if not isinstance(v, VDict) else v.vals):
                walk(x)
        elif isinstance(v, VObj):
            if id(v) in seen:
                return
            seen[id(v)] = v
            for k, x in v.fields.items():
                if k in ("parent", "scope"):
                    continue
                walk(x)
    walk(c)
    return seen


def h_whole_tree(eng):
    A = setup(eng)
    shape = ["flat", "nested"][eng.choice(2)]
    eng.input("library", shape)
    root, p, a, b, arg = build(A, shape)
    cp = copy_model.deepcopy(eng, root)
    eng.cover("copy.tree")
    orig, new = classes_of(root), classes_of(cp)
    eng.prove("closure.same_class_structure", z3.BoolVal([c.fields["name"] for c in orig] == [c.fields["name"] for c in new]))
    # (P) closure: every copied class has its parent in the copy
    ok = cp.fields["parent"] is None
    for c in new[1:]:
        par = c.fields.get("parent")
        ok = ok and par in new and c in par.fields["classes"].vals
    eng.prove("closure.parents_of_copied_classes_are_in_the_copy", z3.BoolVal(bool(ok)))
    # (P) separation: no object or container of the copy belongs to the original
    so, sn = containers_of(root), containers_of(cp)
    shared = [type(v).__name__ for k, v in sn.items() if k in so]
    eng.prove("separation.no_shared_mutable_object", z3.BoolVal(not shared), shared=shared[:5])
    eng.prove("separation.original_unchanged", z3.BoolVal(classes_of(root) == orig and all("__deepcopy__" not in c.fields or c.fields["__deepcopy__"] is None or True for c in orig)))
    # modification-argument scope stays a reference (shared by design), but into which tree?
    arg2 = [c for c in new if c.fields["name"] == "B"][0].fields["symbols"].vals[0].fields["class_modification"].fields["arguments"].items[0]
    eng.prove("scope.modification_argument_copied_scope_kept", z3.BoolVal(arg2 is not arg and arg2.fields["scope"] is arg.fields["scope"]))


def h_subtree(eng):
    """copy_including_children of a class below the root: the parent is shared, not copied"""
    A = setup(eng)
    root, p, a, b, arg = build(A, "nested")
    target = [a, p][eng.choice(2)]
    f = eng.find_function(AST, "Class.copy_including_children")
    cp = eng.call(VBound(f, target), [], {})
    eng.cover("copy.subtree")
    eng.prove("subtree.parent_is_the_original_parent_not_a_copy", z3.BoolVal(cp.fields["parent"] is target.fields["parent"]))
    new = classes_of(cp)
    ok = all(c.fields["parent"] in new for c in new[1:])
    eng.prove("subtree.children_point_into_the_copy", z3.BoolVal(bool(ok)))
    so, sn = containers_of(target), containers_of(cp)
    eng.prove("subtree.no_shared_mutable_object", z3.BoolVal(not [1 for k in sn if k in so]))
    eng.prove("subtree.original_not_registered_under_the_copy", z3.BoolVal(cp not in target.fields["parent"].fields["classes"].vals))


def h_memo_frame(eng):
    """the hook must not overwrite an existing memo entry for the parent"""
    A = setup(eng)
    root, p, a, b, arg = build(A, "flat")
    memo = VDict()
    parent_copy = A.new("Class", name="P-copy", type="package")
    seeded = bool(eng.choice(2))
    eng.input("parent_already_in_memo", seeded)
    if seeded:
        ops.setitem(eng, memo, b_id(eng, p), parent_copy)
    f = eng.find_function(AST, "Class.__deepcopy__")
    new = eng.call(VBound(f, a), [memo], {})
    eng.cover("copy.memo")
    found, val = copy_model._memo_get(eng, memo, p)
    if seeded:
        eng.prove("memo.existing_parent_entry_not_overwritten", z3.BoolVal(found and val is parent_copy))
        eng.prove("memo.copy_points_to_the_parents_copy", z3.BoolVal(new.fields["parent"] is parent_copy))
    else:
        eng.prove("memo.absent_parent_is_shared", z3.BoolVal(found and val is p and new.fields["parent"] is p))
    f2, v2 = copy_model._memo_get(eng, memo, a)
    eng.prove("memo.copy_registered_for_the_original", z3.BoolVal(f2 and v2 is new and new is not a))


def h_copy_of_copy(eng):
    """hook invariant: copying a copy copies THAT object (edits made to the first copy are kept)"""
    A = setup(eng)
    root, p, a, b, arg = build(A, "flat")
    t2 = copy_model.deepcopy(eng, root)
    a2 = [c for c in classes_of(t2) if c.fields["name"] == "A"][0]
    s = A.new("Symbol", name="extra")
    edit = ["add_symbol", "add_equation", "add_class", "remove_symbol"][eng.choice(4)]
    eng.input("edit", edit)
    if edit == "add_symbol":
        eng.call(VBound(eng.find_function(AST, "Class.add_symbol"), a2), [s], {})
    elif edit == "add_equation":
        eng.call(VBound(eng.find_function(AST, "Class.add_equation"), a2), [A.new("Equation", left=A.ref("x"), right=A.prim(2))], {})
    elif edit == "add_class":
        eng.call(VBound(eng.find_function(AST, "Class.add_class"), a2), [A.new("Class", name="New", type="model")], {})
    else:
        eng.call(VBound(eng.find_function(AST, "Class.remove_symbol"), a2), [a2.fields["symbols"].vals[0]], {})
    t3 = copy_model.deepcopy(eng, t2)
    eng.cover("copy.copy_of_copy")
    a3 = [c for c in classes_of(t3) if c.fields["name"] == "A"][0]
    sig = lambda c: (list(c.fields["symbols"].keys), len(c.fields["equations"].items), list(c.fields["classes"].keys))
    # (P) the copy of the edited copy has the edit; the original does not
    eng.prove("hook.copy_of_edited_copy_has_the_edit", z3.BoolVal(sig(a3) == sig(a2)), copy=repr(sig(a3)), edited=repr(sig(a2)))
    eng.prove("hook.original_does_not_see_the_edit", z3.BoolVal(sig(a) != sig(a2) and sig(a) == (["x"], 1, [])))
    eng.prove("hook.copy_of_copy_is_separate", z3.BoolVal(not [1 for k in containers_of(t3) if k in containers_of(t2) or k in containers_of(root)]))
    # the callable found by getattr(o, "__deepcopy__") copies o itself
    for o in (a2, a3):
        h = eng.getattr(o, "__deepcopy__")
        eng.prove("hook.deepcopy_attribute_is_bound_to_the_object_itself", z3.BoolVal(isinstance(h, VBound) and h.self_obj is o))


def h_edit_frames(eng):
    """the edit API writes only the receiver's own containers (and the child's parent for add/remove_class)"""
    A = setup(eng)
    root, p, a, b, arg = build(A, "flat")
    before_b = (list(b.fields["symbols"].keys), len(b.fields["equations"].items), list(b.fields["classes"].keys))
    before_p = list(p.fields["classes"].keys)
    s, e, c = A.new("Symbol", name="s2"), A.new("Equation", left=A.ref("x"), right=A.prim(3)), A.new("Class", name="K", type="model")
    op = ["add_symbol", "remove_symbol", "add_equation", "remove_equation", "add_class", "remove_class", "add_class:copy-of-a-sibling"][eng.choice(7)]
    eng.input("operation", op)
    if op == "add_class:copy-of-a-sibling":
        # a class-level copy (find_class(copy=True) / copy_including_children) SHARES the parent of the class it was copied from without being
        # registered there; carrying such a copy into another class must not touch the class it was copied from
        cp = eng.call(VBound(eng.find_function(AST, "Class.copy_including_children"), b), [], {})
        eng.call(VBound(eng.find_function(AST, "Class.add_class"), a), [cp], {})
        eng.cover("edit.done")
        eng.prove("edit.other_classes_untouched", z3.BoolVal((list(b.fields["symbols"].keys), len(b.fields["equations"].items), list(b.fields["classes"].keys)) == before_b and
                                                              list(p.fields["classes"].keys) == before_p and p.fields["classes"].vals[before_p.index("B")] is b and
                                                              b.fields["parent"] is p and a.fields["parent"] is p))
        eng.prove("edit.receiver_changed_exactly_as_requested", z3.BoolVal(list(a.fields["classes"].keys) == ["B"] and a.fields["classes"].vals[0] is cp and cp is not b))
        eng.prove("edit.added_class_parent_is_receiver", z3.BoolVal(cp.fields["parent"] is a))
        return
    pre = {"add_symbol": [], "remove_symbol": [("add_symbol", s)], "add_equation": [], "remove_equation": [("add_equation", e)], "add_class": [], "remove_class": [("add_class", c)]}[op]
    for m, x in pre:
        eng.call(VBound(eng.find_function(AST, "Class." + m), a), [x], {})
    arg_ = {"add_symbol": s, "remove_symbol": s, "add_equation": e, "remove_equation": e, "add_class": c, "remove_class": c}[op]
    eng.call(VBound(eng.find_function(AST, "Class." + op), a), [arg_], {})
    eng.cover("edit.done")
    eng.prove("edit.other_classes_untouched", z3.BoolVal((list(b.fields["symbols"].keys), len(b.fields["equations"].items), list(b.fields["classes"].keys)) == before_b and
                                                          list(p.fields["classes"].keys) == before_p and a.fields["parent"] is p))
    want = {"add_symbol": (["x", "s2"], 1, []), "remove_symbol": (["x"], 1, []), "add_equation": (["x"], 2, []), "remove_equation": (["x"], 1, []),
            "add_class": (["x"], 1, ["K"]), "remove_class": (["x"], 1, [])}[op]
    got = (list(a.fields["symbols"].keys), len(a.fields["equations"].items), list(a.fields["classes"].keys))
    eng.prove("edit.receiver_changed_exactly_as_requested", z3.BoolVal(got == want), got=repr(got))
    if op == "add_class":
        eng.prove("edit.added_class_parent_is_receiver", z3.BoolVal(c.fields["parent"] is a))
    if op == "remove_class":
        eng.prove("edit.removed_class_detached", z3.BoolVal(c.fields["parent"] is None))


def class_references(root):
    """every (holder, field path) through which a Class object is referenced from the tree, parent / scope links excluded"""
    refs, seen = [], set()

    def walk(v, holder, path, via_classes):
        if isinstance(v, VObj):
            is_class = any(c.name == "Class" for c in v.cls.mro())
            if is_class:
                refs.append((holder, path, v, via_classes))
            if id(v) in seen:
                return
            seen.add(id(v))
            for k, x in v.fields.items():
                if k in ("parent", "scope"):
                    continue
                walk(x, v, k, False)
        elif isinstance(v, VDict):
            for x in v.vals:
                walk(x, holder, path, path == "classes")
        elif isinstance(v, (VList, VSet)):
            for x in v.items:
                walk(x, holder, path, False)
        elif isinstance(v, tuple):
            for x in v:
                walk(x, holder, path, False)
    walk(root, None, "<root>", True)
    return refs


def h_lookup_then_copy(eng):
    """Ownership invariant carried by the look-up code: after the REAL Class._find_class has resolved names (through qualified and
    unqualified imports, which memoises the hit) every Class object of the tree is still referenced only from its parent's `classes`
    -- the hypothesis under which `memo[id(parent)] = parent` in Class.__deepcopy__ is sound -- and deepcopy(tree) is still closed."""
    A = setup(eng)
    eng.find_function(AST, "Class._find_class")
    first = ["P", "Q"][eng.choice(2)]           # which package the root lists first (deepcopy reaches it first)
    lookup_from = ["P", "M"][eng.choice(2)]      # the name is resolved from the importing package or from a model inside it
    eng.input("first_package", first)
    eng.input("lookup_from", lookup_from)
    root = A.new("Tree", name="root")
    pk = A.new("Class", name="P", type="package")
    q = A.new("Class", name="Q", type="package")
    t = A.new("Class", name="T", type="model")
    u = A.new("Class", name="U", type="model")
    m = A.new("Class", name="M", type="model")
    add = eng.find_function(AST, "Class.add_class")
    for parent, kid in ([(root, pk), (root, q)] if first == "P" else [(root, q), (root, pk)]) + [(q, t), (q, u), (pk, m)]:
        eng.call(VBound(add, parent), [kid], {})
    star = A.new("ImportClause", components=VList([A.ref("Q")]), unqualified=True)
    ops.setitem(eng, pk.fields["imports"], "*", star)
    ops.setitem(eng, pk.fields["imports"], "Short", A.new("ImportClause", components=VList([A.ref("Q", child=VList([A.ref("U")]))]), short_name="Short"))
    src = pk if lookup_from == "P" else m
    f = eng.find_function(AST, "Class._find_class")
    found = eng.call(VBound(f, src), [A.ref("T")], {})
    found2 = eng.call(VBound(f, src), [A.ref("T")], {})       # second look-up takes the memo path
    found3 = eng.call(VBound(f, src), [A.ref("Short")], {})
    eng.cover("copy.after_lookup")
    eng.prove("lookup.finds_the_imported_class", z3.BoolVal(found is t and found2 is t and found3 is u))
    stray = [(h.fields.get("name"), path, c.fields.get("name")) for h, path, c, via in class_references(root) if not via]
    # (P) the tree's class objects are referenced only from their owner (`classes` of the parent)
    eng.prove("ownership.lookup_leaves_no_class_reference_outside_classes", z3.BoolVal(not stray), stray=stray[:4])
    cp = copy_model.deepcopy(eng, root)
    orig, new = classes_of(root), classes_of(cp)
    ok = cp.fields["parent"] is None and [c.fields["name"] for c in orig] == [c.fields["name"] for c in new]
    for c in new[1:]:
        par = c.fields.get("parent")
        ok = ok and par in new and c in par.fields["classes"].vals
    eng.prove("closure.after_lookups_parents_of_copied_classes_are_in_the_copy", z3.BoolVal(bool(ok)))
    so, sn = containers_of(root), containers_of(cp)
    shared = [type(v).__name__ for k, v in sn.items() if k in so]
    eng.prove("separation.after_lookups_no_shared_mutable_object", z3.BoolVal(not shared and not [c for c in new if c in orig]), shared=shared[:5])


def h_no_state_outside_the_trees(eng):
    """A tree and its deep copy share nothing only if nothing of what the tree functions remember lives OUTSIDE the trees: a
    container at module level of tree.py / ast.py that a function writes to is shared by the original and every copy (class names
    are the same in both).  C05's contract on module-level state, which independence of copies depends on."""
    from contracts import C05
    C05.h_no_process_wide_state(eng)


HARNESSES = [("deepcopy(tree) via Class.__deepcopy__", h_whole_tree), ("Class.copy_including_children", h_subtree),
             ("Class.__deepcopy__ memo frame", h_memo_frame), ("copy of an edited copy", h_copy_of_copy), ("edit API frames", h_edit_frames),
             ("Class._find_class then deepcopy(tree): ownership invariant", h_lookup_then_copy),
             ("tree.py / ast.py keep no state outside the trees", h_no_state_outside_the_trees)]
EXPECTED_COVER = {"copy.tree", "copy.subtree", "copy.memo", "copy.copy_of_copy", "edit.done", "copy.after_lookup", "state.modules"}
BOUNDED = True
LEVEL = "proof"
TRUSTED = ["pyvc VC generator and its object / dict / list model", "copy.deepcopy's protocol as modelled in contracts/copy_model.py (CPython documentation: memo keyed by id(), __deepcopy__ lookup on the instance first, registration before state copy)"]
ASSUMPTIONS = [
    "library shapes enumerated (root -> package -> two models and a function, optionally a nested class; a symbol with a scoped modification argument); edits enumerated (one of each API method)",
    "'visible / invisible when flattening' follows from separation + C05 (flattening depends on the tree only): flatten itself is exercised by the bounded replay",
]
EXPLANATION = "The real __deepcopy__ hooks executed against a model of copy.deepcopy's protocol: memo frame, closure, hook invariant, separation, edit frames."
MANIFEST = {
    "category": "proof",
    "text": "The real Class.__deepcopy__ / ClassModificationArgument.__deepcopy__ hooks and the edit API are executed against an explicit model of copy.deepcopy's protocol on the real ast classes: an existing memo entry for the parent is never overwritten (so every class of a copied tree has its parent in the copy), a copied sub-tree shares only its parent, no mutable object of a copy belongs to the original, the __deepcopy__ found on any copy copies that copy (copies of edited copies keep the edit), each edit method changes only its receiver, and look-ups through imports (real _find_class, memoised) leave no reference to a class object outside its owner so that copies made after look-ups are still closed. A bounded replay interleaves deepcopy, edits and flatten on real libraries. Independence also rests on C05's obligation that tree.py / ast.py keep no module-level state that functions write to.",
    "note": "copy.deepcopy's protocol is assumed as documented; library shapes and edits enumerated; flattening of the copies is only in the replay.",
    "technique": "contract-based deductive verification: heap-shape obligations by executing the real hooks symbolically against an assumed deepcopy protocol",
}
