"""C14 replay / bounded stand-in: simplify() on generated affine models with a known unique solution."""
import json
import sys

import numpy as np

import simplify_common as S


def judge(txt, name, opts, rng):
    import casadi as ca
    m0, _ = S.build(txt, name, {"expand_mx": True})
    env = S.solve_original(m0, rng)
    if env is None:
        return None, "skip"
    m, o = S.build(txt, name, opts)
    try:
        m.simplify(o)
    except BaseException as e:  # noqa
        return None, "reported"          # failure reported with an exception is allowed by the statement
    # recorded eliminations must hold in the original solution
    for c, aliases in m.alias_relation:
        for a in aliases:
            sign, nm = (-1.0, a[1:]) if a.startswith("-") else (1.0, a)
            if c in env and nm in env and abs(env[nm] - sign * env[c]) > 1e-7:
                return "recorded alias %s = %s%s, but the original solution has %s = %r and %s = %r" % (nm, "-" if sign < 0 else "", c, nm, env[nm], c, env[c]), "fail"
    orig_names = set(S.names_of(m0.alg_states) + S.names_of(m0.states))
    for v in m.constants:
        nm = v.symbol.name()
        if nm in orig_names:
            try:
                val = S.value_of(v, env)
            except KeyError:
                continue
            if abs(val - env[nm]) > 1e-7:
                return "recorded constant %s = %r, but every original solution has %s = %r" % (nm, val, nm, env[nm]), "fail"
    # the simplified residual vanishes at the projected original solution
    env2 = dict(env)
    for v in list(m.parameters) + list(m.constants) + list(m.der_states) + list(m.alg_states) + list(m.states):
        if v.symbol.name() not in env2:
            return "simplified model has a new symbol %s" % v.symbol.name(), "fail"
    try:
        r = S.residual_at(m, env2)
    except BaseException as e:  # noqa
        return "residual of the simplified model cannot be evaluated: %s: %s" % (type(e).__name__, str(e)[:80]), "fail"
    if r.size and np.max(np.abs(r)) > 1e-7:
        return "simplified residual at the original solution is %s" % np.round(r, 6).tolist(), "fail"
    # and it still determines the remaining unknowns uniquely (no solution gained)
    unk = S.names_of(m.der_states) + S.names_of(m.alg_states)
    if unk:
        base = S.residual_at(m, env2)
        A = np.zeros((len(base), len(unk)))
        for j, u in enumerate(unk):
            e3 = dict(env2)
            e3[u] = env2[u] + 1.0
            A[:, j] = S.residual_at(m, e3) - base
        if np.linalg.matrix_rank(A) < len(unk):
            return "simplified system no longer determines %s (rank %d of %d)" % (unk, np.linalg.matrix_rank(A), len(unk)), "fail"
    return None, "ok"


def run(payload):
    tier, seed = payload.get("tier", "quick"), int(payload.get("seed", 0) or 0)
    rng = np.random.RandomState(seed + 14)
    n_models = 12 if tier == "quick" else 120
    failures, n, nontrivial = [], 0, 0
    fixed = [("model F0 Real x; Real y; Real s; equation der(s) = x; 3 = x; y = x + 1; end F0;", "F0"),
             ("model F1 Real a; Real b; Real c; Real s; equation der(s) = c; a = 2.5; a = b; b = c; end F1;", "F1"),
             ("model F2 Real a; Real b; Real s; equation der(s) = a - b; a + b = 0; a = 2 * s; end F2;", "F2"),
             # alias cycles with an odd number of negative links: regular systems whose only solution is zero; the closing
             # equation relates a variable to its own negation and must not be consumed as an alias
             ("model F3 Real a; Real b; Real c; equation a = b; c = a; c + b = 0; end F3;", "F3"),
             ("model F4 Real a; Real b; Real s; equation der(s) = a + 1; a = b; a + b = 0; end F4;", "F4"),
             ("model F5 Real a; Real b; Real c; Real s; equation der(s) = c + s; a = -b; b = c; c = a; end F5;", "F5"),
             ("model F6 Real a; Real b; Real c; Real s; equation der(s) = 2 * s; c + b = 0; a = b; c = a; end F6;", "F6")]
    for fn in ("sin", "tan", "sinh", "tanh", "abs", "sqrt"):
        for k in (0, 1, -2):
            n += 1
            nontrivial += 1
            try:
                txt, bad = judge_periodic(fn, k)
            except BaseException as e:  # noqa
                txt, bad = fn, "%s: %s" % (type(e).__name__, str(e)[:120])
            if bad:
                failures.append({"class": "simplify", "input": {"model": txt, "options": {"factor_and_simplify_equations": True}}, "observed": bad,
                                 "expected": "solution set preserved"})
    for eqs, decls, want in ELIM_DER:
        n += 1
        nontrivial += 1
        try:
            txt, bad = judge_elim_derivative(eqs, decls, want)
        except BaseException as e:  # noqa
            txt, bad = eqs, "%s: %s" % (type(e).__name__, str(e)[:120])
        if bad:
            failures.append({"class": "simplify", "input": {"model": txt, "options": {"eliminable_variable_expression": "_.*", "expand_mx": True}}, "observed": bad,
                             "expected": "der() of an eliminated variable replaced by the time derivative of its defining expression"})
    # coefficients that differ only beyond the sixth significant digit, through the expand_vectors + expand_mx rebuild of the equations
    long_consts = ("model F7 Real x; Real y; Real z; Real s; equation der(s) = x; 1000001 * x - y = 1000003; 1000002 * x - z = 1000004; "
                   "y + z = 2 * x + 1999990; end F7;")
    for opts in ({"expand_vectors": True, "expand_mx": True}, {"expand_vectors": True, "expand_mx": True, "detect_aliases": True}):
        n += 1
        try:
            bad, status = judge(long_consts, "F7", opts, rng)
        except BaseException as e:  # noqa
            bad, status = "%s: %s" % (type(e).__name__, str(e)[:120]), "fail"
        if status in ("ok", "fail"):
            nontrivial += 1
        if bad:
            failures.append({"class": "simplify", "input": {"model": long_consts, "options": dict(opts)}, "observed": bad,
                             "expected": "solution set preserved; recorded eliminations hold in every original solution"})
    models = fixed + [(S.gen_model(rng, i)[0], "M%d" % i) for i in range(n_models)]
    for txt, name in models:
        for opts in S.option_sets(tier):
            n += 1
            try:
                bad, status = judge(txt, name, opts, rng)
            except BaseException as e:  # noqa
                bad, status = "%s: %s" % (type(e).__name__, str(e)[:120]), "fail"
            if status in ("ok", "fail"):
                nontrivial += 1
            if bad:
                failures.append({"class": "simplify", "input": {"model": txt, "options": {k: v for k, v in opts.items()}}, "observed": bad,
                                 "expected": "solution set preserved; recorded eliminations hold in every original solution"})
                if len(failures) >= 3:
                    return failures, n, nontrivial
    return failures, n, nontrivial


def judge_periodic(fn, k):
    """fn(th - ph) = 0 with ph = 0.25: th = ph + k*pi is a solution for sin and tan (every k), th = ph for the others; the
    simplified residual must still vanish at each of them"""
    txt = "model P Real th; Real ph; equation ph = 0.25; %s(th - ph) = 0; end P;" % fn
    sol = {"time": 0.0, "ph": 0.25, "th": 0.25 + (k * np.pi if fn in ("sin", "tan") else 0.0)}
    m0, _ = S.build(txt, "P", {})
    r0 = S.residual_at(m0, dict(sol))
    if np.max(np.abs(r0)) > 1e-9:
        return txt, None          # not a solution of the original (cannot happen for the listed functions)
    m, o = S.build(txt, "P", {"factor_and_simplify_equations": True})
    try:
        m.simplify(o)
    except BaseException:  # noqa
        return txt, None
    env = dict(sol)
    left = S.names_of(m.alg_states)
    if any(n_ not in env for n_ in left):
        return txt, "simplified model has a new symbol among %s" % left
    r = S.residual_at(m, env)
    if r.size and np.max(np.abs(r)) > 1e-7:
        return txt, "original solution th = %.6f, ph = 0.25 is lost: simplified residual there is %s" % (sol["th"], np.round(r, 6).tolist())
    return txt, None


ELIM_DER = [
    # (equations after `der(z) = 1;`, declarations, value of w along the trajectory as a function of (z, time))
    ("_y = 3 * z; _x = 2 * _y; w = der(_x) + der(_y);", "Real _x; Real _y;", lambda z, t: 9.0),
    ("_x = 2 * _y; _y = 3 * z; w = der(_x) + der(_y);", "Real _x; Real _y;", lambda z, t: 9.0),
    ("_y = 3 * z; _x = 2 * _y; w = der(_x);", "Real _x; Real _y;", lambda z, t: 6.0),
    ("_x = 2 * time + z; w = der(_x);", "Real _x;", lambda z, t: 3.0),
    ("_y = 3 * z; _v = 2 * _y; _x = _v * z; w = der(_x);", "Real _x; Real _y; Real _v;", lambda z, t: 12.0 * z),
    ("_x = p * z + p; w = der(_x);", "Real _x; parameter Real p = 2.5;", lambda z, t: 2.5),
    ("_x = 2 * u + z; w = der(_x);", "Real _x; input Real u;", None),     # the rate of an input is not available: only a reported failure is right
]


def judge_elim_derivative(eqs, decls, want):
    """differentiated eliminable variables: after simplify(eliminable_variable_expression) the residual must vanish on the trajectory
    z' = 1 with w at its true value, and must NOT vanish with w off by one"""
    txt = "model D Real z; Real w; %s equation der(z) = 1; %s end D;" % (decls, eqs)
    m, o = S.build(txt, "D", {"eliminable_variable_expression": "_.*", "expand_mx": True})
    try:
        m.simplify(o)
    except BaseException:  # noqa
        return txt, None           # reported
    if want is None:
        return txt, "simplify accepted an eliminable differentiated variable defined through an input without reporting anything"
    left = S.names_of(m.states) + S.names_of(m.alg_states)
    if sorted(left) != ["w", "z"]:
        return txt, "variables left after elimination: %s" % left
    z0, t0 = 0.7, 0.3
    env = {"time": t0, "z": z0, "der(z)": 1.0, "w": want(z0, t0), "u": 0.4, "p": 2.5}
    for v in m.parameters:
        env[v.symbol.name()] = 2.5
    r = S.residual_at(m, env)
    if np.max(np.abs(r)) > 1e-9:
        return txt, "simplified residual at the true trajectory point (w = %r) is %s" % (env["w"], np.round(r, 6).tolist())
    env["w"] += 1.0
    if np.max(np.abs(S.residual_at(m, env))) < 1e-9:
        return txt, "simplified residual no longer determines w"
    return txt, None


def nonaffine_witness():
    """x*x = y*y ; x - y = 2 has the unique solution (1, -1); detect_aliases records x = y"""
    txt = "model W Real x; Real y; equation x * x = y * y; x - y = 2; end W;"
    m, o = S.build(txt, "W", {"detect_aliases": True})
    try:
        m.simplify(o)
    except BaseException as e:  # noqa
        return {"reproduces": False, "input": txt, "observed": "reported: %s" % e}
    aliases = sorted((c, sorted(a)) for c, a in m.alias_relation)
    env = {"time": 0.0, "x": 1.0, "y": -1.0}
    left = S.names_of(m.alg_states)
    r = S.residual_at(m, {**env}) if all(n in env for n in left) else None
    bad = bool(aliases) and any(("y" in a or "x" in a) and not any(s.startswith("-") for s in a) for c, a in aliases)
    return {"reproduces": bad, "input": txt, "input_class": "nonaffine-slow-path-alias",
            "observed": "alias relation %s recorded silently; remaining residual at the true solution (1,-1): %s" % (aliases, None if r is None else r.tolist()),
            "expected": "x = -y (the only solution), or a reported failure"}


def main():
    payload = json.load(sys.stdin)
    if payload.get("mode") == "replay" and payload.get("obligation") == "detect.nonaffine_equation_alias_holds_in_every_solution":
        print(json.dumps(dict(nonaffine_witness(), performed=True)))
        return
    failures, n, nontrivial = run(payload)
    if payload.get("mode") == "bounded":
        print(json.dumps({"performed": True, "cases": n, "distinct_nontrivial": nontrivial, "failures": failures,
                          "rule": "differentiated eliminable variables defined through earlier / later eliminated variables, time, parameters and inputs; equations f(th - ph) = 0 for periodic and monotone f (sin, tan, sinh, tanh, abs, sqrt) at three solutions each under factor_and_simplify_equations; generated triangular-affine models (alias chains, signed aliases in both spellings, alias cycles with an odd number of negative links, constant assignments incl. literal-on-the-left, constant factors, eliminable _t variables, parameter expressions) x option combinations: recorded aliases/constants must hold in the exact original solution, the simplified residual must vanish there and still determine the remaining unknowns",
                          "bound": "%d model/option pairs; models affine (solved exactly)" % n}))
    else:
        f = failures[0] if failures else None
        print(json.dumps({"performed": True, "reproduces": f is not None, "input": f and f["input"], "observed": f and f["observed"],
                          "expected": f and f["expected"], "input_class": "simplify"}))


if __name__ == "__main__":
    main()
