"""C23 -- out-of-range array subscripts are rejected, never reinterpreted.

Functions under contract (real source, whole functions):
  Generator.get_indexed_symbol   (pymoca.backends.casadi.generator)
  ForLoop.register_indexed_symbol
Inputs are symbolic: every dimension n >= 0, every integer subscript i, every slice bound a, b
(or absent) and every integer step s (positive: ascending range; negative: descending range, accepted only if selected exactly;
zero: must be rejected) -- all integers, no window.  The *shape* of the reference is
enumerated (1-D, 2-D of one component, two nested components with one subscript each), which is the
code's own limit (it asserts at most two array dimensions).

Assumed contract of casadi.MX.__getitem__ (Ext, sampled against the installed CasADi by the replay
script): an int k selects element k for 0 <= k < n (a negative k wraps, k >= n raises); a Python
slice follows Python slice semantics (negative start wraps) and raises when stop > n, start > n
or start < -n.
"""
import z3

from pyvc import ops
from pyvc.engine import EXC, exc_class
from pyvc.values import Ext, NoOp, PyRaise, Unsupported, VBound, VClass, VDict, VList, VObj, VSlice, stub

from .api_common import itertools_module

MOD = "pymoca.backends.casadi.generator"
MX_CLASS = VClass("MX")
DM_CLASS = VClass("DM")


class MXVal(Ext):
    """an opaque casadi.MX; records how it is subscripted"""
    type_names = ("MX",)

    def __init__(self, label, shape=None, modelica_shape=None):
        self.label = label
        self.shape = shape
        self.attrs = {}
        if modelica_shape is not None:
            self.attrs["_modelica_shape"] = modelica_shape
        self.selection = None
        self.parent = None

    def sym_isinstance(self, eng, cls):
        return cls.name == "MX"

    def sym_getattr(self, eng, name):
        if name in self.attrs:
            return self.attrs[name]
        if name == "name":
            return stub(lambda eng: self.label)
        if name == "shape":
            return self.shape
        if name in ("size1", "size2", "size"):
            idx = {"size1": 0, "size2": 1}.get(name)
            return stub(lambda eng: self.shape[idx] if idx is not None else self.shape)
        if name == "T":
            r = MXVal(self.label + ".T", None if self.shape is None else (self.shape[1], self.shape[0]))
            r.parent, r.selection = self, ("T",)
            return r
        raise Unsupported("MX.%s" % name)

    def sym_setattr(self, eng, name, value):
        self.attrs[name] = value

    def sym_getitem(self, eng, key):
        keys = list(key) if isinstance(key, tuple) else [key]
        if self.shape is None:
            raise Unsupported("subscript on an MX of unknown shape")
        dims = list(self.shape)
        new_shape = []
        for pos, k in enumerate(keys):
            n = dims[pos]
            if isinstance(k, VSlice):
                a, b, st = k.start, k.stop, k.step
                nz = ops.to_arith(n)
                refused = []
                if b is not None:
                    refused.append(ops.to_arith(b) > nz)
                if a is not None:
                    refused += [ops.to_arith(a) > nz, ops.to_arith(a) < -nz]
                if refused and eng.branch(z3.Or(refused)):
                    # assumed CasADi contract: stop > n, start > n or start < -n is refused
                    raise PyRaise(eng.make_exc("RuntimeError", "casadi: slice out of bounds"))
                if a is None and b is None:
                    new_shape.append(n)
                else:
                    ln = eng.fresh_int("len")
                    eng.assume(z3.And(ln >= 0, ln <= ops.to_arith(n)))
                    new_shape.append(ln)
            elif isinstance(k, MXVal) or isinstance(k, ArrVal):
                new_shape.append(eng.fresh_int("len"))
            else:
                kz = ops.to_arith(k)
                if eng.branch(z3.Or(kz >= ops.to_arith(n), kz < -ops.to_arith(n))):
                    raise PyRaise(eng.make_exc("RuntimeError", "casadi: index out of bounds"))
                new_shape.append(1)
        while len(new_shape) < 2:
            new_shape.append(dims[len(new_shape)] if len(keys) == 1 and len(new_shape) == 1 and False else 1)
        r = MXVal("%s[...]" % self.label, tuple(new_shape[:2]))
        r.parent, r.selection = self, keys
        return r


class ArrVal(Ext):
    """abstract numpy int array: the set { g(x) | member(x) } (order irrelevant for range checks)"""
    type_names = ("ndarray",)

    def __init__(self, member, g, nonempty=None):
        self.member, self.g = member, g

    def sym_binop(self, eng, op, other, reflected):
        o = ops.to_arith(other)
        g = self.g
        if op == "Sub" and not reflected:
            return ArrVal(self.member, lambda x: g(x) - o)
        if op == "Add":
            return ArrVal(self.member, lambda x: g(x) + o)
        if op in ("Lt", "LtE", "Gt", "GtE"):
            f = {"Lt": lambda u, v: u < v, "LtE": lambda u, v: u <= v, "Gt": lambda u, v: u > v, "GtE": lambda u, v: u >= v}[op]
            if reflected:
                return BoolArr(self.member, lambda x: f(o, g(x)))
            return BoolArr(self.member, lambda x: f(g(x), o))
        raise Unsupported("numpy array operator %s" % op)

    def sym_len(self, eng):
        return self._size(eng)

    def _size(self, eng):
        if getattr(self, "_n", None) is None:
            self._n = eng.fresh_int("arrsize")
            x = z3.Int("xs")
            eng.assume(z3.And(self._n >= 0, (self._n > 0) == z3.Exists([x], self.member(x))))
        return self._n

    def _element(self, eng, which):
        """some element of the array (the first, the last, the k-th: which one is NOT known -- the values need not be ascending);
        precondition of the access: the array is not empty"""
        cache = self.__dict__.setdefault("_elems", {})
        if which not in cache:
            x0 = eng.fresh_int("arr_at_%s" % which)
            if not eng.branch(self._size(eng) > 0):
                raise PyRaise(eng.make_exc("IndexError", "index out of bounds of an empty array"))
            eng.assume(self.member(x0))
            cache[which] = self.g(x0)
        return cache[which]

    def _extreme(self, eng, largest):
        x0, x = eng.fresh_int("arr_ext"), z3.Int("xe")
        if not eng.branch(self._size(eng) > 0):
            raise PyRaise(eng.make_exc("ValueError", "zero-size array to reduction operation"))
        eng.assume(z3.And(self.member(x0), z3.ForAll([x], z3.Implies(self.member(x), self.g(x) <= self.g(x0) if largest else self.g(x) >= self.g(x0)))))
        return self.g(x0)

    def sym_getitem(self, eng, key):
        if isinstance(key, int):
            return self._element(eng, key)
        raise Unsupported("ndarray[%r]" % (key,))

    def sym_getattr(self, eng, name):
        if name == "T":
            return self
        if name == "size":
            return self._size(eng)
        if name == "flat":
            return self
        if name in ("min", "max"):
            return stub(lambda eng, _l=(name == "max"): self._extreme(eng, _l))
        if name in ("flatten", "ravel", "reshape", "copy"):
            return stub(lambda eng, *a, **k: self)
        raise Unsupported("ndarray.%s" % name)

    def forall(self, pred):
        x = z3.Int("xv")
        return z3.ForAll([x], z3.Implies(self.member(x), pred(self.g(x))))


class BoolArr(Ext):
    def __init__(self, member, p):
        self.member, self.p = member, p


class NumpyStub(Ext):
    def sym_getattr(self, eng, name):
        if name == "any":
            def any_(eng, arr):
                if isinstance(arr, BoolArr):
                    x = z3.Int("xa")
                    return z3.Exists([x], z3.And(arr.member(x), arr.p(x)))
                raise Unsupported("np.any of %r" % (arr,))
            return stub(any_)
        if name == "all":
            def all_(eng, arr):
                if isinstance(arr, BoolArr):
                    x = z3.Int("xa")
                    return z3.ForAll([x], z3.Implies(arr.member(x), arr.p(x)))
                raise Unsupported("np.all of %r" % (arr,))
            return stub(all_)
        if name == "prod":
            def prod(eng, shape):
                # only the test `np.prod(shape) != 0` matters: 0 iff some dimension is 0
                dims = [ops.to_arith(d) for d in eng.iterate(shape)]
                return z3.If(z3.Or([d == 0 for d in dims]), z3.IntVal(0), z3.IntVal(1))
            return stub(prod)
        if name == "array":
            def array(eng, v, dtype=None):
                if isinstance(v, ArrVal):
                    return v
                if isinstance(v, MXVal):
                    f = z3.Function("evalidx_%s" % len(eng.pc), z3.IntSort(), z3.BoolSort())
                    eng.abstraction("values of a mapped index expression are an arbitrary integer set")
                    return ArrVal(lambda x: f(x), lambda x: x)
                raise Unsupported("np.array of %r" % (v,))
            return stub(array)
        raise Unsupported("numpy.%s" % name)


class CasadiStub(Ext):
    def sym_getattr(self, eng, name):
        if name == "MX":
            return MX_CLASS
        if name == "DM":
            return DM_CLASS
        if name == "transpose":
            def transpose(eng, m):
                r = MXVal(m.label + ".T", None if m.shape is None else (m.shape[1], m.shape[0]))
                r.parent, r.selection = m, ("T",)
                return r
            return stub(transpose)
        if name == "Function":
            def function(eng, *a, **k):
                return FunctionStub()
            return stub(function)
        raise Unsupported("casadi.%s" % name)


class FunctionStub(Ext):
    def sym_getattr(self, eng, name):
        if name == "map":
            return stub(lambda eng, *a, **k: FunctionStub())
        if name == "call":
            return stub(lambda eng, *a, **k: VList([MXVal("mapped")]))
        raise Unsupported("Function.%s" % name)


class NamedTupleStub(Ext):
    def sym_call(self, eng, args, kwargs):
        names = eng.iterate(args[1])
        cls = VClass(args[0])

        def ctor(eng, c, a, k):
            return VObj(c, dict(zip(names, a)))
        cls.constructor = ctor
        return cls


class CollectionsStub(Ext):
    def sym_getattr(self, eng, name):
        if name == "namedtuple":
            return NamedTupleStub()
        if name == "OrderedDict":
            from pyvc.builtins import b_ordered_dict
            return b_ordered_dict
        if name == "deque":
            from pyvc.builtins import b_list
            return b_list
        raise Unsupported("collections.%s" % name)


class Opaque(Ext):
    """module we never look into on these paths"""

    def __init__(self, name):
        self.name = name

    def sym_getattr(self, eng, name):
        if self.name == "logging" and name == "getLogger":
            return stub(lambda eng, *a: NoOp())
        if self.name == "typing":
            return Opaque("typing." + name)
        raise Unsupported("%s.%s" % (self.name, name))

    def sym_getitem(self, eng, key):
        return self


def install(eng):
    eng.ext_modules.update({"casadi": CasadiStub(), "numpy": NumpyStub(), "collections": CollectionsStub(),
                            "logging": Opaque("logging"), "typing": Opaque("typing"), "itertools": itertools_module()})
    eng.call_contracts.clear()
    eng.loop_specs.clear()
    cnt = [0]

    def new_mx(eng, args, kwargs):
        cnt[0] += 1
        shape = tuple(args[1:]) if len(args) > 1 else (1, 1)
        if len(shape) == 1 and isinstance(shape[0], tuple):
            shape = shape[0]
        return MXVal("new%d" % cnt[0], shape)
    eng.call_contracts["_new_mx"] = new_mx


class IndexNode(Ext):
    """an ast index expression; Generator.get_integer is applied to it by contract"""

    def __init__(self, value, is_cref=False, name=None):
        self.value, self.is_cref, self.cname = value, is_cref, name

    def sym_isinstance(self, eng, cls):
        return cls.name == "ComponentRef" and self.is_cref

    def sym_getattr(self, eng, name):
        if name == "name" and self.is_cref:
            return self.cname
        raise Unsupported("index node attribute %s" % name)


def sym_subscript(eng, label, kinds):
    """one subscript of symbolic content; returns (IndexNode, description for the spec)"""
    k = kinds[eng.choice(len(kinds))]
    if k == "int":
        i = eng.input(label + ".int", eng.fresh_int(label))
        return IndexNode(i), ("int", i)
    if k == "slice":
        shape = eng.choice(4)
        a = eng.input(label + ".start", eng.fresh_int(label + "a")) if shape in (0, 1) else eng.input(label + ".start", None)
        b = eng.input(label + ".stop", eng.fresh_int(label + "b")) if shape in (0, 2) else eng.input(label + ".stop", None)
        s = eng.input(label + ".step", eng.fresh_int(label + "s"))
        # every integer step: positive (ascending range), negative (descending range: Modelica a:s:b with s < 0 has both bounds
        # given) and zero (not a range at all).  A subscript expression such as x[3:-n:1] with a parameter n reaches the slice branch
        # with a negative step, so no sign may be assumed.
        sign = ["positive", "negative", "zero"][eng.choice(3)]
        eng.input(label + ".step_sign", sign)
        eng.assume(s >= 1 if sign == "positive" else (s <= -1 if sign == "negative" else s == 0))
        if sign != "positive" and (a is None or b is None):
            raise_path_end()
        return IndexNode(VSlice(a, b, s)), ("slice", a, b, s, sign)
    if k == "whole":
        return None, ("whole",)
    raise AssertionError(k)


def make_generator(eng, for_loops=()):
    gcls = eng.module_global(eng.load_module(MOD), "Generator")
    g = VObj(gcls)
    g.fields["for_loops"] = VList(list(for_loops))
    g.fields["map_mode"] = "serial"

    def get_integer(eng, args, kwargs):
        node = args[1]
        if isinstance(node, IndexNode):
            return node.value
        raise Unsupported("get_integer of %r" % (node,))
    eng.call_contracts["Generator.get_integer"] = get_integer
    return g


def check_position(eng, prefix, desc, key, n):
    """(P) what the key handed to CasADi must be for Modelica subscript `desc` on a dimension n"""
    n = ops.to_arith(n)
    if desc[0] == "int":
        i = desc[1]
        eng.prove(prefix + ".int.in_range", z3.And(i >= 1, i <= n))
        if isinstance(key, VSlice):
            eng.prove(prefix + ".int.zero_based", False, note="integer subscript became a slice")
        else:
            eng.prove(prefix + ".int.zero_based", ops.to_arith(key) == i - 1)
        return
    if desc[0] == "whole":
        desc = ("slice", None, None, z3.IntVal(1), "positive")   # an absent subscript denotes 1:n
    _, a, b, s, sign = desc
    if sign == "zero":
        eng.prove(prefix + ".slice.zero_step_is_rejected", False, note="a slice with step 0 was accepted")
        return
    if sign == "negative":
        return check_descending(eng, prefix, a, b, s, key, n)
    if not isinstance(key, VSlice):
        eng.prove(prefix + ".slice.is_slice", False)
        return
    first = z3.IntVal(1) if a is None else a
    last = n if b is None else b
    # python slice semantics of key on a sequence of length n (step >= 1)
    A, B, S = key.start, key.stop, key.step

    def norm(p, default):
        if p is None:
            return default
        p = ops.to_arith(p)
        return z3.If(p < 0, z3.If(p + n < 0, z3.IntVal(0), p + n), z3.If(p > n, n, p))
    lo, hi = norm(A, z3.IntVal(0)), norm(B, n)
    nonempty = first <= last
    eng.prove(prefix + ".slice.step_kept", z3.BoolVal(S is not None) if S is None else ops.to_arith(S) == s)
    # non-empty Modelica range: must lie in 1..n, first selected element is first-1, and the
    # exclusive python stop is exactly the inclusive Modelica stop
    eng.prove(prefix + ".slice.in_range", z3.Implies(nonempty, z3.And(first >= 1, last <= n)))
    eng.prove(prefix + ".slice.first_element", z3.Implies(nonempty, lo == first - 1))
    eng.prove(prefix + ".slice.last_bound", z3.Implies(nonempty, hi == last))
    eng.prove(prefix + ".slice.empty_stays_empty", z3.Implies(z3.Not(nonempty), lo >= hi))


def check_descending(eng, prefix, a, b, s, key, n):
    """Modelica a:s:b with s < 0 denotes a, a+s, ... >= b (non-empty iff a >= b).  If the code accepts it, the Python key must select
    exactly those elements under Python's negative-step slice semantics, and a non-empty range must lie in 1..n."""
    if not isinstance(key, VSlice):
        eng.prove(prefix + ".slice.is_slice", False)
        return
    A, B, S = key.start, key.stop, key.step

    def norm(p, default):
        if p is None:
            return default
        p = ops.to_arith(p)
        return z3.If(p < 0, z3.If(p + n < 0, z3.IntVal(-1), p + n), z3.If(p >= n, n - 1, p))
    lo, hi = norm(A, n - 1), norm(B, z3.IntVal(-1))       # first index taken, exclusive lower end
    nonempty = a >= b
    eng.prove(prefix + ".slice.step_kept", z3.BoolVal(False) if S is None else ops.to_arith(S) == s)
    eng.prove(prefix + ".slice.descending.in_range", z3.Implies(nonempty, z3.And(b >= 1, a <= n)))
    eng.prove(prefix + ".slice.descending.first_element", z3.Implies(nonempty, lo == a - 1))
    eng.prove(prefix + ".slice.descending.last_bound", z3.Implies(nonempty, hi == b - 2))
    eng.prove(prefix + ".slice.descending.empty_stays_empty", z3.Implies(z3.Not(nonempty), lo <= hi))


def dims_input(eng, label):
    n = eng.input(label, eng.fresh_int(label))
    eng.assume(n >= 0)
    return n


def h_constant_subscripts(eng):
    """equations: constant integer subscripts and slices, 1-D / 2-D / nested"""
    install(eng)
    g = make_generator(eng)
    f = eng.find_function(MOD, "Generator.get_indexed_symbol")
    layout = ["1d", "2d", "nested", "a.x[k]", "a[k].x"][eng.choice(5)]
    eng.input("layout", layout)
    n1 = dims_input(eng, "n1")
    descs, nodes = [], []
    if layout in ("a.x[k]", "a[k].x"):
        # an array inside a scalar component / a scalar inside a component array: the scalar level
        # carries the (None subscript, None dimension) pair that the real loop skips
        nd, d = sym_subscript(eng, "i1", ["int", "slice"])
        if layout == "a.x[k]":
            mshape, indices = ((None,), (n1,)), VList([VList([None]), VList([nd])])
        else:
            mshape, indices = ((n1,), (None,)), VList([VList([nd]), VList([None])])
        dims, tshape, descs = [n1], (n1, 1), [d]
    elif layout == "1d":
        nd, d = sym_subscript(eng, "i1", ["int", "slice"])
        mshape, indices, dims, tshape = ((n1,),), VList([VList([nd])]), [n1], (n1, 1)
        descs = [d]
    else:
        n2 = dims_input(eng, "n2")
        nd1, d1 = sym_subscript(eng, "i1", ["int", "slice", "whole"])
        nd2, d2 = sym_subscript(eng, "i2", ["int", "slice", "whole"])
        if d1[0] == "whole" and d2[0] == "whole":
            raise_path_end()
        descs, dims, tshape = [d1, d2], [n1, n2], (n1, n2)
        if layout == "2d":
            mshape, indices = ((n1, n2),), VList([VList([nd1, nd2])])
        else:
            mshape, indices = ((n1,), (n2,)), VList([VList([nd1]), VList([nd2])])
    s = MXVal("a.x" if layout in ("nested", "a.x[k]", "a[k].x") else "x", tshape, mshape)
    tree = VObj(VClass("ComponentRef"), {"indices": indices, "name": "x"})
    try:
        res = eng.call(VBound(f, g), [tree, s], {})
    except PyRaise as e:
        eng.cover("const.raises")
        # (P) an error is the required outcome for out-of-range subscripts and an allowed one
        # for empty ranges; it must not happen for subscripts inside 1..n
        for p, (d, n) in enumerate(zip(descs, dims)):
            if d[0] == "int":
                continue
        allin = []
        for d, n in zip(descs, dims):
            if d[0] == "int":
                allin.append(z3.And(d[1] >= 1, d[1] <= n))
            elif d[0] == "slice":
                first = z3.IntVal(1) if d[1] is None else d[1]
                last = n if d[2] is None else d[2]
                # (only ascending ranges must be accepted: rejecting a descending or zero-step slice loudly is allowed)
                allin.append(z3.And(first >= 1, last <= n, first <= last, z3.BoolVal(d[4] == "positive")))
        eng.prove("const.no_error_for_valid_subscripts", z3.Not(z3.And(allin)), exc=repr(e.exc))
        return
    eng.cover("const.returns")
    if not isinstance(res, MXVal) or res.parent is not s or res.selection is None:
        eng.prove("const.result_is_a_selection_of_the_symbol", False)
        return
    keys = res.selection
    eng.prove("const.one_key_per_dimension", z3.BoolVal(len(keys) == len(descs)))
    if len(keys) != len(descs):
        return
    for p, (d, n, k) in enumerate(zip(descs, dims, keys)):
        check_position(eng, "const.dim%d" % (p + 1), d, k, n)


def raise_path_end():
    from pyvc.values import PathEnd
    raise PathEnd()


def h_scalar_subscript(eng):
    """a subscript on a component that is not an array raises"""
    install(eng)
    g = make_generator(eng)
    f = eng.find_function(MOD, "Generator.get_indexed_symbol")
    nd, d = sym_subscript(eng, "i1", ["int", "slice"])
    layout = eng.choice(2)
    if layout == 0:
        s = MXVal("x", (1, 1), ((None,),))
        indices = VList([VList([nd])])
    else:
        n1 = dims_input(eng, "n1")
        nd0, d0 = sym_subscript(eng, "i0", ["int"])
        eng.assume(z3.And(d0[1] >= 1, d0[1] <= n1))
        s = MXVal("a.x", (n1, 1), ((n1,), (None,)))
        indices = VList([VList([nd0]), VList([nd])])
    tree = VObj(VClass("ComponentRef"), {"indices": indices, "name": "x"})
    try:
        eng.call(VBound(f, g), [tree, s], {})
    except PyRaise:
        eng.cover("scalar.raises")
        eng.prove("scalar.subscript_on_scalar_raises", True)
        return
    eng.prove("scalar.subscript_on_scalar_raises", False)


def h_too_many(eng):
    """more subscripts than dimensions raises"""
    install(eng)
    g = make_generator(eng)
    f = eng.find_function(MOD, "Generator.get_indexed_symbol")
    n1 = dims_input(eng, "n1")
    nd1, d1 = sym_subscript(eng, "i1", ["int"])
    nd2, d2 = sym_subscript(eng, "i2", ["int"])
    s = MXVal("x", (n1, 1), ((n1,),))
    tree = VObj(VClass("ComponentRef"), {"indices": VList([VList([nd1, nd2])]), "name": "x"})
    try:
        eng.call(VBound(f, g), [tree, s], {})
    except PyRaise:
        eng.cover("toomany.raises")
        eng.prove("toomany.raises", True)
        return
    eng.prove("toomany.raises", False)


def h_loop_index(eng):
    """for-loops: x[i], x[expr(i)], x[i, k], x[k, i]: every value the loop variable takes must give
    a subscript in 1..n, or generation fails"""
    install(eng)
    fl_cls = eng.module_global(eng.load_module(MOD), "ForLoop")
    eng.find_function(MOD, "ForLoop.register_indexed_symbol")
    f = eng.find_function(MOD, "Generator.get_indexed_symbol")
    member = z3.Function("loop_values", z3.IntSort(), z3.BoolSort())
    ivar = MXVal("i", (1, 1))
    values = ArrVal(lambda x: member(x), lambda x: x)
    fl = VObj(fl_cls, {"name": "i", "index_variable": ivar, "values": values, "tree": None})
    from pyvc.builtins import b_ordered_dict
    fl.fields["indexed_symbols"] = b_ordered_dict(eng)
    g = make_generator(eng, [fl])
    fl.fields["generator"] = g
    shape = ["x[i]", "x[f(i)]", "x[i,k]", "x[k,i]", "a.x[i]", "a[i].x", "a.x[f(i)]"][eng.choice(7)]
    eng.input("shape", shape)
    n1 = dims_input(eng, "n1")
    loop_node = IndexNode(None, True, "i")
    expr_node = IndexNode(MXVal("f(i)", (1, 1)))
    nested_indices = None
    if shape in ("a.x[i]", "a[i].x", "a.x[f(i)]"):
        # the looped-over array sits in a scalar component (or is an array of components with a
        # scalar member): one (None, None) level that carries no subscript and no dimension
        node = expr_node if shape == "a.x[f(i)]" else loop_node
        if shape == "a[i].x":
            s = MXVal("a.x", (n1, 1), ((n1,), (None,)))
            nested_indices = VList([VList([node]), VList([None])])
        else:
            s = MXVal("a.x", (n1, 1), ((None,), (n1,)))
            nested_indices = VList([VList([None]), VList([node])])
        dims = [n1]
        shape = "x[f(i)]" if shape == "a.x[f(i)]" else "x[i]"
    elif shape in ("x[i]", "x[f(i)]"):
        nodes = [loop_node if shape == "x[i]" else expr_node]
        s = MXVal("x", (n1, 1), ((n1,),))
        dims = [n1]
    else:
        n2 = dims_input(eng, "n2")
        nk, dk = sym_subscript(eng, "k", ["int"])
        nodes = [loop_node, nk] if shape == "x[i,k]" else [nk, loop_node]
        s = MXVal("x", (n1, n2), ((n1, n2),))
        dims = [n1, n2]
    tree = VObj(VClass("ComponentRef"), {"indices": nested_indices if nested_indices is not None else VList([VList(nodes)]), "name": "x"})
    try:
        res = eng.call(VBound(f, g), [tree, s], {})
    except PyRaise as e:
        eng.cover("loop.raises")
        if shape in ("x[i]", "x[i,k]", "x[k,i]"):
            x = z3.Int("xl")
            loop_dim = dims[1] if shape == "x[k,i]" else dims[0]
            bad = [z3.Exists([x], z3.And(member(x), z3.Or(x < 1, x > loop_dim)))]
            bad.append(z3.Not(z3.Exists([x], member(x))) if False else z3.BoolVal(False))
            if shape != "x[i]":
                bad.append(z3.Or(dk[1] < 1, dk[1] > (dims[1] if shape == "x[i,k]" else dims[0])))
            eng.prove("loop.no_error_for_valid_subscripts", z3.Or(bad), exc=repr(e.exc))
        return
    eng.cover("loop.returns")
    isyms = fl.fields["indexed_symbols"]
    nonempty_symbol = z3.And([ops.to_arith(d) != 0 for d in dims])
    if len(isyms.keys) != 1:
        # nothing registered: only legitimate when the symbol is empty
        eng.prove("loop.registered_unless_empty_symbol", z3.Not(nonempty_symbol))
        return
    entry = isyms.vals[0]
    stored = entry.fields.get("indices")
    pos = 1 if shape == "x[k,i]" else 0
    if shape in ("x[i,k]", "x[k,i]"):
        if not (isinstance(stored, tuple) and len(stored) == 2):
            eng.prove("loop.stored_index_pair", False)
            return
        arr, const = (stored[0], stored[1]) if shape == "x[i,k]" else (stored[1], stored[0])
        cdim = dims[1] if shape == "x[i,k]" else dims[0]
        eng.prove("loop.constant_subscript.in_range", z3.And(dk[1] >= 1, dk[1] <= cdim))
        eng.prove("loop.constant_subscript.zero_based", ops.to_arith(const) == dk[1] - 1)
    else:
        arr = stored
    if not isinstance(arr, ArrVal):
        eng.prove("loop.stored_indices_are_the_loop_values", False)
        return
    n = ops.to_arith(dims[pos])
    # (P) every zero-based index handed to CasADi lies in [0, n)
    eng.prove("loop.index.in_range", arr.forall(lambda v: z3.And(v >= 0, v < n)))
    if shape != "x[f(i)]":
        x = z3.Int("xz")
        eng.prove("loop.index.zero_based", z3.ForAll([x], z3.Implies(member(x), arr.g(x) == x - 1)))


def h_get_integer_of_a_subscripted_parameter(eng):
    """Generator.get_integer (what evaluates subscripts, slice bounds and declared dimensions) on a reference INTO an Integer
    parameter array, idx[k] or d[r, c]: it may refuse such a reference (today it does), but if it answers, every subscript lies in
    1..size of its dimension and the answer is the element at those 1-based positions -- a subscript that is 0, negative or too
    large is an error, never another element."""
    install(eng)
    from .ast_common import AstFactory
    from .gen_common import new_generator
    gm = eng.load_module(MOD)
    eng.call_contracts.pop("Generator.get_integer", None)
    A = AstFactory(eng)
    two_d = bool(eng.choice(2))
    literal = [[11, 12, 13], [21, 22, 23]] if two_d else [31, 32, 33]
    subs = [[-1, 0, 1, 2, 3][eng.choice(5)], [0, 1, 3, 4][eng.choice(4)]] if two_d else [[-2, -1, 0, 1, 2, 3, 4][eng.choice(7)]]
    eng.input("parameter_array", literal)
    eng.input("subscripts", subs)

    def arr(v):
        return A.new("Array", values=VList([arr(x) for x in v])) if isinstance(v, list) else A.prim(v)
    sym = A.new("Symbol", name="idx", type=A.ref("Integer"), value=arr(literal), prefixes=VList(["parameter"]))
    klass = A.new("Class", name="M", type="model")
    ops.setitem(eng, klass.fields["symbols"], "idx", sym)
    g = new_generator(eng, gm, {"entered_classes": VList([klass]), "for_loops": VList([])})
    tree = A.ref("idx")
    tree.fields["indices"] = VList([VList([A.prim(k_) for k_ in subs])])
    f = eng.find_function(MOD, "Generator.get_integer")
    try:
        r = eng.call(VBound(f, g), [tree], {})
    except PyRaise:
        eng.cover("getint.refuses")
        eng.prove("getint.subscripted_parameter_is_refused_or_answered_in_range", True)
        return
    eng.cover("getint.answers")
    dims = [2, 3] if two_d else [3]
    in_range = all(1 <= k_ <= n_ for k_, n_ in zip(subs, dims))
    want = None
    if in_range:
        want = literal
        for k_ in subs:
            want = want[k_ - 1]
    eng.prove("getint.subscripted_parameter_is_refused_or_answered_in_range", z3.BoolVal(bool(in_range and r == want)), answered=repr(r), element=repr(want))


class Operand(Ext):
    """what get_mx answers for an operand of an if-expression: a scalar MX that is a known constant (a literal condition such as
    `true`, `false`, `1 > 2` folded by CasADi) or depends on variables; inspecting it is allowed, so the node API is there"""
    type_names = ("MX",)

    def __init__(self, label, const=None):
        self.label, self.const = label, const

    def sym_isinstance(self, eng, cls):
        return cls.name == "MX"

    def sym_getattr(self, eng, name):
        c = self.const
        table = {"is_constant": lambda eng: c is not None, "is_symbolic": lambda eng: False, "is_scalar": lambda eng, *a: True,
                 "is_zero": lambda eng: c is not None and not c, "is_one": lambda eng: c is not None and bool(c),
                 "is_regular": lambda eng: True, "is_dense": lambda eng: True, "is_empty": lambda eng, *a: False,
                 "is_valid_input": lambda eng: False, "numel": lambda eng: 1, "nnz": lambda eng: 1,
                 "size1": lambda eng: 1, "size2": lambda eng: 1, "size": lambda eng, *a: (1, 1), "n_dep": lambda eng: 0 if c is not None else 2}
        if name in table:
            return stub(table[name])
        if name == "shape":
            return (1, 1)
        if name == "to_DM":
            if c is None:
                raise PyRaise(eng.make_exc("RuntimeError", "to_DM of a non-constant"))
            return stub(lambda eng: Operand(self.label + ".dm", c))
        from .casadi_facts import casadi_facts
        if name in casadi_facts()["mx_attributes"]:
            raise Unsupported("MX.%s on an if-expression operand" % name)
        raise PyRaise(eng.make_exc("AttributeError", name))

    def sym_unop(self, eng, op):
        if op in ("float", "int", "bool") and self.const is not None:
            return {"float": float, "int": int, "bool": bool}[op](self.const)
        if op == "Not":
            return Operand("not " + self.label, None if self.const is None else (not self.const))
        raise Unsupported("operator %s on an MX operand" % op)

    def sym_truth(self, eng):
        if self.const is None:
            raise PyRaise(eng.make_exc("RuntimeError", "truth value of a symbolic MX"))
        return bool(self.const)

    def sym_eq(self, eng, other):
        return self is other


def h_if_expression_evaluates_every_operand(eng):
    """Generator.exitIfExpression: component references are turned into CasADi values -- and their subscripts checked against the
    declared dimensions -- only when a callback asks get_mx for them.  An if-expression must therefore ask for EVERY condition and
    EVERY branch, whatever is known about the conditions at generation time: a subscript in a branch that can never be taken is
    still a subscript of the model (statement: every constant subscript is checked).  (How the value is built from the
    operands is C11's subject, not demanded here: folding a known condition is fine as long as every operand was asked for.)"""
    install(eng)
    from .gen_common import new_generator
    gm = eng.load_module(MOD)
    nc = 1 + eng.choice(2)
    kinds = [["true", "false", "depends-on-variables"][eng.choice(3)] for _ in range(nc)]
    eng.input("conditions", kinds)
    conds = [VObj(VClass("ComponentRef"), {"name": "cond%d" % k_}) for k_ in range(nc)]
    exprs = [VObj(VClass("ComponentRef"), {"name": "x", "tag": "branch%d" % k_}) for k_ in range(nc + 1)]
    vals = {}
    for t, kd in zip(conds, kinds):
        vals[id(t)] = Operand(t.fields["name"], {"true": True, "false": False}.get(kd))
    for t in exprs:
        vals[id(t)] = Operand(t.fields["tag"])
    asked = []

    def get_mx(eng, args, kw):
        asked.append(args[1])
        return vals[id(args[1])]
    eng.call_contracts["Generator.get_mx"] = get_mx
    combined = []

    def if_else(eng, c, a, b, *rest):
        r = Operand("if_else")
        r.parts = (c, a, b)
        combined.append(r)
        return r
    cas = eng.ext_modules["casadi"]

    class Cas(Ext):
        def sym_getattr(self, eng, name):
            if name == "if_else":
                return stub(if_else)
            return cas.sym_getattr(eng, name)
    eng.ext_modules["casadi"] = Cas()
    gm.globals["ca"] = eng.ext_modules["casadi"]
    g = new_generator(eng, gm, {"src": VDict(), "for_loops": VList([])})
    tree = VObj(VClass("IfExpression"), {"conditions": VList(conds), "expressions": VList(exprs)})
    f = eng.find_function(MOD, "Generator.exitIfExpression")
    try:
        eng.call(VBound(f, g), [tree], {})
    except PyRaise as e:
        eng.prove("ifexpr.no_exception", False, exc=repr(e.exc))
        return
    eng.cover("ifexpr.done")
    missing = [t.fields.get("tag") or t.fields["name"] for t in conds + exprs if not any(a is t for a in asked)]
    eng.prove("ifexpr.every_condition_and_every_branch_is_evaluated", z3.BoolVal(not missing), not_evaluated=missing)


HARNESSES = [("Generator.get_indexed_symbol/constant", h_constant_subscripts),
             ("Generator.get_indexed_symbol/scalar", h_scalar_subscript),
             ("Generator.get_indexed_symbol/too-many", h_too_many),
             ("Generator.get_indexed_symbol+ForLoop.register_indexed_symbol/loop", h_loop_index),
             ("Generator.get_integer on a reference into an Integer parameter array", h_get_integer_of_a_subscripted_parameter),
             ("Generator.exitIfExpression: every operand is evaluated", h_if_expression_evaluates_every_operand)]
EXPECTED_COVER = {"const.raises", "const.returns", "scalar.raises", "toomany.raises", "loop.raises", "loop.returns", "getint.refuses", "ifexpr.done"}
BOUNDED = True
LEVEL = "proof"
TRUSTED = ["pyvc VC generator", "z3 5.1.0 / cvc5 1.0.3",
           "assumed contract of casadi.MX.__getitem__ (int k: 0<=k<n selects k, negative wraps, k>=n raises; slice: Python semantics, raises when stop > n, start > n or start < -n) -- sampled by replay/C23.py",
           "Generator.get_integer returns the integer / slice(start, stop, step) denoted by the subscript expression (its own contract, not verified here)"]
ASSUMPTIONS = [
    "slice steps: every integer; for negative steps both bounds are given (Modelica has no open-ended descending range)",
    "at most two array dimensions in total (the code's own assertion); layouts enumerated: 1-D, 2-D of one component, two nested components with one subscript each",
    "the values of a for-loop variable are an arbitrary set of integers; the value set of a mapped index expression f(i) is an arbitrary set of integers",
    "partial index lists on arrays of components (fewer subscript levels than shape levels) are NOT covered here: the statement speaks about out-of-range subscripts; see DESIGN.md C23/C11",
]
DROPPED = ["error-message formatting (str.format) is an uninterpreted string", "logger calls"]
EXPLANATION = "Whole-function symbolic execution of get_indexed_symbol / register_indexed_symbol for all integer subscripts, slice bounds and dimensions."
MANIFEST = {
    "category": "proof",
    "text": "The real get_indexed_symbol and ForLoop.register_indexed_symbol are executed symbolically for every integer subscript, slice bound, step (positive, negative or zero) and dimension (no window): a normal return implies the subscript lies in 1..n and the key handed to CasADi selects exactly the Modelica elements under Python/CasADi slice semantics; subscripts on scalars and surplus subscripts raise. A bounded replay through generate() on real models runs beside it. Generator.exitIfExpression asks get_mx for every condition and every branch, so subscripts in branches that cannot be taken are checked too.",
    "note": "Assumed: casadi.MX.__getitem__ contract (sampled in the replay), get_integer's meaning, <= 2 array dimensions; partial index lists on component arrays are outside this check.",
    "technique": "contract-based deductive verification: whole-function symbolic execution of the real source with symbolic integers, VCs discharged by z3/cvc5",
}
