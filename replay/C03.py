"""C03 replay / bounded stand-in on the real parser.

Random expression TREES (variables, integer/real/Boolean literals, unary + -, binary + - * / ^ and the element-wise
spellings, relations, not / and / or, if-then-else, builtin calls) are printed by an independent printer that follows
Modelica's grammar (B.2.7: or < and < not < relation < [sign] term {add term} < factor {mul factor} < primary ^ primary),
once with the minimal parentheses and once with redundant ones, embedded in a model, parsed by pymoca.parser.parse
(cache bypassed), and the parsed right-hand side is evaluated by a small evaluator over pymoca's ast at random points:
it must equal the value of the generating tree.  Literals are compared with their exact values and types.
A fixed list of texts that separate two groupings (and the spellings a reviewer would try first) runs before the
random ones."""
import json
import logging
import math
import sys

import numpy as np

VARS = ["a", "b", "c", "d"]
BVARS = ["p", "q"]

# Modelica levels
L_IF, L_OR, L_AND, L_NOT, L_REL, L_ADD, L_MUL, L_POW, L_PRIM = 0, 1, 2, 3, 4, 5, 6, 7, 8
BIN_LEVEL = {"+": L_ADD, "-": L_ADD, ".+": L_ADD, ".-": L_ADD, "*": L_MUL, "/": L_MUL, ".*": L_MUL, "./": L_MUL}
RELS = ["<", "<=", ">", ">=", "==", "<>"]
NUMERALS = ["0", "1", "2", "3", "7", "10", "0.5", "2.0", "1.25", "1e1", "2.5E-1", "3.", "12e+0", "007", "4.0e0"]


class Gen:
    def __init__(self, rng):
        self.r = rng

    def arith(self, depth):
        r = self.r
        if depth <= 0 or r.rand() < 0.15:
            if r.rand() < 0.6:
                return ("var", str(r.choice(VARS)))
            return ("num", str(r.choice(NUMERALS)))
        k = r.randint(0, 100)
        if k < 50:
            op = str(r.choice(["+", "-", "*", "/", "+", "-", "*", "/", ".+", ".-", ".*", "./"]))
            return ("bin", op, self.arith(depth - 1), self.arith(depth - 1))
        if k < 65:
            return ("neg", str(r.choice(["-", "-", "+"])), self.arith(depth - 1))
        if k < 77:
            return ("pow", str(r.choice(["^", "^", ".^"])), self.arith(depth - 1), ("num", str(r.choice(["2", "3", "1", "0", "2.0"]))))
        if k < 87:
            return ("call", str(r.choice(["sin", "cos", "abs"])), [self.arith(depth - 1)])
        if k < 92:
            return ("call", str(r.choice(["min", "max"])), [self.arith(depth - 1), self.arith(depth - 1)])
        n_elif = int(r.randint(0, 3))
        conds = [self.boolean(depth - 1) for _ in range(n_elif + 1)]
        vals = [self.arith(depth - 1) for _ in range(n_elif + 2)]
        return ("if", conds, vals)

    def boolean(self, depth):
        r = self.r
        if depth <= 0 or r.rand() < 0.15:
            k = r.randint(0, 4)
            if k == 0:
                return ("bool", bool(r.randint(0, 2)))
            if k == 1:
                return ("var", str(r.choice(BVARS)))
            return ("rel", str(r.choice(RELS)), self.arith(0), self.arith(0))
        k = r.randint(0, 100)
        if k < 30:
            return ("rel", str(r.choice(RELS)), self.arith(depth - 1), self.arith(depth - 1))
        if k < 50:
            return ("not", self.boolean(depth - 1))
        if k < 75:
            return ("and", self.boolean(depth - 1), self.boolean(depth - 1))
        return ("or", self.boolean(depth - 1), self.boolean(depth - 1))


def level(t):
    k = t[0]
    if k in ("var", "num", "bool", "call"):
        return L_PRIM
    if k == "bin":
        return BIN_LEVEL[t[1]]
    if k == "neg":
        return L_ADD
    if k == "pow":
        return L_POW
    if k == "rel":
        return L_REL
    if k == "not":
        return L_NOT
    if k == "and":
        return L_AND
    if k == "or":
        return L_OR
    return L_IF


def show(t, minlevel, rng=None, redundant=0.0):
    """text of t usable where Modelica's grammar wants something of at least `minlevel`"""
    s = body(t, rng, redundant)
    if level(t) < minlevel:
        s = "(" + s + ")"
    elif rng is not None and rng.rand() < redundant:
        s = "(" + s + ")"
        if rng.rand() < 0.2:
            s = "(" + s + ")"
    return s


def body(t, rng, red):
    k = t[0]
    if k == "var":
        return t[1]
    if k == "num":
        return t[1]
    if k == "bool":
        return "true" if t[1] else "false"
    if k == "call":
        return "%s(%s)" % (t[1], ", ".join(show(x, L_IF + 1, rng, red) for x in t[2]))
    if k == "bin":
        p = BIN_LEVEL[t[1]]
        return "%s %s %s" % (show(t[2], p, rng, red), t[1], show(t[3], p + 1, rng, red))
    if k == "neg":
        # arithmetic_expression: [add_op] term {add_op term}: the sign takes a term
        return "%s%s" % (t[1], show(t[2], L_MUL, rng, red))
    if k == "pow":
        return "%s %s %s" % (show(t[2], L_PRIM, rng, red), t[1], show(t[3], L_PRIM, rng, red))
    if k == "rel":
        return "%s %s %s" % (show(t[2], L_ADD, rng, red), t[1], show(t[3], L_ADD, rng, red))
    if k == "not":
        return "not %s" % show(t[1], L_REL, rng, red)
    if k == "and":
        return "%s and %s" % (show(t[1], L_AND, rng, red), show(t[2], L_NOT, rng, red))
    if k == "or":
        return "%s or %s" % (show(t[1], L_OR, rng, red), show(t[2], L_AND, rng, red))
    conds, vals = t[1], t[2]
    s = "if %s then %s" % (show(conds[0], L_IF + 1, rng, red), show(vals[0], L_IF + 1, rng, red))
    for c, v in zip(conds[1:], vals[1:-1]):
        s += " elseif %s then %s" % (show(c, L_IF + 1, rng, red), show(v, L_IF + 1, rng, red))
    return s + " else %s" % show(vals[-1], L_IF + 1, rng, red)


class Skip(Exception):
    pass


def num_value(text):
    try:
        return int(text)
    except ValueError:
        return float(text)


def apply(op, v):
    try:
        if len(v) == 1:
            if op in ("-",):
                return -v[0]
            if op == "+":
                return +v[0]
            if op == "not":
                return not v[0]
            if op == "sin":
                return math.sin(v[0])
            if op == "cos":
                return math.cos(v[0])
            if op == "abs":
                return abs(v[0])
        if len(v) == 2:
            x, y = v
            if op in ("+", ".+"):
                return x + y
            if op in ("-", ".-"):
                return x - y
            if op in ("*", ".*"):
                return x * y
            if op in ("/", "./"):
                return x / y
            if op in ("^", ".^"):
                r = float(x) ** y
                if isinstance(r, complex):
                    raise Skip()
                return r
            if op == "<":
                return x < y
            if op == "<=":
                return x <= y
            if op == ">":
                return x > y
            if op == ">=":
                return x >= y
            if op == "==":
                return x == y
            if op == "<>":
                return x != y
            if op == "and":
                return bool(x) and bool(y)
            if op == "or":
                return bool(x) or bool(y)
            if op == "min":
                return min(x, y)
            if op == "max":
                return max(x, y)
    except (ZeroDivisionError, OverflowError, ValueError):
        raise Skip()
    raise ValueError("operator %r with %d operands" % (op, len(v)))


def ev_ref(t, env):
    k = t[0]
    if k == "var":
        return env[t[1]]
    if k == "num":
        return num_value(t[1])
    if k == "bool":
        return t[1]
    if k == "call":
        return apply(t[1], [ev_ref(x, env) for x in t[2]])
    if k in ("bin", "pow", "rel"):
        return apply(t[1], [ev_ref(t[2], env), ev_ref(t[3], env)])
    if k == "neg":
        return apply(t[1], [ev_ref(t[2], env)])
    if k == "not":
        return apply("not", [ev_ref(t[1], env)])
    if k in ("and", "or"):
        return apply(k, [ev_ref(t[1], env), ev_ref(t[2], env)])
    conds, vals = t[1], t[2]
    # every branch is evaluated (as the tree evaluator does) so that Skip is raised alike
    cv = [ev_ref(c, env) for c in conds]
    vv = [ev_ref(v, env) for v in vals]
    for c, v in zip(cv, vv):
        if c:
            return v
    return vv[-1]


def ev_tree(n, env, A):
    if isinstance(n, A.Primary):
        return n.value
    if isinstance(n, A.ComponentRef):
        return env[n.name]
    if isinstance(n, A.IfExpression):
        cv = [ev_tree(c, env, A) for c in n.conditions]
        vv = [ev_tree(v, env, A) for v in n.expressions]
        if len(vv) != len(cv) + 1:
            raise ValueError("if-expression with %d conditions and %d branches" % (len(cv), len(vv)))
        for c, v in zip(cv, vv):
            if c:
                return v
        return vv[-1]
    if isinstance(n, A.Expression):
        op = n.operator
        if isinstance(op, A.ComponentRef):
            op = op.name
        return apply(op, [ev_tree(x, env, A) for x in n.operands])
    raise ValueError("unexpected node %r" % (type(n).__name__,))


def same(x, y):
    if isinstance(x, bool) or isinstance(y, bool):
        return isinstance(x, bool) and isinstance(y, bool) and x == y
    if isinstance(x, float) and isinstance(y, float) and math.isnan(x) and math.isnan(y):
        return True
    return x == y


# texts that separate two groupings; value given by Modelica's grammar, written with explicit Python grouping
def fixed_cases():
    out = []

    def add(text, fn):
        out.append((text, fn))
    add("a - b - c", lambda e: (e["a"] - e["b"]) - e["c"])
    add("a - (b - c)", lambda e: e["a"] - (e["b"] - e["c"]))
    add("a / b / c", lambda e: (e["a"] / e["b"]) / e["c"])
    add("a / (b / c)", lambda e: e["a"] / (e["b"] / e["c"]))
    add("a / b * c", lambda e: (e["a"] / e["b"]) * e["c"])
    add("a - b + c", lambda e: (e["a"] - e["b"]) + e["c"])
    add("a + b * c", lambda e: e["a"] + (e["b"] * e["c"]))
    add("a * b + c", lambda e: (e["a"] * e["b"]) + e["c"])
    add("(a + b) * c", lambda e: (e["a"] + e["b"]) * e["c"])
    add("a - b * c - d", lambda e: (e["a"] - (e["b"] * e["c"])) - e["d"])
    add("-a + b", lambda e: (-e["a"]) + e["b"])
    add("-a - b", lambda e: (-e["a"]) - e["b"])
    add("-a ^ 2", lambda e: -(e["a"] ** 2))
    add("-a * b", lambda e: -(e["a"] * e["b"]))
    add("a * b ^ 2", lambda e: e["a"] * (e["b"] ** 2))
    add("a ^ 2 * b", lambda e: (e["a"] ** 2) * e["b"])
    add("a + b ^ 2", lambda e: e["a"] + (e["b"] ** 2))
    add("(a * b) ^ 2", lambda e: (e["a"] * e["b"]) ** 2)
    add("-(-a)", lambda e: e["a"])
    add("-(-(a))", lambda e: e["a"])
    add("+(-a)", lambda e: -e["a"])
    add("-(a + b)", lambda e: -(e["a"] + e["b"]))
    add("-(a * b)", lambda e: -(e["a"] * e["b"]))
    add("-(a - b)", lambda e: -(e["a"] - e["b"]))
    add("-(a - b - c)", lambda e: -((e["a"] - e["b"]) - e["c"]))
    add("-(-a - b)", lambda e: -((-e["a"]) - e["b"]))
    add("d * (-(a - b)) / c", lambda e: e["d"] * (-(e["a"] - e["b"])) / e["c"])
    add("-((a - b)) + c", lambda e: -(e["a"] - e["b"]) + e["c"])
    add("-(a - b) ^ 2", lambda e: -((e["a"] - e["b"]) ** 2))
    add("+(a - b)", lambda e: e["a"] - e["b"])
    add("a < b + c", lambda e: e["a"] < (e["b"] + e["c"]))
    # long unparenthesised chains (generated models contain sums of dozens of terms): left-associative at every length
    names = ["a", "b", "c", "d"]
    for n_terms, opsq in ((40, [".-"]), (40, ["-"]), (70, ["-", "+", ".-", ".+", "-"]), (33, [".-", "+"])):
        text = names[0]
        seq = []
        for k in range(1, n_terms):
            o = opsq[k % len(opsq)]
            seq.append((o, names[k % 4]))
            text += " %s %s" % (o, names[k % 4])

        def fold(e, seq=tuple(seq)):
            v = e["a"]
            for o, nm in seq:
                v = v + e[nm] if o in ("+", ".+") else v - e[nm]
            return v
        add(text, fold)
    add("a + b < c", lambda e: (e["a"] + e["b"]) < e["c"])
    add("not a < b", lambda e: not (e["a"] < e["b"]))
    add("not p and q", lambda e: (not e["p"]) and e["q"])
    add("not (p and q)", lambda e: not (e["p"] and e["q"]))
    add("p or q and false", lambda e: e["p"] or (e["q"] and False))
    add("(p or q) and false", lambda e: (e["p"] or e["q"]) and False)
    add("true or p and q", lambda e: True or (e["p"] and e["q"]))
    add("p and q or true", lambda e: (e["p"] and e["q"]) or True)
    add("a < b and b < c", lambda e: (e["a"] < e["b"]) and (e["b"] < e["c"]))
    add("a < b or not b < c and p", lambda e: (e["a"] < e["b"]) or ((not (e["b"] < e["c"])) and e["p"]))
    add("p and not q", lambda e: e["p"] and (not e["q"]))
    add("if p then a else b", lambda e: e["a"] if e["p"] else e["b"])
    add("if p then a elseif q then b else c", lambda e: e["a"] if e["p"] else (e["b"] if e["q"] else e["c"]))
    add("if p then a elseif q then b elseif a < b then c else d", lambda e: e["a"] if e["p"] else (e["b"] if e["q"] else (e["c"] if e["a"] < e["b"] else e["d"])))
    add("(if p then a else b) + c", lambda e: (e["a"] if e["p"] else e["b"]) + e["c"])
    add("if p then a else b + c", lambda e: e["a"] if e["p"] else (e["b"] + e["c"]))
    add("a .* b .+ c", lambda e: (e["a"] * e["b"]) + e["c"])
    add("a .- b ./ c", lambda e: e["a"] - (e["b"] / e["c"]))
    add("a .^ 2 .* b", lambda e: (e["a"] ** 2) * e["b"])
    add("max(a, b) - min(c, d) * 2", lambda e: max(e["a"], e["b"]) - (min(e["c"], e["d"]) * 2))
    add("sin(a + b) * c", lambda e: math.sin(e["a"] + e["b"]) * e["c"])
    add("a <> b", lambda e: e["a"] != e["b"])
    add("a == b or a >= b", lambda e: (e["a"] == e["b"]) or (e["a"] >= e["b"]))
    add("2 * 3 + 4", lambda e: 10)
    add("2 + 3 * 4", lambda e: 14)
    add("7 - 2 - 1", lambda e: 4)
    add("2 ^ 3 * 2", lambda e: 16.0)
    add("1e1 + 0.5", lambda e: 10.5)
    return out


LITERALS = [("0", 0), ("7", 7), ("42", 42), ("007", 7), ("12345678901234567890", 12345678901234567890), ("1.5", 1.5), ("0.25", 0.25), ("3.", 3.0),
            ("1e3", 1000.0), ("1E3", 1000.0), ("2.5e-2", 0.025), ("2.5E+2", 250.0), ("10.0", 10.0), ("6.02e23", 6.02e23), ("0.1", 0.1),
            ("true", True), ("false", False), ('"abc"', "abc"), ('""', ""), ('"a b, c; (d) = e"', "a b, c; (d) = e"), ('"1 + 2"', "1 + 2"), ('"x\'y"', "x'y")]


def model(texts):
    decl = "  Real a, b, c, d;\n  Boolean p, q;\n" + "".join("  Real y%d;\n" % i for i in range(len(texts)))
    eqs = "".join("  y%d = %s;\n" % (i, t) for i, t in enumerate(texts))
    return "model M\n%sequation\n%send M;\n" % (decl, eqs)


def main():
    logging.disable(logging.CRITICAL)
    import pymoca.parser
    from pymoca import ast as A
    payload = json.load(sys.stdin)
    tier, seed = payload.get("tier", "quick"), int(payload.get("seed", 0) or 0)
    bounded = payload.get("mode") == "bounded"
    rng = np.random.RandomState(seed)
    n_random = 4000 if tier == "thorough" else 600
    failures, cases, seen = [], 0, set()

    def fail(cls, text, observed, expected):
        failures.append({"class": cls, "input": {"text": text}, "observed": observed, "expected": expected})

    def envs(k):
        out = []
        for _ in range(k):
            e = {v: float(np.round(rng.uniform(-4, 4), 3)) for v in VARS}
            e.update({v: bool(rng.randint(0, 2)) for v in BVARS})
            out.append(e)
        return out

    def parse_rhs(texts):
        tree = pymoca.parser.parse(model(texts), bypass_cache=True)
        if tree is None:
            return None
        eqs = tree.classes["M"].equations
        return [e.right for e in eqs] if len(eqs) == len(texts) else None

    # ---- fixed texts
    fixed = fixed_cases()
    try:
        rhs = parse_rhs([t for t, _ in fixed])
    except BaseException as e:  # noqa
        rhs = None
        fail("expression-text", "(fixed list)", "%s: %s" % (type(e).__name__, str(e)[:200]), "parsed")
    if rhs is None and not failures:
        # find the text that does not parse
        for t, _ in fixed:
            try:
                ok = parse_rhs([t]) is not None
            except BaseException:  # noqa
                ok = False
            if not ok:
                fail("expression-text", t, "not parsed", "a tree")
                break
    if rhs is not None:
        for (t, fn), node in zip(fixed, rhs):
            cases += 1
            seen.add(t)
            for e in envs(4):
                try:
                    want = fn(e)
                except (ZeroDivisionError, OverflowError):
                    continue
                try:
                    got = ev_tree(node, e, A)
                except Skip:
                    continue
                except BaseException as ex:  # noqa
                    fail("expression-text", t, "parsed tree cannot be evaluated: %s: %s" % (type(ex).__name__, str(ex)[:120]), "value %r at %r" % (want, e))
                    break
                if not same(got, want):
                    fail("expression-text", t, "parsed tree evaluates to %r at %r" % (got, e), "Modelica grouping gives %r" % (want,))
                    break
    # ---- literals
    try:
        rhs = parse_rhs([t for t, _ in LITERALS])
    except BaseException as e:  # noqa
        rhs = None
        fail("literal", "(literal list)", "%s: %s" % (type(e).__name__, str(e)[:200]), "parsed")
    if rhs is None and not failures:
        fail("literal", "(literal list)", "not parsed", "a tree")
    if rhs is not None:
        for (t, want), node in zip(LITERALS, rhs):
            cases += 1
            seen.add(t)
            got = getattr(node, "value", "<%s>" % type(node).__name__)
            if type(got) is not type(want) or got != want:
                fail("literal", t, "%r (%s)" % (got, type(got).__name__), "%r (%s)" % (want, type(want).__name__))
    # ---- random trees, minimal and redundant parentheses
    g = Gen(rng)
    batch = 40
    for start in range(0, n_random, batch):
        if failures and not bounded:
            break
        trees, texts = [], []
        for i in range(batch):
            t = g.arith(int(rng.randint(1, 5))) if rng.rand() < 0.7 else g.boolean(int(rng.randint(1, 4)))
            trees.append(t)
            texts.append(show(t, L_IF))
            trees.append(t)
            texts.append(show(t, L_IF, rng, 0.3))
        try:
            rhs = parse_rhs(texts)
        except BaseException as e:  # noqa
            rhs = None
        if rhs is None:
            # locate one offending text
            for t, txt in zip(trees, texts):
                try:
                    ok = parse_rhs([txt]) is not None
                except BaseException:  # noqa
                    ok = False
                if not ok:
                    fail("expression-text", txt, "not parsed", "a tree (text printed from a tree of the supported grammar)")
                    break
            continue
        for t, txt, node in zip(trees, texts, rhs):
            cases += 1
            seen.add(txt)
            for e in envs(3):
                try:
                    want = ev_ref(t, e)
                except Skip:
                    continue
                try:
                    got = ev_tree(node, e, A)
                except Skip:
                    fail("expression-text", txt, "parsed tree hits a domain error where the source tree does not, at %r" % (e,), "value %r" % (want,))
                    break
                except BaseException as ex:  # noqa
                    fail("expression-text", txt, "parsed tree cannot be evaluated: %s: %s" % (type(ex).__name__, str(ex)[:120]), "value %r" % (want,))
                    break
                if not same(got, want):
                    fail("expression-text", txt, "parsed tree evaluates to %r at %r" % (got, e), "Modelica grouping gives %r" % (want,))
                    break
    # at most one failure per class is reported upstream; keep the shortest text of each class first
    failures.sort(key=lambda f: (f["class"], len(f["input"]["text"])))
    if bounded:
        print(json.dumps({"performed": True, "cases": cases, "distinct_nontrivial": len(seen), "failures": failures[:10],
                          "rule": "%d fixed texts separating two groupings, %d literals with exact value and type, and random expression trees (depth <= 4; variables, %d numeral spellings, Booleans, unary + -, "
                                  "+ - * / ^ and element-wise spellings, 6 relations, not/and/or, if/elseif/else, sin cos abs min max) each printed with minimal and with redundant parentheses by an independent "
                                  "Modelica-grammar printer, parsed by parse(bypass_cache=True) and evaluated at 3 random points against the generating tree; distinct = distinct texts" % (len(fixed), len(LITERALS), len(NUMERALS)),
                          "bound": "%d texts" % cases}))
    else:
        f = failures[0] if failures else None
        print(json.dumps({"performed": True, "reproduces": f is not None, "input": f and f["input"], "observed": f and f["observed"],
                          "expected": f and f["expected"], "input_class": f["class"] if f else "expression-text"}))


if __name__ == "__main__":
    main()
