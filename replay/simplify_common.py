"""Shared bounded harness for C14 / C15: generated affine models with a known unique solution, simplified by
the real Model.simplify under option combinations."""
import itertools

import numpy as np

OPTION_KEYS = ["detect_aliases", "eliminate_constant_assignments", "replace_constant_values", "replace_parameter_values",
               "replace_parameter_expressions", "replace_constant_expressions", "factor_and_simplify_equations", "eliminable"]


def gen_model(rng, idx):
    """triangular-affine system in alg vars v0.. plus aliases, constants, one state"""
    n = int(rng.randint(3, 6))
    lines = ["model M%d" % idx, "  parameter Real p = %s;" % rng.choice(["2.0", "3.0", "0.5"]), "  parameter Real q = p + 1;",
             "  constant Real k = %s;" % rng.choice(["4.0", "1.5"]), "  Real s(start = 1.0);"]
    names = []
    eqs = ["  der(s) = -p * s + v0;"]
    for i in range(n):
        nm = ("_t%d" % i) if rng.rand() < 0.3 else "v%d" % i
        names.append(nm)
    # keep the first called v0 for the state equation
    names[0] = "v0"
    for nm in names:
        lines.append("  Real %s;" % nm)
    kinds = []
    for i, nm in enumerate(names):
        k = rng.randint(0, 8) if i > 0 else rng.randint(0, 3)
        if k == 0:
            eqs.append("  %s = %s;" % (nm, rng.choice(["2.5", "k", "p + k"])))
        elif k == 1:
            eqs.append("  %s = %s;" % (rng.choice(["3.0", "1.25"]), nm))          # literal on the left
        elif k == 2:
            eqs.append("  %s = 2 * s + p;" % nm)
        elif k == 3:
            eqs.append("  %s = %s;" % (nm, names[rng.randint(0, i)]))              # positive alias
        elif k == 4:
            eqs.append("  %s = -%s;" % (nm, names[rng.randint(0, i)]))             # negative alias
        elif k == 5:
            eqs.append("  %s + %s = 0;" % (nm, names[rng.randint(0, i)]))          # negative alias, sum form
        elif k == 6:
            eqs.append("  2 * (%s - %s - q) = 0;" % (nm, names[rng.randint(0, i)]))  # constant factor
        else:
            eqs.append("  %s = 0.5 * %s + 3 * %s - k;" % (nm, names[rng.randint(0, i)], names[rng.randint(0, i)]))
        kinds.append(k)
    lines += ["equation"] + eqs + ["end M%d;" % idx]
    return "\n".join(lines), names


def option_sets(tier):
    base = {"expand_mx": True}
    sets = [{}]
    singles = [{"detect_aliases": True}, {"eliminate_constant_assignments": True}, {"eliminate_constant_assignments": True, "replace_constant_values": True},
               {"replace_parameter_expressions": True, "replace_parameter_values": True}, {"factor_and_simplify_equations": True},
               {"eliminable_variable_expression": "_.*"}, {"replace_constant_expressions": True, "replace_constant_values": True}]
    sets += singles
    sets += [dict(a, **b) for a, b in itertools.combinations(singles, 2)][: (6 if tier == "quick" else 21)]
    sets.append({"detect_aliases": True, "eliminate_constant_assignments": True, "replace_constant_values": True, "replace_parameter_expressions": True,
                 "replace_parameter_values": True, "factor_and_simplify_equations": True, "eliminable_variable_expression": "_.*"})
    return [dict(base, **s) for s in sets]


def build(txt, name, opts=None):
    import pymoca.parser
    from pymoca.backends.casadi.generator import generate
    from pymoca.backends.casadi._options import _merge_default_options
    o = _merge_default_options(dict(opts or {}))
    m = generate(pymoca.parser.parse(txt), name, o)
    return m, o


def names_of(lst):
    return [v.symbol.name() for v in lst]


def value_of(v, env):
    import casadi as ca
    val = v.value
    if isinstance(val, ca.MX):
        syms = ca.symvar(val)
        f = ca.Function("v", syms, [val])
        return float(f.call([env[s.name()] for s in syms])[0])
    return float(val)


def residual_at(m, env):
    """env: name -> value for every symbol (time under 'time')"""
    import casadi as ca
    f = m.dae_residual_function
    if f.n_out() == 0:
        return np.zeros(0)
    vec = lambda lst: np.array([env[n] for n in names_of(lst)], dtype=float)
    args = [env["time"], vec(m.states), vec(m.der_states), vec(m.alg_states), vec(m.inputs), vec(m.constants), vec(m.parameters)]
    return np.array(f(*args), dtype=float).reshape(-1)


def solve_original(m, rng):
    """the model is affine in its unknowns (der_states, alg_states): solve exactly"""
    env = {"time": 0.3}
    for v in m.states:
        env[v.symbol.name()] = float(rng.uniform(0.5, 2.0))
    # parameters / constants at their (possibly expression) values, resolved in dependency order
    pending = list(m.parameters) + list(m.constants)
    for _ in range(len(pending) + 2):
        for v in list(pending):
            try:
                env[v.symbol.name()] = value_of(v, env)
                pending.remove(v)
            except KeyError:
                pass
    unk = names_of(m.der_states) + names_of(m.alg_states)
    for u in unk:
        env[u] = 0.0
    b = residual_at(m, env)
    A = np.zeros((len(b), len(unk)))
    for j, u in enumerate(unk):
        env[u] = 1.0
        A[:, j] = residual_at(m, env) - b
        env[u] = 0.0
    if A.shape[0] != A.shape[1] or abs(np.linalg.det(A)) < 1e-9:
        return None
    sol = np.linalg.solve(A, -b)
    for u, val in zip(unk, sol):
        env[u] = float(val)
    return env
