"""C27 replay / bounded stand-in: real package libraries split into files with within clauses, parsed and merged
in every permutation; every model is flattened and compared across orders (and with the CasADi API's directory walk)."""
import itertools
import json
import os
import sys
import tempfile

LIBS = [
    {"pkg.mo": "package P constant Real k = 3; model A Real x; equation x = k; end A; end P;",
     "b.mo": "within P; model B Real y; equation y = 2 * k; end B;",
     "q.mo": "within P; package Q constant Real g = 9; model C Real z; equation z = g + k; end C; end Q;",
     "_models": ["P.A", "P.B", "P.Q.C"]},
    {"pkg.mo": "package L import L.Units.scale; constant Real c0 = 1.5; package Units constant Real scale = 10; end Units; end L;",
     "m1.mo": "within L; model M1 Real a; equation a = c0 * Units.scale; end M1;",
     "sub.mo": "within L.Units; model U Real u; equation u = scale; end U;",
     "m2.mo": "within L; model M2 extends M1; Real b; equation b = a + c0; end M2;",
     "_models": ["L.M1", "L.M2", "L.Units.U"]},
    # a class that declares both an unqualified and a plain qualified import, in its own file; a model of another file uses the latter
    {"consts.mo": "package Phys package Consts constant Real g = 9.81; constant Real rho = 1000; end Consts; package Aux constant Real eps = 0.5; model Valve Real dp; equation dp = 2; end Valve; end Aux; end Phys;",
     "lib.mo": "package Lib constant Real one = 1; end Lib;",
     "models.mo": "within Lib; package Models import Phys.Aux.*; import Phys.Consts; end Models;",
     # (Valve is a class that only the unqualified import of the enclosing package Models makes visible)
     "tank.mo": "within Lib.Models; model Tank Real p; Real q; Valve vl; equation p = Consts.rho * Consts.g; q = eps; end Tank;",
     "pipe.mo": "within Lib.Models; model Pipe Real f; equation f = 2 * Consts.g; end Pipe;",
     "_models": ["Lib.Models.Tank", "Lib.Models.Pipe"]},
    {"top.mo": "class Lib constant Real w = 2; model T Real t; equation t = w; end T; end Lib;",
     "in.mo": "within Lib; model S Real s; equation s = 3 * w; end S;",
     "_models": ["Lib.T", "Lib.S"]},
]


def dump(tree, cls):
    import pymoca.ast as ast
    from pymoca.tree import flatten
    try:
        c = flatten(tree, ast.ComponentRef.from_string(cls)).classes[cls]
    except Exception as e:  # noqa
        return "%s: %s" % (type(e).__name__, str(e)[:60])
    return json.dumps({"symbols": sorted((s.name, str(s.value.value), sorted(s.prefixes)) for s in c.symbols.values()),
                       "equations": sorted(repr(e) for e in c.equations)}, sort_keys=True)


def judge(lib):
    import pymoca.parser
    files = {k: v for k, v in lib.items() if not k.startswith("_")}
    results = {}
    for order in itertools.permutations(sorted(files)):
        per_model = {}
        for m in lib["_models"]:
            t = None
            for n in order:          # a fresh merge per model: flatten may mutate the tree (C05)
                ft = pymoca.parser.parse(files[n])
                if t is None:
                    t = ft
                else:
                    t.extend(ft)
            per_model[m] = dump(t, m)
        results[order] = per_model
    ref_order = next(iter(results))
    for order, pm in results.items():
        for m, d in pm.items():
            if d != results[ref_order][m]:
                return "file order %s: %s flattens to %s, but order %s gives %s" % (list(order), m, d[:160], list(ref_order), results[ref_order][m][:160])
    if any("Error" in d for d in results[ref_order].values()):
        return "order %s: %s" % (list(ref_order), results[ref_order])
    # the directory walk the CasADi API uses (os.walk order), then flatten
    import fnmatch
    with tempfile.TemporaryDirectory() as tmp:
        for n, txt in files.items():
            with open(os.path.join(tmp, n), "w") as f:
                f.write(txt)
        for m in lib["_models"]:
            tree = None
            for root, _dir, fs in os.walk(tmp, followlinks=True):
                for item in fnmatch.filter(fs, "*.mo"):
                    with open(os.path.join(root, item)) as f:
                        ft = pymoca.parser.parse(f.read())
                    if tree is None:
                        tree = ft
                    else:
                        tree.extend(ft)
            d = dump(tree, m)
            if d != results[ref_order][m]:
                return "directory walk: %s flattens to %s, expected %s" % (m, d[:160], results[ref_order][m][:160])
    return None


def main():
    payload = json.load(sys.stdin)
    failures, n = [], 0
    for lib in LIBS:
        n += 1
        try:
            bad = judge(lib)
        except BaseException as e:  # noqa
            bad = "%s: %s" % (type(e).__name__, str(e)[:150])
        if bad:
            failures.append({"class": "file-order", "input": {k: v for k, v in lib.items()}, "observed": bad, "expected": "the same flattened models for every file order"})
    perms = sum(len(list(itertools.permutations([k for k in l if not k.startswith("_")]))) for l in LIBS)
    if payload.get("mode") == "bounded":
        print(json.dumps({"performed": True, "cases": perms, "distinct_nontrivial": perms, "failures": failures,
                          "rule": "four real libraries (package constants, nested packages, qualified and unqualified imports declared together, extends across files, a non-package top class) split into 2-4 files with within clauses: parsed and merged in every permutation, every model flattened and compared with the first order; plus transfer_model over the directory",
                          "bound": "%d permutations over %d libraries" % (perms, len(LIBS))}))
    else:
        f = failures[0] if failures else None
        print(json.dumps({"performed": True, "reproduces": f is not None, "input": f and f["input"], "observed": f and f["observed"],
                          "expected": f and f["expected"], "input_class": "file-order"}))


if __name__ == "__main__":
    main()
