"""C24 replay / bounded stand-in: generated SymPy modules for random nested expressions are executed (with a
stubbed solver base class) and their equations compared numerically with lhs - rhs of the flat model."""
import json
import math
import sys
import types

import numpy as np

VARS = ["a", "b", "c"]


def rand_expr(rng, depth):
    if depth == 0 or rng.rand() < 0.2:
        return str(rng.choice(VARS)) if rng.rand() < 0.7 else str(rng.choice(["2", "3", "0.5"]))
    k = rng.randint(0, 8)
    l, r = rand_expr(rng, depth - 1), rand_expr(rng, depth - 1)
    if k == 0:
        return "%s + %s" % (l, r)
    if k == 1:
        return "%s - (%s)" % (l, r)
    if k == 2:
        return "(%s) * (%s)" % (l, r)
    if k == 3:
        return "(%s) / (%s + 7)" % (l, r)
    if k == 4:
        return "-(%s)" % l
    if k == 5:
        return "(%s)^2" % l
    if k == 6:
        return "sin(%s)" % l
    return "(%s - %s) * %s" % (l, r, rand_expr(rng, depth - 1))


def eval_flat(node, env, ast):
    if isinstance(node, ast.Primary):
        return float(node.value)
    if isinstance(node, ast.ComponentRef):
        return env[node.name]
    op = node.operator.name if isinstance(node.operator, ast.ComponentRef) else node.operator
    xs = [eval_flat(o, env, ast) for o in node.operands]
    if op == "der":
        return env["der(%s)" % node.operands[0].name]
    if len(xs) == 1 and op in ("+", "-"):
        return xs[0] if op == "+" else -xs[0]
    if op == "+":
        return xs[0] + xs[1]
    if op == "-":
        return xs[0] - xs[1]
    if op == "*":
        return xs[0] * xs[1]
    if op == "/":
        return xs[0] / xs[1]
    if op == "^":
        return xs[0] ** xs[1]
    return getattr(math, op)(*xs)


def run_module(src):
    import sympy
    import sympy.physics.mechanics as mech

    class OdeModel:
        def __init__(self):
            self.t = sympy.symbols("t")

        def compute_fg(self):
            pass
    fake = types.ModuleType("pymoca.backends.sympy.runtime")
    fake.OdeModel = OdeModel
    saved = sys.modules.get("pymoca.backends.sympy.runtime")
    sys.modules["pymoca.backends.sympy.runtime"] = fake
    try:
        ns = {}
        exec(compile(src, "<generated>", "exec"), ns)
    finally:
        if saved is not None:
            sys.modules["pymoca.backends.sympy.runtime"] = saved
        else:
            del sys.modules["pymoca.backends.sympy.runtime"]
    return ns


def judge(txt, name, rng):
    import copy
    import sympy
    import pymoca.parser
    from pymoca import ast
    from pymoca.tree import flatten
    from pymoca.backends.sympy import generator
    tree = pymoca.parser.parse(txt)
    src = generator.generate(tree, name)
    try:
        ns = run_module(src)
        m = ns[name]()
    except BaseException as e:  # noqa
        return "generated module is not valid / does not run: %s: %s" % (type(e).__name__, str(e)[:100])
    flat = flatten(copy.deepcopy(tree), ast.ComponentRef(name=name)).classes[name]
    if len(m.eqs) != len(flat.equations):
        return "%d generated equations for %d flat equations" % (len(m.eqs), len(flat.equations))
    names = [s.name for s in flat.symbols.values()]
    env = {n: float(rng.uniform(0.5, 2.0)) for n in names}
    env.update({"der(%s)" % n: float(rng.uniform(0.5, 2.0)) for n in names})
    import sympy.physics.mechanics as mech
    t = m.t
    subs = {}
    for n in names:
        f = sympy.Function(n.replace("__", "."))(t) if False else None
    for i, (ge, fe) in enumerate(zip(m.eqs, flat.equations)):
        want = eval_flat(fe.left, env, ast) - eval_flat(fe.right, env, ast)
        expr = sympy.sympify(ge)
        rep = {}
        for d in expr.atoms(sympy.Derivative):
            rep[d] = env["der(%s)" % str(d.expr.func)]
        expr = expr.subs(rep)
        rep2 = {}
        for fa in expr.atoms(sympy.Function):
            if str(fa.func) in env:
                rep2[fa] = env[str(fa.func)]
        for sy in expr.atoms(sympy.Symbol):
            if str(sy) in env:
                rep2[sy] = env[str(sy)]
        got = float(expr.subs(rep2))
        if abs(got - want) > 1e-7 * max(1.0, abs(want)):
            return "equation %d: generated %s evaluates to %r, flat lhs - rhs is %r" % (i, ge, got, want)
    lists = {"x": "state", "p": "parameter", "c": "constant", "u": "input", "y": "output"}
    for attr, pre in lists.items():
        got = [str(s).replace("(t)", "") for s in getattr(m, attr)]
        want = [s.name for s in sorted(flat.symbols.values(), key=lambda s: s.order) if pre in s.prefixes]
        if got != want:
            return "list %s = %s, flat model has %s %s" % (attr, got, pre, want)
    return None


def model(rng, i):
    eqs = ["  der(x) = %s;" % rand_expr(rng, 3), "  a = %s;" % rand_expr(rng, 2).replace("a", "x"), "  b = %s;" % rand_expr(rng, 2).replace("b", "c"),
           "  c = (k + u) * q - (x - k);", "  yo = %s;" % rand_expr(rng, 3)]
    return ("model M%d\n  parameter Real k = 2;\n  constant Real q = 3;\n  input Real u;\n  output Real yo;\n  Real x; Real a; Real b; Real c;\n"
            "equation\n%s\nend M%d;\n" % (i, "\n".join(eqs), i))


FIXED = [
    "model F0 Real x; Real a; Real b; Real c; equation der(x) = (a + b) * c; a = 1; b = a - (c - 2); c = -(a - b) * 2; end F0;",
    "model F1 Real x; Real a; Real b; equation der(x) = a / (b + 1) / 2; a = 2 ^ 3 ^ 1 - 1; b = -a ^ 2; end F1;".replace("2 ^ 3 ^ 1", "(2 ^ 3)"),
    "model F2 Real x; Real a; Real b; equation der(x) = a - (b - (a - b)); a = 3 * (b + 1) * (b - 1); b = 1 - 2 - 3; end F2;",
    # symbols with two classification prefixes: a differentiated input, an output that is a state, a differentiated parameter
    "model F3 input Real u; output Real yo; parameter Real k = 2; Real x; equation der(x) = u - x; der(u) = k; der(yo) = x; end F3;",
    # variables whose names look like names a printer might invent for derivatives: a state x beside x_dot / xdot / der_x / dx
    "model F4 Real x; Real x_dot; Real xdot; equation der(x) = x_dot + 2 * xdot; x_dot = 3; xdot = 5; end F4;",
    "model F5 Real x; Real x_dot; Real der_x; Real dx; equation der(x) = -x; der(x_dot) = x + der_x; der_x = 2; dx = der(x) + 1; end F5;",
    # a variable several component levels deep with descriptive instance names: one blank-free token of more than 80 characters
    "model Th Real temperatureState; Real heatFlowIntoTheSegment; equation der(temperatureState) = -0.5 * temperatureState + heatFlowIntoTheSegment; "
    "heatFlowIntoTheSegment = 2; end Th; model L1 Th heatExchangerSegmentNumberOne; end L1; model L2 L1 heatExchangerSegmentNumberTwo; end L2; "
    "model F6 L2 heatExchangerSegmentNumberThree; end F6;",
]


def main():
    payload = json.load(sys.stdin)
    tier, seed = payload.get("tier", "quick"), int(payload.get("seed", 0) or 0)
    rng = np.random.RandomState(seed + 24)
    if payload.get("mode") == "replay" and str(payload.get("obligation", "")).startswith("mangle."):
        pairs = {"mangle.dotted_vs_double_underscore_distinct": ("a.b", "a__b"), "mangle.distinct_names_distinct_symbols": ("keys", "keys_")}
        n1, n2 = pairs.get(payload["obligation"], ("a.b", "a__b"))
        if "." in n1:
            txt = "model C Real b; end C; model M C a; Real %s; Real x; equation a.b = 1; %s = 2; der(x) = a.b + %s; end M;" % (n2, n2, n2)
        else:
            txt = "model M Real %s; Real %s; Real x; equation %s = 1; %s = 2; der(x) = %s - %s; end M;" % (n1, n2, n1, n2, n1, n2)
        import pymoca.parser
        from pymoca.backends.sympy import generator
        src = generator.generate(pymoca.parser.parse(txt), "M")
        ns = run_module(src)
        m = ns["M"]()
        syms = [str(s) for s in list(m.x) + list(m.v)]
        dup = len(set(syms)) != len(syms)
        print(json.dumps({"performed": True, "reproduces": dup, "input": txt, "observed": "python symbols %s" % syms,
                          "expected": "distinct symbols for distinct variables",
                          "input_class": "dotted-vs-double-underscore" if "." in n1 else "builtin-escape-collision"}))
        return
    failures, n = [], 0
    cases = [(t, "F%d" % i) for i, t in enumerate(FIXED)] + [(model(rng, i), "M%d" % i) for i in range(25 if tier == "quick" else 250)]
    for txt, name in cases:
        n += 1
        try:
            bad = judge(txt, name, rng)
        except BaseException as e:  # noqa
            bad = "%s: %s" % (type(e).__name__, str(e)[:120])
        if bad:
            failures.append({"class": "sympy", "input": txt, "observed": bad, "expected": "equations equal to lhs - rhs of the flat model; lists by prefix"})
            if len(failures) >= 3:
                break
    if payload.get("mode") == "bounded":
        print(json.dumps({"performed": True, "cases": n, "distinct_nontrivial": n, "failures": failures,
                          "rule": "fixed precedence-critical models, models whose variables are named like derivatives (x_dot, xdot, der_x, dx), a variable three component levels deep with long instance names, plus random nested expressions (seed %d, depth 3; + - * / ^ unary minus sin der): the generated module is executed with a stubbed OdeModel and every equation is compared numerically with lhs - rhs of an independent flatten(); state/parameter/constant/input/output lists compared with the prefixes" % seed,
                          "bound": "%d models" % n}))
    else:
        f = failures[0] if failures else None
        print(json.dumps({"performed": True, "reproduces": f is not None, "input": f and f["input"], "observed": f and f["observed"],
                          "expected": f and f["expected"], "input_class": "sympy"}))


if __name__ == "__main__":
    main()
