"""Semantics of operators, built-in functions and built-in methods over pyvc values."""
import operator

import z3

from .values import (Ext, PyRaise, Unsupported, VBound, VClass, VDict, VFunc, VList, VModule, VObj,
                     VSet, VSlice, is_sym, stub)

MISSING = object()


def _exc(eng, name, *a):
    return PyRaise(eng.make_exc(name, *a))


# ------------------------------------------------------------------ coercions
def is_int_sort(v):
    return is_sym(v) and v.sort() == z3.IntSort()


def is_real_sort(v):
    return is_sym(v) and v.sort() == z3.RealSort()


def is_bool_sort(v):
    return is_sym(v) and v.sort() == z3.BoolSort()


def is_str_sort(v):
    return is_sym(v) and v.sort() == z3.StringSort()


def is_num(v):
    return (isinstance(v, (int, float)) and not isinstance(v, bool)) or isinstance(v, bool) or \
        is_int_sort(v) or is_real_sort(v) or is_bool_sort(v)


def to_arith(v):
    """z3 arithmetic term for a numeric value."""
    if isinstance(v, bool):
        return z3.IntVal(1 if v else 0)
    if isinstance(v, int):
        return z3.IntVal(v)
    if isinstance(v, float):
        if v != v or v in (float("inf"), float("-inf")):
            raise Unsupported("non-finite float in arithmetic")
        return z3.RealVal(repr(v))
    if is_bool_sort(v):
        return z3.If(v, z3.IntVal(1), z3.IntVal(0))
    if is_int_sort(v) or is_real_sort(v):
        return v
    raise Unsupported("not numeric: %r" % (v,))


def to_z3(v):
    if is_sym(v):
        return v
    if isinstance(v, bool):
        return z3.BoolVal(v)
    if isinstance(v, int):
        return z3.IntVal(v)
    if isinstance(v, float):
        return to_arith(v)
    if isinstance(v, str):
        return z3.StringVal(v)
    raise Unsupported("no z3 term for %r" % (v,))


def kind(v):
    """coarse dynamic type tag"""
    if v is None:
        return "NoneType"
    if isinstance(v, bool) or is_bool_sort(v):
        return "bool"
    if isinstance(v, int) or is_int_sort(v):
        return "int"
    if isinstance(v, float) or is_real_sort(v):
        return "float"
    if isinstance(v, str) or is_str_sort(v):
        return "str"
    if isinstance(v, tuple):
        return "tuple"
    if isinstance(v, VList):
        return "list"
    if isinstance(v, VDict):
        return "dict"
    if isinstance(v, VSet):
        return "set"
    if isinstance(v, VSlice):
        return "slice"
    if isinstance(v, VObj):
        return "obj"
    if isinstance(v, (VFunc, VBound)):
        return "function"
    if isinstance(v, VClass):
        return "type"
    if isinstance(v, Ext):
        return "ext"
    if is_sym(v):
        return "z3:" + str(v.sort())
    return type(v).__name__


# ------------------------------------------------------------------ truth / equality
def truth_expr(eng, v):
    if v is None:
        return False
    if isinstance(v, (bool, int, float, str, tuple)):
        return bool(v)
    if is_bool_sort(v):
        return v
    if is_int_sort(v) or is_real_sort(v):
        return v != 0
    if is_str_sort(v):
        return z3.Length(v) > 0
    if isinstance(v, (VList, VSet)):
        return len(v.items) > 0
    if isinstance(v, VDict):
        return len(v.keys) > 0
    if isinstance(v, Ext):
        return v.sym_truth(eng)
    if isinstance(v, VObj):
        ln, _ = v.cls.lookup("__len__")
        if ln is not None:
            return truth_expr(eng, eng.call(VBound(ln, v), [], {}))
        bl, _ = v.cls.lookup("__bool__")
        if bl is not None:
            return truth_expr(eng, eng.call(VBound(bl, v), [], {}))
        return True
    if isinstance(v, (VFunc, VBound, VClass, VModule, VSlice)):
        return True
    if is_sym(v):
        raise Unsupported("truth of sort %s" % v.sort())
    return bool(v)


def eq_expr(eng, a, b):
    """Python == as bool or z3 Bool (no forking)."""
    if a is b and not is_sym(a):
        if isinstance(a, float) and a != a:
            return False
        return True
    if isinstance(a, Ext):
        return a.sym_eq(eng, b)
    if isinstance(b, Ext):
        return b.sym_eq(eng, a)
    ka, kb = kind(a), kind(b)
    num = ("bool", "int", "float")
    if ka in num and kb in num:
        if not is_sym(a) and not is_sym(b):
            return a == b
        return to_arith(a) == to_arith(b)
    if ka == "str" and kb == "str":
        if not is_sym(a) and not is_sym(b):
            return a == b
        return to_z3(a) == to_z3(b)
    if ka != kb:
        if ka.startswith("z3:") or kb.startswith("z3:"):
            if is_sym(a) and is_sym(b) and a.sort() == b.sort():
                return a == b
            return False
        return False
    if ka == "NoneType":
        return True
    if ka in ("tuple", "list"):
        xa = list(a) if ka == "tuple" else a.items
        xb = list(b) if ka == "tuple" else b.items
        if len(xa) != len(xb):
            return False
        return and_([eq_expr(eng, x, y) for x, y in zip(xa, xb)])
    if ka == "obj":
        eqf, _ = a.cls.lookup("__eq__")
        if eqf is not None and isinstance(eqf, VFunc):
            return truth_expr(eng, eng.call(VBound(eqf, a), [b], {}))
        return a is b
    if ka == "set":
        if len(a.items) != len(b.items):
            # symbolic duplicates are excluded on insertion, so sizes are exact
            return False
        return and_([or_([eq_expr(eng, x, y) for y in b.items]) for x in a.items])
    if ka == "dict":
        if len(a.keys) != len(b.keys):
            return False
        cs = []
        for k, v in zip(a.keys, a.vals):
            cs.append(or_([and_([eq_expr(eng, k, k2), eq_expr(eng, v, v2)]) for k2, v2 in zip(b.keys, b.vals)]))
        return and_(cs)
    if ka == "slice":
        return and_([eq_expr(eng, a.start, b.start), eq_expr(eng, a.stop, b.stop), eq_expr(eng, a.step, b.step)])
    if ka.startswith("z3:"):
        return a == b
    return a is b


def and_(cs):
    out = []
    for c in cs:
        if c is False:
            return False
        if c is True:
            continue
        out.append(c)
    if not out:
        return True
    return z3.And(*out) if len(out) > 1 else out[0]


def or_(cs):
    out = []
    for c in cs:
        if c is True:
            return True
        if c is False:
            continue
        out.append(c)
    if not out:
        return False
    return z3.Or(*out) if len(out) > 1 else out[0]


def not_(c):
    if isinstance(c, bool):
        return not c
    return z3.Not(c)


# ------------------------------------------------------------------ operators
_PYOP = {"Add": operator.add, "Sub": operator.sub, "Mult": operator.mul, "Div": operator.truediv,
         "FloorDiv": operator.floordiv, "Mod": operator.mod, "Pow": operator.pow,
         "BitOr": operator.or_, "BitAnd": operator.and_, "BitXor": operator.xor,
         "LShift": operator.lshift, "RShift": operator.rshift}


def binop(eng, op, l, r):
    if not isinstance(l, Ext):
        l = _plain_number(l)
    if not isinstance(r, Ext):
        r = _plain_number(r)
    if isinstance(l, Ext):
        return l.sym_binop(eng, op, r, False)
    if isinstance(r, Ext):
        return r.sym_binop(eng, op, l, True)
    # dict.keys() / dict.items() are set-like: d.keys() - {...}, d.keys() & other.keys(), ... give a set
    if op in ("BitOr", "BitAnd", "Sub", "BitXor"):
        if isinstance(l, DictView) and l.what in ("keys", "items") and (isinstance(r, (VSet, DictView))):
            l = VSet(l.materialize())
        if isinstance(r, DictView) and r.what in ("keys", "items") and isinstance(l, VSet):
            r = VSet(r.materialize())
    kl, kr = kind(l), kind(r)
    num = ("bool", "int", "float")
    if kl in num and kr in num:
        if not is_sym(l) and not is_sym(r):
            try:
                return _PYOP[op](l, r)
            except ZeroDivisionError:
                raise _exc(eng, "ZeroDivisionError")
            except OverflowError:
                raise Unsupported("float overflow")
        a, b = to_arith(l), to_arith(r)
        if op == "Add":
            return a + b
        if op == "Sub":
            return a - b
        if op == "Mult":
            return a * b
        if op == "Div":
            if eng.branch(b == 0):
                raise _exc(eng, "ZeroDivisionError")
            return z3.ToReal(a) / z3.ToReal(b) if a.sort() == z3.IntSort() or b.sort() == z3.IntSort() else a / b
        if op in ("FloorDiv", "Mod") and a.sort() == z3.IntSort() and b.sort() == z3.IntSort():
            if eng.branch(b == 0):
                raise _exc(eng, "ZeroDivisionError")
            # Python floors; z3 div/mod are Euclidean: equal for b > 0
            if eng.branch(b > 0):
                return a / b if op == "FloorDiv" else a % b
            q = -((-a) / b) if False else None
            raise Unsupported("floor division by a possibly negative symbolic divisor")
        raise Unsupported("symbolic numeric op %s" % op)
    if kl == "str" and kr == "str" and op == "Add":
        if not is_sym(l) and not is_sym(r):
            return l + r
        return z3.Concat(to_z3(l), to_z3(r))
    if kl == "str" and op == "Mod":
        return str_format_percent(eng, l, r)
    if kl == "str" and kr in ("int", "bool") and op == "Mult" and not is_sym(l) and not is_sym(r):
        return l * r
    if kl == "list" and kr == "list" and op == "Add":
        return VList(l.items + r.items)
    if kl == "tuple" and kr == "tuple" and op == "Add":
        return l + r
    if kl == "list" and kr == "int" and op == "Mult" and not is_sym(r):
        return VList(l.items * r)
    if kl == "int" and kr == "list" and op == "Mult" and not is_sym(l):
        return VList(r.items * l)
    if kl == "tuple" and kr == "int" and op == "Mult" and not is_sym(r):
        return l * r
    if kl == "set" and kr == "set":
        if op == "BitOr":
            s = VSet(l.items)
            for x in r.items:
                set_add(eng, s, x)
            return s
        if op == "BitAnd":
            s = VSet()
            for x in l.items:
                if eng.branch(contains_expr(eng, r, x)):
                    s.items.append(x)
            return s
        if op == "Sub":
            s = VSet()
            for x in l.items:
                if not eng.branch(contains_expr(eng, r, x)):
                    s.items.append(x)
            return s
        if op == "BitXor":
            s = VSet()
            for x in l.items:
                if not eng.branch(contains_expr(eng, r, x)):
                    s.items.append(x)
            for x in r.items:
                if not eng.branch(contains_expr(eng, l, x)):
                    s.items.append(x)
            return s
    if kl == "obj":
        m = {"Add": "__add__", "Sub": "__sub__", "Mult": "__mul__", "BitOr": "__or__"}.get(op)
        f, _ = l.cls.lookup(m) if m else (None, None)
        if f is not None:
            return eng.call(VBound(f, l), [r], {})
    raise Unsupported("binop %s on %s, %s" % (op, kl, kr))


def inplace(eng, op, cur, rhs):
    """x op= y : mutate in place for mutable containers (every alias observes it)."""
    if isinstance(cur, Ext):
        r = cur.sym_inplace(eng, op, rhs)
        if r is not NotImplemented:
            return r
        return cur.sym_binop(eng, op, rhs, False)
    if isinstance(cur, VList) and op == "Add":
        cur.items.extend(iterate(eng, rhs))
        return cur
    if isinstance(cur, VSet) and op == "BitOr":
        for x in iterate(eng, rhs):
            set_add(eng, cur, x)
        return cur
    if isinstance(cur, VSet) and op == "Sub":
        keep = [x for x in cur.items if not eng.branch(contains_expr(eng, rhs, x))]
        cur.items[:] = keep
        return cur
    return binop(eng, op, cur, rhs)


def _plain_number(v):
    """an instance of a repository class that derives from int / float (class _DefaultValue(int): pass): in arithmetic it
    behaves as its numeric payload and the RESULT is a plain number (Python: int-subclass operators return int unless the
    class overrides them, which is outside the subset)"""
    from .values import VObj
    if isinstance(v, VObj) and any(c.name in ("int", "float") for c in v.cls.mro()[1:]):
        for c in v.cls.mro():
            if c.node is not None and any(k.startswith("__") and k[2:-2] in ("neg", "pos", "add", "radd", "sub", "rsub", "mul", "rmul", "truediv", "rtruediv", "abs") for k in c.attrs):
                raise Unsupported("numeric subclass %s overrides an operator" % c.name)
        return v.fields.get("value", 0)
    return v


def unop(eng, op, v):
    if isinstance(v, Ext):
        return v.sym_unop(eng, op)
    v = _plain_number(v)
    if op == "USub":
        if is_sym(v):
            return -to_arith(v)
        return -v
    if op == "UAdd":
        return v
    if op == "Invert" and not is_sym(v):
        return ~v
    raise Unsupported("unary %s" % op)


_CMP = {"Lt": operator.lt, "LtE": operator.le, "Gt": operator.gt, "GtE": operator.ge}


def compare(eng, op, l, r):
    if op == "Eq":
        return eq_expr(eng, l, r)
    if op == "NotEq":
        return not_(eq_expr(eng, l, r))
    if op == "Is":
        return is_expr(eng, l, r)
    if op == "IsNot":
        return not_(is_expr(eng, l, r))
    if op == "In":
        return contains_expr(eng, r, l)
    if op == "NotIn":
        return not_(contains_expr(eng, r, l))
    if isinstance(l, Ext):
        return l.sym_binop(eng, op, r, False)
    if isinstance(r, Ext):
        return r.sym_binop(eng, op, l, True)
    if is_num(l) and is_num(r):
        if not is_sym(l) and not is_sym(r):
            return _CMP[op](l, r)
        return _CMP[op](to_arith(l), to_arith(r))
    if isinstance(l, str) and isinstance(r, str):
        return _CMP[op](l, r)
    if isinstance(l, tuple) and isinstance(r, tuple) and all(not is_sym(x) for x in l + r):
        return _CMP[op](l, r)
    if kind(l) == "str" and kind(r) == "str":
        raise Unsupported("symbolic string ordering")
    if l is None or r is None:
        raise _exc(eng, "TypeError", "ordering with None")
    raise Unsupported("compare %s on %s,%s" % (op, kind(l), kind(r)))


def is_expr(eng, a, b):
    if a is None or b is None:
        return a is None and b is None
    if isinstance(a, bool) and isinstance(b, bool):
        return a is b
    if is_sym(a) or is_sym(b):
        if is_bool_sort(a) or is_bool_sort(b):
            if kind(a) == "bool" and kind(b) == "bool":
                return eq_expr(eng, a, b)
            return False
        # identity of symbolic ints/strings is not defined by the language; treat as unsupported
        raise Unsupported("`is` on symbolic scalars")
    if isinstance(a, (int, str)) and isinstance(b, (int, str)):
        return a == b and type(a) is type(b)
    return a is b


def contains_expr(eng, c, x):
    if isinstance(c, Ext):
        return c.sym_contains(eng, x)
    if isinstance(c, (VList, VSet)):
        return or_([eq_expr(eng, x, y) for y in c.items])
    if isinstance(c, tuple):
        return or_([eq_expr(eng, x, y) for y in c])
    if isinstance(c, VDict):
        return or_([eq_expr(eng, x, y) for y in c.keys])
    if isinstance(c, DictView):
        return contains_expr(eng, VList(c.materialize()), x)
    if isinstance(c, ObjDictView):
        return x in c.obj.fields if isinstance(x, str) else False
    if kind(c) == "str":
        if kind(x) != "str":
            raise _exc(eng, "TypeError", "in <string> requires string")
        if not is_sym(c) and not is_sym(x):
            return x in c
        return z3.Contains(to_z3(c), to_z3(x))
    if isinstance(c, VObj):
        f, _ = c.cls.lookup("__contains__")
        if f is not None:
            return truth_expr(eng, eng.call(VBound(f, c), [x], {}))
    raise Unsupported("`in` on %s" % kind(c))


# ------------------------------------------------------------------ containers
def set_add(eng, s, x):
    c = contains_expr(eng, s, x)
    if c is True:
        return
    if c is False or not eng.branch(c):
        s.items.append(x)


def dict_find(eng, d, key):
    """index of key in d or -1; forks on symbolic equality."""
    for i, k in enumerate(d.keys):
        e = eq_expr(eng, k, key)
        if e is True:
            return i
        if e is False:
            continue
        if eng.branch(e):
            return i
    return -1


def norm_index(eng, i, n, exc="IndexError"):
    """Python index normalisation on a sequence of concrete length n; i may be symbolic."""
    if is_sym(i):
        i = to_arith(i)
        if eng.branch(z3.Or(i >= n, i < -n)):
            raise _exc(eng, exc, "index out of range")
        # enumerate (concrete length) -- forks
        for k in range(-n, n):
            if eng.branch(i == k):
                return k % n if n else 0
        raise Unsupported("index enumeration")
    if isinstance(i, bool):
        i = int(i)
    if not isinstance(i, int):
        raise _exc(eng, "TypeError", "indices must be integers")
    if i >= n or i < -n:
        raise _exc(eng, exc, "index out of range")
    return i % n if n else 0


def concrete_slice(eng, sl, n):
    parts = []
    for p in (sl.start, sl.stop, sl.step):
        if is_sym(p):
            raise Unsupported("symbolic slice bound on concrete sequence")
        parts.append(p)
    return slice(*parts)


def getitem(eng, o, key):
    if isinstance(o, Ext):
        return o.sym_getitem(eng, key)
    if isinstance(o, VList):
        if isinstance(key, VSlice):
            return VList(o.items[concrete_slice(eng, key, len(o.items))])
        return o.items[norm_index(eng, key, len(o.items))]
    if isinstance(o, tuple):
        if isinstance(key, VSlice):
            return o[concrete_slice(eng, key, len(o))]
        return o[norm_index(eng, key, len(o))]
    if isinstance(o, VDict):
        i = dict_find(eng, o, key)
        if i < 0:
            raise _exc(eng, "KeyError", key)
        return o.vals[i]
    if kind(o) == "str":
        return str_getitem(eng, o, key)
    if isinstance(o, VObj):
        f, _ = o.cls.lookup("__getitem__")
        if f is not None:
            return eng.call(VBound(f, o), [key], {})
    if isinstance(o, ObjDictView):
        if key in o.obj.fields:
            return o.obj.fields[key]
        raise _exc(eng, "KeyError", key)
    raise Unsupported("getitem on %s" % kind(o))


def setitem(eng, o, key, value):
    if isinstance(o, Ext):
        return o.sym_setitem(eng, key, value)
    if isinstance(o, VList):
        if isinstance(key, VSlice):
            o.items[concrete_slice(eng, key, len(o.items))] = iterate(eng, value)
            return
        o.items[norm_index(eng, key, len(o.items), "IndexError")] = value
        return
    if isinstance(o, VDict):
        i = dict_find(eng, o, key)
        if i < 0:
            o.keys.append(key)
            o.vals.append(value)
        else:
            o.vals[i] = value
        return
    if isinstance(o, VObj):
        f, _ = o.cls.lookup("__setitem__")
        if f is not None:
            return eng.call(VBound(f, o), [key, value], {})
    if isinstance(o, ObjDictView):
        o.obj.fields[key] = value
        return
    raise Unsupported("setitem on %s" % kind(o))


def delitem(eng, o, key):
    if isinstance(o, Ext):
        return o.sym_delitem(eng, key)
    if isinstance(o, VDict):
        i = dict_find(eng, o, key)
        if i < 0:
            raise _exc(eng, "KeyError", key)
        del o.keys[i]
        del o.vals[i]
        return
    if isinstance(o, VList):
        if isinstance(key, VSlice):
            del o.items[concrete_slice(eng, key, len(o.items))]
            return
        del o.items[norm_index(eng, key, len(o.items))]
        return
    raise Unsupported("delitem on %s" % kind(o))


class DictView:
    def __init__(self, d, what):
        self.d, self.what = d, what

    def materialize(self):
        if self.what == "keys":
            return list(self.d.keys)
        if self.what == "values":
            return list(self.d.vals)
        return [(k, v) for k, v in zip(self.d.keys, self.d.vals)]


class ObjDictView:
    def __init__(self, obj):
        self.obj = obj


class SuperProxy(Ext):
    def __init__(self, obj, cls):
        self.obj, self.cls = obj, cls

    def sym_getattr(self, eng, name):
        mro = self.obj.cls.mro() if isinstance(self.obj, VObj) else []
        seen = False
        for c in mro:
            if seen and name in c.attrs:
                v = c.attrs[name]
                return VBound(v, self.obj) if isinstance(v, VFunc) or callable(v) else v
            if c is self.cls:
                seen = True
        if name == "__init__":
            return stub(lambda eng, *a, **k: None)
        raise Unsupported("super().%s into external base" % name)


def iterate(eng, v):
    if isinstance(v, VList):
        return list(v.items)
    if isinstance(v, tuple):
        return list(v)
    if isinstance(v, VSet):
        return list(v.items)
    if isinstance(v, VDict):
        return list(v.keys)
    if isinstance(v, DictView):
        return v.materialize()
    if isinstance(v, range):
        return list(v)
    if isinstance(v, str):
        return list(v)
    if isinstance(v, Ext):
        return v.sym_iter(eng)
    if isinstance(v, VObj):
        f, _ = v.cls.lookup("__iter__")
        if f is not None:
            return iterate(eng, eng.call(VBound(f, v), [], {}))
    if isinstance(v, ObjDictView):
        return list(v.obj.fields.keys())
    raise Unsupported("iteration over %s" % kind(v))


def length(eng, v):
    if isinstance(v, (VList, VSet)):
        return len(v.items)
    if isinstance(v, VDict):
        return len(v.keys)
    if isinstance(v, (tuple, str, range)):
        return len(v)
    if isinstance(v, DictView):
        return len(v.d.keys)
    if is_str_sort(v):
        return z3.Length(v)
    if isinstance(v, Ext):
        return v.sym_len(eng)
    if isinstance(v, VObj):
        f, _ = v.cls.lookup("__len__")
        if f is not None:
            return eng.call(VBound(f, v), [], {})
    raise _exc(eng, "TypeError", "object of type %s has no len()" % kind(v))


# ------------------------------------------------------------------ strings
def str_getitem(eng, s, key):
    if not is_sym(s) and not isinstance(key, VSlice) and not is_sym(key):
        try:
            return s[key]
        except IndexError:
            raise _exc(eng, "IndexError", "string index out of range")
    if not is_sym(s) and isinstance(key, VSlice) and not any(is_sym(p) for p in (key.start, key.stop, key.step)):
        return s[slice(key.start, key.stop, key.step)]
    zs = to_z3(s)
    n = z3.Length(zs)
    if isinstance(key, VSlice):
        if key.step not in (None, 1):
            raise Unsupported("string slice step")
        def norm(p, default):
            if p is None:
                return default
            p = to_arith(p)
            return z3.If(p < 0, z3.If(p + n < 0, z3.IntVal(0), p + n), z3.If(p > n, n, p))
        a = norm(key.start, z3.IntVal(0))
        b = norm(key.stop, n)
        return z3.SubString(zs, a, z3.If(b > a, b - a, z3.IntVal(0)))
    i = to_arith(key)
    if eng.branch(z3.Or(i >= n, i < -n)):
        raise _exc(eng, "IndexError", "string index out of range")
    return z3.SubString(zs, z3.If(i < 0, i + n, i), z3.IntVal(1))


def to_str(eng, v, spec=None, conv=-1):
    if isinstance(v, str) and spec is None:
        return v
    if is_str_sort(v) and spec is None:
        return v
    if not is_sym(v) and isinstance(v, (int, float, bool, type(None))) and spec is None and conv == -1:
        return str(v)
    if is_int_sort(v) and spec is None:
        return z3.If(v >= 0, z3.IntToStr(v), z3.Concat(z3.StringVal("-"), z3.IntToStr(-v)))
    eng.abstraction("str()/format of a non-scalar or formatted value is an uninterpreted string")
    return eng.fresh_str("fmt")


def str_concat(eng, parts):
    if all(isinstance(p, str) for p in parts):
        return "".join(parts)
    zs = [to_z3(p) for p in parts if not (isinstance(p, str) and p == "")]
    if not zs:
        return ""
    return z3.Concat(*zs) if len(zs) > 1 else zs[0]


def str_format(eng, fmt, args, kwargs):
    if not is_sym(fmt):
        r = _format_fields(eng, fmt, args, kwargs)
        if r is not None:
            return r
    if not is_sym(fmt) and all(_plain(a) for a in args) and all(_plain(a) for a in kwargs.values()):
        try:
            return fmt.format(*args, **kwargs)
        except (IndexError, KeyError) as e:
            raise _exc(eng, type(e).__name__)
    if not is_sym(fmt):
        # simple "{}"-only formats with string/int arguments stay precise
        import re
        pieces = re.split(r"(\{\})", fmt)
        if "{" not in fmt.replace("{}", "") and pieces.count("{}") == len(args) and not kwargs and \
                all(kind(a) in ("str", "int") for a in args):
            out, it = [], iter(args)
            for p in pieces:
                out.append(to_str(eng, next(it)) if p == "{}" else p)
            return str_concat(eng, out)
    eng.abstraction("str.format with non-scalar or symbolic arguments is an uninterpreted string")
    return eng.fresh_str("fmt")


def _format_fields(eng, fmt, args, kwargs):
    """str.format on a concrete format string whose fields are plain `{}` / `{name}` /
    `{0.attr}` / `{name.attr[0]}` with spec '' or 's' and string-valued results: exact"""
    import string
    import re
    out, auto = [], 0
    try:
        parsed = list(string.Formatter().parse(fmt))
    except ValueError:
        return None
    for lit, field, spec, conv in parsed:
        if lit:
            out.append(lit)
        if field is None:
            continue
        if conv is not None or spec not in ("", "s"):
            return None
        m = re.match(r"^([A-Za-z_0-9]*)(.*)$", field)
        head, rest = m.group(1), m.group(2)
        if head == "":
            if auto >= len(args):
                raise _exc(eng, "IndexError", "format index")
            v = args[auto]
            auto += 1
        elif head.isdigit():
            if int(head) >= len(args):
                raise _exc(eng, "IndexError", "format index")
            v = args[int(head)]
        else:
            if head not in kwargs:
                raise _exc(eng, "KeyError", head)
            v = kwargs[head]
        for acc in re.findall(r"\.[A-Za-z_][A-Za-z_0-9]*|\[[^\]]+\]", rest):
            if acc.startswith("."):
                v = eng.getattr(v, acc[1:])
            else:
                k = acc[1:-1]
                v = getitem(eng, v, int(k) if k.lstrip("-").isdigit() else k)
        if kind(v) == "str":
            out.append(v)
        elif spec == "" and kind(v) in ("int",):
            out.append(to_str(eng, v))
        elif spec == "" and not is_sym(v) and isinstance(v, (float, bool, type(None))):
            out.append(str(v))
        else:
            return None
    return str_concat(eng, out)


def str_format_percent(eng, fmt, arg):
    if not is_sym(fmt) and _plain(arg) and (not isinstance(arg, tuple) or all(_plain(a) for a in arg)):
        try:
            return fmt % arg
        except TypeError:
            raise _exc(eng, "TypeError")
    eng.abstraction("%-formatting with symbolic arguments is an uninterpreted string")
    return eng.fresh_str("fmt")


def _plain(a):
    return a is None or (isinstance(a, (int, float, str, bool)) and not is_sym(a)) or \
        (isinstance(a, tuple) and all(_plain(x) for x in a))


# ------------------------------------------------------------------ isinstance
def isinstance_(eng, v, cls):
    if isinstance(cls, tuple):
        return or_([isinstance_(eng, v, c) for c in cls])
    if not isinstance(cls, VClass):
        raise Unsupported("isinstance with %r" % (cls,))
    if isinstance(v, Ext):
        return v.sym_isinstance(eng, cls)
    if isinstance(v, VObj):
        return v.cls.is_subclass_of(cls)
    k = kind(v)
    if cls.name == "object":
        return True
    if k == "bool":
        return cls.name in ("bool", "int")
    if k in ("int", "float", "str", "tuple", "list", "dict", "set", "slice", "NoneType"):
        if cls.name == k:
            return True
        if k == "dict" and cls.name in ("OrderedDict", "Mapping"):
            return getattr(v, "ordered", False) or cls.name == "Mapping"
        if k == "list" and cls.name in ("Iterable", "Sequence"):
            return True
        return False
    if k == "type":
        return cls.name == "type"
    if k == "function":
        return cls.name in ("function", "Callable")
    return False
