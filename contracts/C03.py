"""C03 -- parsed expressions follow Modelica precedence and literal values.

Two kernels (DESIGN.md section 4 / C03):

 K2  the precedence table.  How an expression text is GROUPED is not decided by pymoca's Python but by the generated
     parser: the left-recursive rule `expr` of Modelica.g4 is compiled by ANTLR into precedence predicates.  On every
     run the table {alternative -> (precedence predicate p, operator token set, precedence q handed to the recursive
     expr call)} is extracted mechanically twice from the tree under check: from the serialized ATN that ModelicaParser
     deserialises at import (tools/introspect_expr_atn.py, run with the ANTLR runtime -- this is what adaptivePredict
     consults, so it decides), and from the python ast of the generated method ModelicaParser.expr (precpred(ctx, p)
     and self.expr(q) per <X>Context class).  Obligations on the table: every binary alternative is left-associative
     (q = p + 1); p(* /) > p(+ -) > p(relations) > p(and) > p(or); `not` takes an operand that absorbs relations but
     not `and`; a sign takes an operand that absorbs neither a binary + - nor anything looser; ^ takes primaries on both
     sides (so it binds tighter than a sign and does not chain); operator token sets are Modelica's; both tables agree;
     every other rule enters `expr` at precedence 0.  That these facts give the Modelica grouping is the precedence-
     climbing theorem for ANTLR's left-recursion rewriting (trusted, stated in ASSUMPTIONS).

 K1  the listener.  The REAL methods of pymoca.parser.ASTListener that build expression nodes are executed
     symbolically on modelled parse-tree contexts: the node stored for a context has the operator of the operator token
     and the children's nodes, by identity, in source order -- for every operator token of the alternative (taken from
     the extracted table) and for operands of every node kind, including an operand that is itself a unary or a binary
     minus; parenthesised single expressions collapse to the expression itself; if-expressions keep condition/branch
     order with the else branch last for 0..6 elseif parts; ranges are start:step:stop; literals: a numeral is int()
     of its text when that succeeds and float() of it otherwise (int/float by contract, for every numeral), a string
     loses exactly its outer quotes (for every string, symbolic), true/false are the Booleans; function calls and der()
     keep argument order; nothing else in the listener's node map is touched.
"""
import ast as pyast
import json
import os
import subprocess

import z3

from pyvc import ops
from pyvc.values import Ext, PyRaise, Unsupported, VList, VObj, stub

from .parser_common import Tok, call, ctx, get_ast, put_ast, setup

HERE = os.path.dirname(os.path.dirname(os.path.abspath(__file__)))
GENERATED = "src/pymoca/generated/ModelicaParser.py"

# Modelica 3.x, B.2.7: the operator classes
MODELICA_OPS = {
    "Expr_signed": {"+", "-"},
    "Expr_exp": {"^", ".^"},
    "Expr_mul": {"*", "/", ".*", "./"},
    "Expr_add": {"+", "-", ".+", ".-"},
    "Expr_rel": {"<", "<=", ">", ">=", "==", "<>"},
    "Expr_not": {"not"},
    "Expr_and": {"and"},
    "Expr_or": {"or"},
}
BINARY = ["Expr_mul", "Expr_add", "Expr_rel", "Expr_and", "Expr_or"]

_FACTS = {}


def repo_root():
    return os.environ.get("PYVC_REPO", "/repo")


def atn_facts():
    """table read from the serialized ATN by the ANTLR runtime (under the repo's interpreter)"""
    if "atn" not in _FACTS:
        env = dict(os.environ)
        env["PYTHONPATH"] = os.path.join(repo_root(), "src")
        p = subprocess.run([os.environ.get("PYVC_REPO_PYTHON", "/venv/bin/python"), os.path.join(HERE, "tools", "introspect_expr_atn.py")],
                           capture_output=True, text=True, env=env, timeout=300)
        line = [l for l in p.stdout.splitlines() if l.startswith("{")]
        if p.returncode or not line:
            raise Unsupported("the generated parser of the tree under check could not be introspected: %s" % (p.stderr[-400:],))
        _FACTS["atn"] = json.loads(line[-1])
    return _FACTS["atn"]


def _int_arg(node):
    return node.value if isinstance(node, pyast.Constant) and isinstance(node.value, int) else None


def code_table(eng):
    """table read from the python ast of the generated method ModelicaParser.expr:  <X>Context -> {p, q, tokens}"""
    if "code" in _FACTS:
        return _FACTS["code"]
    tree = eng.source.module_ast(GENERATED)
    cls = [n for n in tree.body if isinstance(n, pyast.ClassDef) and n.name == "ModelicaParser"][0]
    fn = [n for n in cls.body if isinstance(n, pyast.FunctionDef) and n.name == "expr"][0]
    eng.source.record(GENERATED, fn, "pymoca.generated.ModelicaParser:ModelicaParser.expr")
    lit = None
    for n in cls.body:
        if isinstance(n, pyast.Assign) and getattr(n.targets[0], "id", None) == "literalNames":
            lit = [x.strip("'") for x in pyast.literal_eval(n.value)]
    consts = {}
    for n in cls.body:      # token type constants  T__70 = 71
        if isinstance(n, pyast.Assign) and isinstance(n.targets[0], pyast.Name) and _int_arg(n.value) is not None:
            consts[n.targets[0].id] = n.value.value
    table = {}

    def branches(node):
        """every `if la_ == k: ... elif ...` chain: yield (k, body)"""
        for sub in pyast.walk(node):
            if isinstance(sub, pyast.If) and isinstance(sub.test, pyast.Compare) and isinstance(sub.test.left, pyast.Name) \
                    and sub.test.left.id == "la_" and isinstance(sub.test.ops[0], pyast.Eq):
                yield _int_arg(sub.test.comparators[0]), sub.body
    for k, body in branches(fn):
        mod = pyast.Module(body=body, type_ignores=[])
        ctxname, p, q_list, toks, operands = None, None, [], None, []
        for sub in pyast.walk(mod):
            if isinstance(sub, pyast.Assign) and getattr(sub.targets[0], "id", None) == "localctx" and isinstance(sub.value, pyast.Call) \
                    and isinstance(sub.value.func, pyast.Attribute) and sub.value.func.attr.endswith("Context") and ctxname is None:
                ctxname = sub.value.func.attr[:-len("Context")]
            if isinstance(sub, pyast.Call) and isinstance(sub.func, pyast.Attribute):
                if sub.func.attr == "precpred" and len(sub.args) == 2 and p is None:
                    p = _int_arg(sub.args[1])
                elif sub.func.attr == "expr" and isinstance(sub.func.value, pyast.Name) and sub.func.value.id == "self":
                    q_list.append(_int_arg(sub.args[0]) if sub.args else 0)
                    operands.append("expr")
                elif sub.func.attr == "primary" and isinstance(sub.func.value, pyast.Name) and sub.func.value.id == "self":
                    operands.append("primary")
                elif sub.func.attr == "match" and sub.args and isinstance(sub.args[0], pyast.Attribute):
                    t = consts.get(sub.args[0].attr)
                    toks = {lit[t]} if t is not None and lit and t < len(lit) else None
            # operator token test:  if not (<test over _la>):   -> evaluate the test for every token type
            if isinstance(sub, pyast.If) and isinstance(sub.test, pyast.UnaryOp) and isinstance(sub.test.op, pyast.Not) and toks is None:
                names = {n.id for n in pyast.walk(sub.test.operand) if isinstance(n, pyast.Name)}
                if names == {"_la"}:
                    code = compile(pyast.Expression(body=sub.test.operand), "<token test>", "eval")
                    toks = {lit[t] for t in range(1, len(lit)) if eval(code, {"__builtins__": {}}, {"_la": t})}
        if ctxname and ctxname.startswith("Expr_") and ctxname not in table:
            # nested chains are walked more than once; the first (innermost-complete) record of a context wins
            table[ctxname] = {"la": k, "p": p, "q": q_list, "tokens": sorted(toks) if toks else [], "operands": operands}
    _FACTS["code"] = table
    return table


def atn_table():
    """ATN alternatives keyed like the code table.  Prefix alternatives (decision with no precedence predicate) and
    binary alternatives (guarded by a precedence predicate) are matched to context classes through the alternative
    number of the decision, which is what `la_ == k` tests in the generated method."""
    facts = atn_facts()
    pre, post = {}, {}
    for a in facts["alternatives"]:
        els = a["elements"]
        rec = {"p": None, "q": [], "tokens": [], "operands": []}
        for e in els:
            if e[0] == "precpred":
                rec["p"] = e[1]
            elif e[0] == "tokens":
                rec["tokens"] = sorted(set(rec["tokens"]) | set(e[1]))
            elif e[0] == "rule":
                rec["operands"].append(e[1])
                if e[1] == "expr":
                    rec["q"].append(e[2])
        (post if rec["p"] is not None else pre).setdefault(a["decision_state"], {})[a["alt"]] = rec
    return pre, post, facts


# ------------------------------------------------------------------------------------------------ K2
def h_precedence_table(eng):
    code = code_table(eng)
    pre, post, facts = atn_table()
    eng.input("code_table", {k: {"p": v["p"], "q": v["q"], "tokens": v["tokens"]} for k, v in code.items()})
    eng.input("atn_alternatives", facts["alternatives"])
    eng.cover("table.extracted")
    # the two decisions of rule expr: prefix alternatives and the operator loop
    ok_shape = len(pre) == 1 and len(post) == 1
    eng.prove("table.rule_has_one_prefix_decision_and_one_operator_loop", z3.BoolVal(ok_shape), prefix=list(pre), loop=list(post))
    if not ok_shape:
        return
    prefix, loop = list(pre.values())[0], list(post.values())[0]
    # both extractions describe the same alternatives (same context <-> same p, q, token set)
    agree, T = [], {}
    for name, c in code.items():
        src = loop if c["p"] is not None else prefix
        a = src.get(c["la"])
        same = a is not None and a["p"] == c["p"] and a["q"] == c["q"] and a["tokens"] == c["tokens"] and a["operands"] == c["operands"]
        if not same:
            agree.append((name, c, a))
        T[name] = a if a is not None else c
    n_alts = len(prefix) + len(loop)
    eng.prove("table.generated_method_and_serialized_atn_agree", z3.BoolVal(not agree and n_alts == len(code)), disagree=agree[:3], atn_alternatives=n_alts, code_alternatives=len(code))
    eng.prove("table.every_operator_alternative_present", z3.BoolVal(set(MODELICA_OPS) | {"Expr_primary"} == set(T)), got=sorted(T))
    if set(MODELICA_OPS) - set(T):
        return
    p = {k: T[k]["p"] for k in BINARY}
    q = {k: (T[k]["q"] or [None])[-1] for k in T}
    # operator classes
    bad = {k: T[k]["tokens"] for k in MODELICA_OPS if set(T[k]["tokens"]) != MODELICA_OPS[k]}
    eng.prove("table.operator_token_sets_are_modelicas", z3.BoolVal(not bad), wrong=bad)
    # left associativity: the right operand of a binary operator at level p is parsed at level p + 1
    la = {k: (p[k], q[k]) for k in BINARY if not (isinstance(p[k], int) and q[k] == p[k] + 1 and T[k]["operands"] == ["expr"] and len(T[k]["q"]) == 1)}
    eng.prove("table.binary_operators_are_left_associative", z3.BoolVal(not la), wrong=la)
    ints = all(isinstance(p[k], int) for k in BINARY)
    eng.prove("table.mul_binds_tighter_than_add", z3.BoolVal(ints and p["Expr_mul"] > p["Expr_add"]), p=p)
    eng.prove("table.add_binds_tighter_than_relations", z3.BoolVal(ints and p["Expr_add"] > p["Expr_rel"]), p=p)
    eng.prove("table.relations_bind_tighter_than_and", z3.BoolVal(ints and p["Expr_rel"] > p["Expr_and"]), p=p)
    eng.prove("table.and_binds_tighter_than_or", z3.BoolVal(ints and p["Expr_and"] > p["Expr_or"] >= 1), p=p)
    qn, qs = q["Expr_not"], q["Expr_signed"]
    # not:  operand level lets relations (and everything tighter) in, keeps `and` / `or` out
    eng.prove("table.not_is_looser_than_relations_and_tighter_than_and",
              z3.BoolVal(ints and isinstance(qn, int) and p["Expr_and"] < qn <= p["Expr_rel"] and T["Expr_not"]["operands"] == ["expr"]), q_not=qn, p=p)
    # sign: operand level keeps every binary + - (and anything looser) out; (-a)*b and -(a*b) have the same value, so
    # the level relative to * / is not constrained
    eng.prove("table.sign_applies_before_binary_add", z3.BoolVal(ints and isinstance(qs, int) and qs > p["Expr_add"] and T["Expr_signed"]["operands"] == ["expr"]), q_signed=qs, p=p)
    # ^ : primaries on both sides, no precedence predicate (a prefix alternative, reachable at any level)
    e = T["Expr_exp"]
    eng.prove("table.power_takes_primaries_so_it_binds_tighter_than_a_sign", z3.BoolVal(e["operands"] == ["primary", "primary"] and e["p"] is None and not e["q"]), exp=e)
    eng.prove("table.primary_alternative_is_a_single_primary", z3.BoolVal(T["Expr_primary"]["operands"] == ["primary"] and T["Expr_primary"]["p"] is None), primary=T["Expr_primary"])
    # other rules enter expr at precedence 0 (checked on the generated source: self.expr(k) outside expr itself)
    tree = eng.source.module_ast(GENERATED)
    outside = []
    for fn in pyast.walk(tree):
        if isinstance(fn, pyast.FunctionDef) and fn.name != "expr":
            for sub in pyast.walk(fn):
                if isinstance(sub, pyast.Call) and isinstance(sub.func, pyast.Attribute) and sub.func.attr == "expr" \
                        and isinstance(sub.func.value, pyast.Name) and sub.func.value.id == "self":
                    outside.append((fn.name, _int_arg(sub.args[0]) if sub.args else None))
    eng.prove("table.other_rules_enter_expr_at_level_zero", z3.BoolVal(bool(outside) and all(k == 0 for _, k in outside)), calls=outside[:6])


# ------------------------------------------------------------------------------------------------ K1
OPERAND_KINDS = ["ref", "literal", "unary-minus", "binary-minus", "sum", "call"]


def operand(A, kind, tag):
    if kind == "ref":
        return A.ref(tag)
    if kind == "literal":
        return A.prim(3)
    if kind == "unary-minus":
        return A.expr("-", A.ref(tag + "u"))
    if kind == "binary-minus":
        return A.expr("-", A.ref(tag + "l"), A.ref(tag + "r"))
    if kind == "sum":
        return A.expr("+", A.ref(tag + "l"), A.prim(1))
    return A.expr(A.ref("sin"), A.ref(tag + "arg"))


def snapshot(node):
    """field identities of a node (and one level of operand lists), to show operands are not rewritten"""
    out = {}
    if isinstance(node, VObj):
        for k, v in node.fields.items():
            out[k] = tuple(id(x) for x in v.items) if isinstance(v, VList) else (v if isinstance(v, (str, int, float, bool, type(None))) else id(v))
    return out


def frame_ok(L, before, new_ctx):
    """nothing but the entry of new_ctx changed in the listener's node map"""
    d = L.fields["ast"]
    now = [(id(k), id(v)) for k, v in zip(d.keys, d.vals) if k is not new_ctx]
    return now == before


def ast_entries(L):
    d = L.fields["ast"]
    return [(id(k), id(v)) for k, v in zip(d.keys, d.vals)]


def is_expression(A, node):
    return isinstance(node, VObj) and node.cls is A.cls("Expression")


def tokens_of(eng, name):
    """operator tokens of an alternative: those the generated parser of THIS tree accepts, plus Modelica's"""
    t = set(MODELICA_OPS[name])
    try:
        t |= set(code_table(eng).get(name, {}).get("tokens", []))
    except Exception:
        pass
    return sorted(t)


def h_binary(eng):
    A, L, P = setup(eng)
    name = BINARY[eng.choice(len(BINARY))]
    toks = tokens_of(eng, name)
    op = toks[eng.choice(len(toks))]
    kl, kr = OPERAND_KINDS[eng.choice(len(OPERAND_KINDS))], OPERAND_KINDS[eng.choice(len(OPERAND_KINDS))]
    eng.input("binary", {"alternative": name, "operator": op, "left": kl, "right": kr})
    cl, cr = ctx(eng, P, "Expr_primary"), ctx(eng, P, "Expr_primary")
    nl, nr = operand(A, kl, "x"), operand(A, kr, "y")
    put_ast(eng, L, cl, nl)
    put_ast(eng, L, cr, nr)
    sl, sr = snapshot(nl), snapshot(nr)
    before = ast_entries(L)
    c = ctx(eng, P, name, expr=VList([cl, cr]), label_op=Tok(op))
    call(eng, L, "exit" + name, c)
    eng.cover("binary." + name)
    node = get_ast(eng, L, c)
    want_op = op
    eng.prove("binary.node_is_a_new_expression", z3.BoolVal(is_expression(A, node) and node is not nl and node is not nr), alternative=name)
    if not is_expression(A, node):
        return
    eng.prove("binary.operator_is_the_operator_token", z3.BoolVal(node.fields["operator"] == want_op), got=str(node.fields["operator"]), want=want_op)
    ops_ = node.fields["operands"]
    eng.prove("binary.operands_are_the_childrens_nodes_left_then_right", z3.BoolVal(isinstance(ops_, VList) and len(ops_.items) == 2 and ops_.items[0] is nl and ops_.items[1] is nr),
              alternative=name, left=kl, right=kr)
    eng.prove("binary.operand_nodes_are_not_rewritten", z3.BoolVal(snapshot(nl) == sl and snapshot(nr) == sr))
    eng.prove("binary.no_other_node_is_touched", z3.BoolVal(frame_ok(L, before, c)))


def h_additive_chain(eng):
    """an unparenthesised chain  x0 op1 x1 op2 x2 ... of additive operators, of any length: ANTLR's left-recursive rule nests the
    contexts to the left (each inner context is the first operand of its parent, `parentCtx` links them), the listener is called for
    them innermost first, and whatever tree it builds for the outermost context must denote the LEFT-associative value
    (((x0 op1 x1) op2 x2) ...) -- the meaning of `a - b - c` -- for every length, not only the short ones."""
    A, L, P = setup(eng)
    eng.max_unroll = max(eng.max_unroll, 200)          # concrete chains: loops over their terms are simply run
    n = [2, 3, 33, 40, 70][eng.choice(5)]
    pattern = ["+", "-", ".-", "mixed", ".+"][eng.choice(5)]
    eng.input("terms", n)
    eng.input("operators", pattern)
    mixed = ["-", "+", ".-", "-", ".+", ".-", "-"]
    opsq = [(mixed[k % len(mixed)] if pattern == "mixed" else pattern) for k in range(n - 1)]
    leaves, vals = [], []
    for k in range(n):
        c = ctx(eng, P, "Expr_primary")
        node = A.prim(k * k + 1)
        put_ast(eng, L, c, node)
        c.fields["parentCtx"] = None
        leaves.append(c)
        vals.append(k * k + 1)

    def accessor(items):
        return stub(lambda eng, *a: VList(list(items)) if not a else items[a[0]])
    inner = leaves[0]
    chain = []
    for k in range(1, n):
        c = ctx(eng, P, "Expr_add", label_op=Tok(opsq[k - 1]))
        c.fields["expr"] = accessor([inner, leaves[k]])
        c.fields["parentCtx"] = None
        inner.fields["parentCtx"] = c
        leaves[k].fields["parentCtx"] = c
        chain.append(c)
        inner = c
    try:
        for c in chain:                      # the walker leaves the innermost context first
            call(eng, L, "exitExpr_add", c)
    except PyRaise as e:
        eng.prove("chain.no_exception", False, exc=repr(e.exc))
        return
    eng.cover("chain.n%d" % n)
    node = get_ast(eng, L, chain[-1])

    def value(x, depth=0):
        if depth > 400 or not isinstance(x, VObj):
            return None
        if x.cls is A.cls("Primary"):
            return x.fields["value"]
        if is_expression(A, x):
            o = x.fields["operands"].items
            if len(o) != 2:
                return None
            l, r = value(o[0], depth + 1), value(o[1], depth + 1)
            if l is None or r is None:
                return None
            return l + r if x.fields["operator"] in ("+", ".+") else (l - r if x.fields["operator"] in ("-", ".-") else None)
        return None
    want = vals[0]
    for o, v in zip(opsq, vals[1:]):
        want = want + v if o in ("+", ".+") else want - v
    eng.prove("chain.tree_denotes_the_left_associative_value", z3.BoolVal(value(node) == want), got=repr(value(node)), want=want)

    def leaves_in_order(x, out):
        if isinstance(x, VObj) and is_expression(A, x):
            for o in x.fields["operands"].items:
                leaves_in_order(o, out)
        else:
            out.append(x)
        return out
    got_leaves = leaves_in_order(node, [])
    eng.prove("chain.operands_appear_once_each_in_source_order", z3.BoolVal(len(got_leaves) == n and all(g is get_ast(eng, L, c) for g, c in zip(got_leaves, leaves))))


def h_power(eng):
    A, L, P = setup(eng)
    toks = tokens_of(eng, "Expr_exp")
    op = toks[eng.choice(len(toks))]
    kl, kr = OPERAND_KINDS[eng.choice(len(OPERAND_KINDS))], OPERAND_KINDS[eng.choice(len(OPERAND_KINDS))]
    eng.input("power", {"operator": op, "base": kl, "exponent": kr})
    cl, cr = ctx(eng, P, "Primary_component_reference"), ctx(eng, P, "Primary_component_reference")
    nl, nr = operand(A, kl, "x"), operand(A, kr, "y")
    put_ast(eng, L, cl, nl)
    put_ast(eng, L, cr, nr)
    before = ast_entries(L)
    c = ctx(eng, P, "Expr_exp", primary=VList([cl, cr]), label_op=Tok(op))
    call(eng, L, "exitExpr_exp", c)
    eng.cover("power")
    node = get_ast(eng, L, c)
    ok = is_expression(A, node)
    eng.prove("power.node_is_a_new_expression", z3.BoolVal(ok and node is not nl and node is not nr))
    if not ok:
        return
    eng.prove("power.operator_is_the_operator_token", z3.BoolVal(node.fields["operator"] == op), got=str(node.fields["operator"]))
    ops_ = node.fields["operands"]
    eng.prove("power.operands_are_base_then_exponent", z3.BoolVal(isinstance(ops_, VList) and len(ops_.items) == 2 and ops_.items[0] is nl and ops_.items[1] is nr), base=kl, exponent=kr)
    eng.prove("power.no_other_node_is_touched", z3.BoolVal(frame_ok(L, before, c)))


def h_unary(eng):
    A, L, P = setup(eng)
    which = eng.choice(2)
    name = ["Expr_signed", "Expr_not"][which]
    toks = tokens_of(eng, name)
    op = toks[eng.choice(len(toks))]
    k = OPERAND_KINDS[eng.choice(len(OPERAND_KINDS))]
    eng.input("unary", {"alternative": name, "operator": op, "operand": k})
    cc = ctx(eng, P, "Expr_primary")
    n = operand(A, k, "x")
    put_ast(eng, L, cc, n)
    s0 = snapshot(n)
    before = ast_entries(L)
    members = {"expr": cc}
    if which == 0:
        members["label_op"] = Tok(op)
    c = ctx(eng, P, name, **members)
    call(eng, L, "exit" + name, c)
    eng.cover("unary." + name)
    node = get_ast(eng, L, c)
    ok = is_expression(A, node) and node is not n
    # the node must be a NEW unary node around the operand -- never the operand, nor a part of the operand
    eng.prove("unary.node_is_a_new_expression_around_the_operand", z3.BoolVal(ok), alternative=name, operator=op, operand=k)
    if not ok:
        return
    eng.prove("unary.operator_is_the_operator_token", z3.BoolVal(node.fields["operator"] == op), got=str(node.fields["operator"]), want=op)
    ops_ = node.fields["operands"]
    eng.prove("unary.single_operand_is_the_childs_node", z3.BoolVal(isinstance(ops_, VList) and len(ops_.items) == 1 and ops_.items[0] is n), operand=k)
    eng.prove("unary.operand_node_is_not_rewritten", z3.BoolVal(snapshot(n) == s0))
    eng.prove("unary.no_other_node_is_touched", z3.BoolVal(frame_ok(L, before, c)))


def h_passthrough(eng):
    """contexts that only hand their child's node upwards: the SAME node, for every node kind"""
    A, L, P = setup(eng)
    case = eng.choice(4)
    k = OPERAND_KINDS[eng.choice(len(OPERAND_KINDS))]
    n = operand(A, k, "x")
    child = ctx(eng, P, "Child")
    put_ast(eng, L, child, n)
    before = ast_entries(L)
    if case == 0:
        c = ctx(eng, P, "Expr_primary", primary=child)
        call(eng, L, "exitExpr_primary", c)
    elif case == 1:
        c = ctx(eng, P, "Expression_simple", simple_expression=child)
        call(eng, L, "exitExpression_simple", c)
    elif case == 2:
        c = ctx(eng, P, "Simple_expression", expr=VList([child]))
        call(eng, L, "exitSimple_expression", c)
    else:
        oel = ctx(eng, P, "Output_expression_list", expression=VList([child]))
        c = ctx(eng, P, "Primary_output_expression_list", output_expression_list=oel)
        call(eng, L, "exitPrimary_output_expression_list", c)
    eng.input("passthrough", {"context": ["expr_primary", "expression_simple", "simple_expression (no range)", "( single expression )"][case], "child": k})
    eng.cover("passthrough.case%d" % case)
    eng.prove("passthrough.same_node_as_the_child", z3.BoolVal(get_ast(eng, L, c) is n), case=case)
    eng.prove("passthrough.no_other_node_is_touched", z3.BoolVal(frame_ok(L, before, c)))


def h_parenthesised_list(eng):
    A, L, P = setup(eng)
    n = 2 + eng.choice(3)
    kids = [ctx(eng, P, "Expression_simple") for _ in range(n)]
    nodes = [operand(A, OPERAND_KINDS[(i * 2) % len(OPERAND_KINDS)], "x%d" % i) for i in range(n)]
    for kc, nd in zip(kids, nodes):
        put_ast(eng, L, kc, nd)
    oel = ctx(eng, P, "Output_expression_list", expression=VList(kids))
    c = ctx(eng, P, "Primary_output_expression_list", output_expression_list=oel)
    call(eng, L, "exitPrimary_output_expression_list", c)
    eng.cover("paren.list")
    got = get_ast(eng, L, c)
    eng.prove("paren.several_expressions_stay_a_list_in_source_order", z3.BoolVal(isinstance(got, VList) and len(got.items) == n and all(a is b for a, b in zip(got.items, nodes))), n=n)


def h_range(eng):
    A, L, P = setup(eng)
    three = eng.choice(2)
    kids = [ctx(eng, P, "Expr_primary") for _ in range(3 if three else 2)]
    nodes = [A.ref("r%d" % i) for i in range(len(kids))]
    for kc, nd in zip(kids, nodes):
        put_ast(eng, L, kc, nd)
    c = ctx(eng, P, "Simple_expression", expr=VList(kids))
    call(eng, L, "exitSimple_expression", c)
    eng.cover("range.%d" % len(kids))
    s = get_ast(eng, L, c)
    ok = isinstance(s, VObj) and s.cls is A.cls("Slice")
    eng.prove("range.is_a_slice", z3.BoolVal(ok))
    if not ok:
        return
    f = s.fields
    if three:
        eng.prove("range.three_parts_are_start_step_stop", z3.BoolVal(f["start"] is nodes[0] and f["step"] is nodes[1] and f["stop"] is nodes[2]))
    else:
        st = f["step"]
        one = isinstance(st, VObj) and st.cls is A.cls("Primary") and st.fields["value"] == 1 and st.fields["value"] is not True
        eng.prove("range.two_parts_are_start_stop_with_step_one", z3.BoolVal(f["start"] is nodes[0] and f["stop"] is nodes[1] and one))


def h_if(eng):
    A, L, P = setup(eng)
    n_elseif = eng.choice(7)
    eng.input("if_expression", {"elseif_parts": n_elseif})
    kids, nodes = [], []
    for i in range(n_elseif + 1):
        for tag in ("c", "e"):
            kc = ctx(eng, P, "Expression_simple")
            nd = A.ref("%s%d" % (tag, i))
            put_ast(eng, L, kc, nd)
            kids.append(kc)
            nodes.append(nd)
    kc = ctx(eng, P, "Expression_simple")
    els = A.ref("else_branch")
    put_ast(eng, L, kc, els)
    kids.append(kc)
    nodes.append(els)
    before = ast_entries(L)
    c = ctx(eng, P, "Expression_if", expression=VList(kids))
    call(eng, L, "exitExpression_if", c)
    eng.cover("if.elseif%d" % n_elseif)
    node = get_ast(eng, L, c)
    ok = isinstance(node, VObj) and node.cls is A.cls("IfExpression")
    eng.prove("if.node_is_an_if_expression", z3.BoolVal(ok))
    if not ok:
        return
    conds, exprs = node.fields["conditions"], node.fields["expressions"]
    want_c = [nodes[2 * i] for i in range(n_elseif + 1)]
    want_e = [nodes[2 * i + 1] for i in range(n_elseif + 1)] + [els]
    eng.prove("if.conditions_in_source_order", z3.BoolVal(isinstance(conds, VList) and len(conds.items) == len(want_c) and all(a is b for a, b in zip(conds.items, want_c))), n_elseif=n_elseif)
    eng.prove("if.branches_in_source_order_else_last", z3.BoolVal(isinstance(exprs, VList) and len(exprs.items) == len(want_e) and all(a is b for a, b in zip(exprs.items, want_e))), n_elseif=n_elseif)
    eng.prove("if.no_other_node_is_touched", z3.BoolVal(frame_ok(L, before, c)))


class NumeralText(Ext):
    """the text of an UNSIGNED_NUMBER token, for EVERY numeral: int(text) succeeds exactly for digit strings (contract
    of the builtin, Python language reference) and gives the numeral's integer value; float(text) gives its real value"""

    def __init__(self, digits_only):
        self.digits_only = digits_only
        self.int_value = ("int-value-of-the-numeral",)
        self.float_value = ("float-value-of-the-numeral",)
        self.calls = []

    def sym_unop(self, eng, op):
        self.calls.append(op)
        if op == "int":
            if self.digits_only:
                return self.int_value
            from pyvc.engine import make_exc
            raise PyRaise(make_exc("ValueError", "invalid literal for int() with base 10"))
        if op == "float":
            return self.float_value
        raise Unsupported("numeral.%s" % op)


def h_number(eng):
    A, L, P = setup(eng)
    digits = bool(eng.choice(2))
    txt = NumeralText(digits)
    eng.input("numeral", {"only_digits": digits})
    c = ctx(eng, P, "Primary_unsigned_number", getText=txt)
    call(eng, L, "exitPrimary_unsigned_number", c)
    eng.cover("number.digits%d" % digits)
    node = get_ast(eng, L, c)
    ok = isinstance(node, VObj) and node.cls is A.cls("Primary")
    eng.prove("literal.number_is_a_primary", z3.BoolVal(ok))
    if not ok:
        return
    v = node.fields["value"]
    if digits:
        eng.prove("literal.digit_string_is_its_integer_value", z3.BoolVal(v is txt.int_value), got=str(v))
    else:
        eng.prove("literal.other_numeral_is_its_float_value", z3.BoolVal(v is txt.float_value), got=str(v))


def h_string(eng):
    A, L, P = setup(eng)
    body = eng.fresh_str("body")
    text = z3.Concat(z3.StringVal('"'), body, z3.StringVal('"'))
    eng.input("string_body", body)
    c = ctx(eng, P, "Primary_string", getText=text, STRING=Tok(text))      # the rule is its one STRING token
    call(eng, L, "exitPrimary_string", c)
    eng.cover("string")
    node = get_ast(eng, L, c)
    ok = isinstance(node, VObj) and node.cls is A.cls("Primary")
    eng.prove("literal.string_is_a_primary", z3.BoolVal(ok))
    if not ok:
        return
    v = node.fields["value"]
    eng.prove("literal.string_loses_exactly_its_outer_quotes", ops.to_z3(v) == body if ops.is_sym(v) or isinstance(v, str) else z3.BoolVal(False))


def h_boolean(eng):
    A, L, P = setup(eng)
    which = eng.choice(2)
    c = ctx(eng, P, ["Primary_true", "Primary_false"][which])
    call(eng, L, ["exitPrimary_true", "exitPrimary_false"][which], c)
    eng.cover("boolean%d" % which)
    node = get_ast(eng, L, c)
    ok = isinstance(node, VObj) and node.cls is A.cls("Primary")
    eng.prove("literal.boolean_is_a_primary", z3.BoolVal(ok))
    if ok:
        eng.prove("literal.true_is_True_and_false_is_False", z3.BoolVal(node.fields["value"] is [True, False][which]), got=str(node.fields["value"]))


def h_call(eng):
    A, L, P = setup(eng)
    der = eng.choice(2)
    n = eng.choice(4)
    eng.input("call", {"callee": "der" if der else "f", "arguments": n})
    args, nodes = [], []
    for i in range(n):
        e = ctx(eng, P, "Expression_simple")
        nd = operand(A, OPERAND_KINDS[(i + 2) % len(OPERAND_KINDS)], "a%d" % i)
        put_ast(eng, L, e, nd)
        args.append(ctx(eng, P, "Function_argument", expression=e))
        nodes.append(nd)
    fa = ctx(eng, P, "Function_arguments", function_argument=VList(args))
    fca = ctx(eng, P, "Function_call_args", function_arguments=fa)
    if der:
        c = ctx(eng, P, "Primary_derivative", function_call_args=fca)
        call(eng, L, "exitPrimary_derivative", c)
        want = "der"
    else:
        cr = ctx(eng, P, "Component_reference")
        want = A.ref("f")
        put_ast(eng, L, cr, want)
        c = ctx(eng, P, "Primary_function", function_call_args=fca, component_reference=cr)
        call(eng, L, "exitPrimary_function", c)
    eng.cover("call.der%d" % der)
    node = get_ast(eng, L, c)
    ok = is_expression(A, node)
    eng.prove("call.node_is_an_expression", z3.BoolVal(ok))
    if not ok:
        return
    o = node.fields["operator"]
    eng.prove("call.operator_is_the_callee", z3.BoolVal((o == "der") if der else (o is want)))
    ops_ = node.fields["operands"]
    eng.prove("call.arguments_in_source_order", z3.BoolVal(isinstance(ops_, VList) and len(ops_.items) == n and all(a is b for a, b in zip(ops_.items, nodes))), n=n)


HARNESSES = [("precedence table of the generated parser", h_precedence_table),
             ("binary operators", h_binary),
             ("power", h_power),
             ("sign and not", h_unary),
             ("pass-through contexts", h_passthrough),
             ("parenthesised list", h_parenthesised_list),
             ("ranges", h_range),
             ("if-expressions", h_if),
             ("numerals", h_number),
             ("additive chains of any length", h_additive_chain), ("strings", h_string),
             ("booleans", h_boolean),
             ("calls", h_call)]
EXPECTED_COVER = {"table.extracted", "power", "unary.Expr_signed", "unary.Expr_not", "paren.list", "range.2", "range.3", "if.elseif0", "if.elseif6",
                  "number.digits0", "number.digits1", "string", "boolean0", "boolean1", "call.der0", "call.der1",
                  "passthrough.case0", "passthrough.case1", "passthrough.case2", "passthrough.case3"} | {"binary." + b for b in BINARY}
BOUNDED = True
LEVEL = "proof"
TRUSTED = ["ANTLR 4's left-recursion rewriting and runtime: an operator alternative guarded by precpred(p) is taken inside expr(_p) exactly when p >= _p, prefix alternatives are unguarded, adaptivePredict follows the serialized ATN "
           "(the precedence-climbing theorem that turns the table obligations into the grouping of a text is standard and not machine-checked here)",
           "the generated <X>Context.exitRule calls the listener method exit<X>; ParseTreeWalker calls it after all children (emulated by the harness)",
           "the lexer (which character sequences are one UNSIGNED_NUMBER / STRING / operator token)",
           "int() accepts exactly digit strings among numerals and returns their value; float() returns a numeral's value (contract of the builtins)"]
ASSUMPTIONS = [
    "contexts are modelled objects: a listener method that starts using a different accessor of the same context makes its path undecided (reported, not a violation)",
    "operands are enumerated by node kind (reference, literal, unary minus, binary minus, sum, call); operators by the token sets of the extracted table united with Modelica's",
    "if-expressions are enumerated for 0..6 elseif parts (list slicing is executed concretely for each length; a bound on the number of elseif parts, stated here)",
    "what an Expression node MEANS is the backends' business (C11, C24, C25); here the tree is shown to be the parse tree's structure and the parse tree's structure to follow Modelica's table",
]
EXPLANATION = ("Precedence/associativity facts are extracted from the generated parser (serialized ATN and generated method) and checked against Modelica's table; the real listener methods are executed "
               "symbolically to show the nodes mirror the parse tree; a bounded replay prints random expression trees with minimal and redundant parentheses, parses them and compares values.")
MANIFEST = {
    "category": "proof",
    "text": "Grouping is decided by the generated parser, so on every run the precedence table of rule expr is extracted mechanically from the tree under check, twice (serialized ATN via the ANTLR runtime; python ast of the generated method), and obligations are discharged on it: binary alternatives are left-associative (right operand parsed one level higher), * / over + - over relations over and over or, not takes relations but not and, a sign applies before any binary + -, ^ takes primaries on both sides, operator token sets are Modelica's, both extractions agree, other rules enter at level 0. The real ASTListener expression callbacks are executed symbolically on modelled contexts: each stores a new node whose operator is the operator token and whose operands are the children's nodes by identity in source order, for every operator token and every operand node kind (including operands that are themselves unary or binary minus), touching no other node; parenthesised single expressions and pass-through contexts yield the same node; if-expressions keep order with else last for 0..6 elseifs; ranges are start:step:stop; numerals are int() of the text when that succeeds, else float(); strings lose exactly the outer quotes (symbolic string, z3); true/false are the Booleans; call arguments keep order. A bounded replay prints random expression trees with minimal and with redundant parentheses, parses them with the real parser and compares the value of the parsed tree with the value of the generating tree at random points, and literals with their exact values.",
    "note": "ANTLR's runtime semantics of precedence predicates, the lexer and the walker order are trusted; that the table obligations imply the grouping is the (unchecked) precedence-climbing theorem; operand kinds and the number of elseif parts are enumerated.",
    "technique": "contract-based deductive verification: mechanically extracted precedence table of the generated parser checked against Modelica's, symbolic execution of the real listener callbacks with identity/order postconditions and frame; bounded replay through the real parser",
    "design_ref": "DESIGN.md section 4/C03",
}
