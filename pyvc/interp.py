"""Interpreter part of the pyvc engine: statements, expressions, calls, modules."""
import ast
import operator

import z3

from .values import (Ext, Infeasible, NoOp, PathEnd, PyRaise, Unsupported, VBound, VClass, VDict,
                     VFunc, VList, VModule, VObj, VSet, VSlice, is_sym, stub)
from . import ops


class _Return(Exception):
    def __init__(self, value):
        self.value = value


class _Break(Exception):
    pass


class _Continue(Exception):
    pass


class Frame:
    def __init__(self, func, locals_, module, closure=None, cls=None):
        self.func = func
        self.locals = locals_
        self.module = module
        self.closure = closure
        self.cls = cls
        self.loop_ordinal = 0
        self.globals_decl = set()


REPO_MODULE_FILES = {
    "pymoca": "src/pymoca/__init__.py",
    "pymoca.ast": "src/pymoca/ast.py",
    "pymoca.parser": "src/pymoca/parser.py",
    "pymoca.tree": "src/pymoca/tree.py",
    "pymoca.backends.casadi.alias_relation": "src/pymoca/backends/casadi/alias_relation.py",
    "pymoca.backends.casadi.api": "src/pymoca/backends/casadi/api.py",
    "pymoca.backends.casadi.generator": "src/pymoca/backends/casadi/generator.py",
    "pymoca.backends.casadi.model": "src/pymoca/backends/casadi/model.py",
    "pymoca.backends.casadi.mtensor": "src/pymoca/backends/casadi/mtensor.py",
    "pymoca.backends.casadi._options": "src/pymoca/backends/casadi/_options.py",
    "pymoca.backends.sympy.generator": "src/pymoca/backends/sympy/generator.py",
    "pymoca.backends.xml.generator": "src/pymoca/backends/xml/generator.py",
    "tools.compiler": "tools/compiler.py",
}


class Interp:
    # ------------------------------------------------------------------ modules
    def load_module(self, modname):
        """Load a repo module: top-level defs/classes become VFunc/VClass; other top-level
        statements are evaluated lazily when the name is first read."""
        if modname in self.modules:
            return self.modules[modname]
        if modname in self.ext_modules:
            return self.ext_modules[modname]
        if modname in getattr(self, "text_modules", {}):
            rel = "<text:%s>" % modname
            text = self.text_modules[modname]
            self.source.files[rel] = (ast.parse(text), text)
        elif modname not in REPO_MODULE_FILES:
            raise Unsupported("module %s has no stub" % modname)
        else:
            rel = REPO_MODULE_FILES[modname]
        tree = self.source.module_ast(rel)
        mod = VModule(modname)
        mod.relpath = rel
        mod.mutated_globals = _mutated_globals(tree)
        self.modules[modname] = mod
        for st in tree.body:
            if isinstance(st, ast.FunctionDef):
                mod.globals[st.name] = self.make_function(st, mod, None, None)
            elif isinstance(st, ast.ClassDef):
                mod.lazy[st.name] = st
            elif isinstance(st, (ast.Import, ast.ImportFrom)):
                for a in st.names:
                    mod.lazy[(a.asname or a.name).split(".")[0]] = st
            elif isinstance(st, (ast.Assign, ast.AnnAssign)):
                targets = st.targets if isinstance(st, ast.Assign) else [st.target]
                for t in targets:
                    for n in ast.walk(t):
                        if isinstance(n, ast.Name):
                            mod.lazy[n.id] = st
        return mod

    def module_global(self, mod, name):
        if name in mod.globals:
            return mod.globals[name]
        if name in mod.lazy:
            st = mod.lazy.pop(name)
            fr = Frame(None, mod.globals, mod)
            if isinstance(st, ast.ClassDef):
                mod.globals[name] = self.make_class(st, mod, fr)
            else:
                self.ex(st, fr)
                if getattr(self, "arbitrary_global_state", True) and name in getattr(mod, "mutated_globals", ()) \
                        and isinstance(st, (ast.Assign, ast.AnnAssign)) and name in mod.globals \
                        and isinstance(mod.globals[name], (VList, VDict, VSet, VObj)):
                    from .values import AnyValue
                    mod.globals[name] = AnyValue(name)
            if name in mod.globals:
                return mod.globals[name]
        raise KeyError(name)

    def make_function(self, node, module, closure, cls):
        f = VFunc(node, module, closure, cls)
        for d in getattr(node, "decorator_list", []):
            if isinstance(d, ast.Call):          # @functools.lru_cache(maxsize=None)
                d = d.func
            dn = d.id if isinstance(d, ast.Name) else (d.attr if isinstance(d, ast.Attribute) else None)
            if dn in ("staticmethod", "classmethod", "property"):
                f.kind = dn
            elif dn in ("abstractmethod",):
                pass
            elif dn in ("lru_cache", "cache"):
                # functools memoisation (unbounded or not: an entry that is still there is returned without running the body;
                # modelled unbounded, i.e. every earlier result of this path is still there)
                f.memoized = True
            else:
                f.kind = "decorated:" + str(dn)
        return f

    def make_class(self, node, module, frame):
        bases = []
        for b in node.bases:
            try:
                bv = self.ev(b, frame)
            except (Unsupported, KeyError):
                bv = VClass(ast.unparse(b))
            if isinstance(bv, VClass):
                bases.append(bv)
            else:
                bases.append(VClass(ast.unparse(b)))
        cls = VClass(node.name, bases, node, module)
        for st in node.body:
            if isinstance(st, ast.FunctionDef):
                cls.attrs[_mangle(node.name, st.name)] = self.make_function(st, module, None, cls)
            elif isinstance(st, ast.Assign) and len(st.targets) == 1 and isinstance(st.targets[0], ast.Name):
                try:
                    cls.attrs[_mangle(node.name, st.targets[0].id)] = self.ev(st.value, frame)
                except Unsupported:
                    pass
        return cls

    def find_function(self, modname, qualname):
        """Locate a function / method / nested function by qualified name, record its extraction."""
        mod = self.load_module(modname)
        parts = qualname.split(".")
        cur = None
        try:
            cur = self.module_global(mod, parts[0])
        except KeyError:
            raise Unsupported("anchor not found: %s.%s" % (modname, qualname))
        for p in parts[1:]:
            if isinstance(cur, VClass):
                v, _ = cur.lookup(_mangle(cur.name, p))
                if v is None:
                    raise Unsupported("anchor not found: %s.%s" % (modname, qualname))
                cur = v
            else:
                raise Unsupported("anchor not found: %s.%s" % (modname, qualname))
        if isinstance(cur, VFunc):
            self.source.record(mod.relpath, cur.node, modname + ":" + qualname)
        return cur

    def exec_fragment(self, modname, qualname, selector, locals_, label=None):
        """Execute a statement region of a (long) function, located by a structural selector
        (DESIGN 2.2): selector(function ast node) -> list of statements.  The fragment's free
        variables are given in `locals_`; returns the frame (its assigned variables are the
        outputs).  A missing anchor makes the path undecided."""
        f = self.find_function(modname, qualname)
        try:
            stmts = selector(f.node)
        except (StopIteration, IndexError, KeyError, AttributeError) as e:
            raise Unsupported("fragment anchor not found in %s.%s: %r" % (modname, qualname, e))
        if not stmts:
            raise Unsupported("fragment anchor not found in %s.%s" % (modname, qualname))
        mod = self.load_module(modname)
        text = self.source.files[mod.relpath][1].splitlines()
        import hashlib
        lo, hi = stmts[0].lineno, stmts[-1].end_lineno
        self.source.extracted["%s:%s#%s" % (modname, qualname, label or "fragment")] = {
            "file": mod.relpath, "lines": [lo, hi], "fragment_of": qualname,
            "sha256": hashlib.sha256("\n".join(text[lo - 1:hi]).encode()).hexdigest()}
        fr = Frame(f, dict(locals_), f.module, None, f.cls)
        self.ex_block(stmts, fr)
        return fr

    # ------------------------------------------------------------------ names
    def lookup(self, name, frame):
        fr = frame
        while fr is not None:
            if name in fr.locals and name not in fr.globals_decl:
                return fr.locals[name]
            fr = fr.closure
        mod = frame.module
        if mod is not None:
            try:
                return self.module_global(mod, name)
            except KeyError:
                pass
        if name in self.builtins:
            return self.builtins[name]
        raise PyRaise(self.make_exc("NameError", name))

    # ------------------------------------------------------------------ statements
    def ex_block(self, stmts, frame):
        for st in stmts:
            self.ex(st, frame)

    def ex(self, st, frame):
        m = getattr(self, "ex_" + type(st).__name__, None)
        if m is None:
            raise Unsupported("statement %s at line %d" % (type(st).__name__, st.lineno))
        return m(st, frame)

    def ex_Pass(self, st, frame):
        pass

    def ex_Expr(self, st, frame):
        if isinstance(st.value, ast.Constant):
            return
        self.ev(st.value, frame)

    def ex_Global(self, st, frame):
        frame.globals_decl.update(st.names)

    def ex_Nonlocal(self, st, frame):
        frame.nonlocal_decl = getattr(frame, "nonlocal_decl", set()) | set(st.names)

    def ex_Import(self, st, frame):
        for a in st.names:
            top = a.name.split(".")[0]
            if a.asname:
                frame.locals[a.asname] = self.load_module(a.name)
            else:
                frame.locals[top] = self.load_module(top)

    def ex_ImportFrom(self, st, frame):
        modname = st.module or ""
        if st.level:
            base = frame.module.name.split(".")
            base = base[:len(base) - st.level]
            modname = ".".join(base + ([st.module] if st.module else []))
        if modname == "__future__":
            return
        for a in st.names:
            target = a.asname or a.name
            full = modname + "." + a.name
            if full in REPO_MODULE_FILES or full in self.ext_modules:
                frame.locals[target] = self.load_module(full)
                continue
            mod = self.load_module(modname)
            if isinstance(mod, VModule):
                try:
                    frame.locals[target] = self.module_global(mod, a.name)
                except KeyError:
                    raise Unsupported("import %s from %s" % (a.name, modname))
            else:
                frame.locals[target] = self.getattr(mod, a.name, frame)

    def ex_FunctionDef(self, st, frame):
        f = self.make_function(st, frame.module, frame, None)
        f.defining_cls = frame.cls
        frame.locals[st.name] = f

    def ex_ClassDef(self, st, frame):
        frame.locals[st.name] = self.make_class(st, frame.module, frame)

    def ex_Return(self, st, frame):
        raise _Return(self.ev(st.value, frame) if st.value is not None else None)

    def ex_Break(self, st, frame):
        raise _Break()

    def ex_Continue(self, st, frame):
        raise _Continue()

    def ex_Assign(self, st, frame):
        v = self.ev(st.value, frame)
        for t in st.targets:
            self.assign(t, v, frame)

    def ex_AnnAssign(self, st, frame):
        if st.value is not None:
            self.assign(st.target, self.ev(st.value, frame), frame)

    def ex_AugAssign(self, st, frame):
        cur = self.ev(_load(st.target), frame)
        rhs = self.ev(st.value, frame)
        new = ops.inplace(self, type(st.op).__name__, cur, rhs)
        self.assign(st.target, new, frame)

    def ex_Delete(self, st, frame):
        for t in st.targets:
            if isinstance(t, ast.Subscript):
                ops.delitem(self, self.ev(t.value, frame), self.ev_slice(t.slice, frame))
            elif isinstance(t, ast.Name):
                frame.locals.pop(t.id, None)
            elif isinstance(t, ast.Attribute):
                o = self.ev(t.value, frame)
                if isinstance(o, VObj):
                    o.fields.pop(self.mangle(t.attr, frame), None)
                else:
                    raise Unsupported("del attribute")
            else:
                raise Unsupported("del target")

    def ex_Assert(self, st, frame):
        c = self.truth(self.ev(st.test, frame), sym=True)
        hook = getattr(self, "assert_hook", None)
        if hook is not None:
            hook(self, st, frame, c)
            return
        if not self.branch(c):
            raise PyRaise(self.make_exc("AssertionError"))

    def ex_Raise(self, st, frame):
        if st.exc is None:
            cur = getattr(frame, "handling", None)
            if cur is None:
                raise Unsupported("bare raise outside handler")
            raise PyRaise(cur)
        e = self.ev(st.exc, frame)
        if isinstance(e, VClass):
            e = self.call(e, [], {}, frame)
        if st.cause is not None:
            self.ev(st.cause, frame)
        raise PyRaise(e)

    def ex_If(self, st, frame):
        if self.truth(self.ev(st.test, frame)):
            self.ex_block(st.body, frame)
        else:
            self.ex_block(st.orelse, frame)

    def ex_While(self, st, frame):
        frame.loop_ordinal += 1
        spec = self.loop_spec_for(frame, st)
        if spec is not None:
            return spec.run_while(self, st, frame)
        n = 0
        while self.truth(self.ev(st.test, frame)):
            n += 1
            if n > self.max_unroll:
                raise Unsupported("while loop without contract exceeds unroll budget (line %d)" % st.lineno)
            try:
                self.ex_block(st.body, frame)
            except _Break:
                return
            except _Continue:
                continue
        self.ex_block(st.orelse, frame)

    def loop_spec_for(self, frame, st):
        qn = frame.func.qualname() if frame.func is not None else "<module>"
        return self.loop_specs.get((qn, st.lineno - (frame.func.node.lineno if frame.func else 0))) \
            or self.loop_specs.get((qn, "#%d" % frame.loop_ordinal))

    def ex_For(self, st, frame):
        frame.loop_ordinal += 1
        spec = self.loop_spec_for(frame, st)
        it = self.ev(st.iter, frame)
        if spec is not None:
            return spec.run_for(self, st, frame, it)
        items = self.iterate(it)
        broke = False
        for x in items:
            self.assign(st.target, x, frame)
            try:
                self.ex_block(st.body, frame)
            except _Break:
                broke = True
                break
            except _Continue:
                continue
        if not broke:
            self.ex_block(st.orelse, frame)

    def ex_With(self, st, frame):
        exits = []
        for item in st.items:
            ctx = self.ev(item.context_expr, frame)
            enter = self.getattr(ctx, "__enter__", frame)
            val = self.call(enter, [], {}, frame)
            if item.optional_vars is not None:
                self.assign(item.optional_vars, val, frame)
            exits.append(ctx)
        try:
            self.ex_block(st.body, frame)
        except PyRaise as r:
            suppress = False
            for ctx in reversed(exits):
                ex = self.getattr(ctx, "__exit__", frame)
                if self.truth(self.call(ex, [r.exc.cls if isinstance(r.exc, VObj) else None, r.exc, None], {}, frame)):
                    suppress = True
            if not suppress:
                raise
            return
        except (_Return, _Break, _Continue):
            for ctx in reversed(exits):
                self.call(self.getattr(ctx, "__exit__", frame), [None, None, None], {}, frame)
            raise
        for ctx in reversed(exits):
            self.call(self.getattr(ctx, "__exit__", frame), [None, None, None], {}, frame)

    def ex_Try(self, st, frame):
        try:
            try:
                self.ex_block(st.body, frame)
            except PyRaise as r:
                handled = False
                for h in st.handlers:
                    if self.exc_matches(r.exc, h, frame):
                        handled = True
                        if h.name:
                            frame.locals[h.name] = r.exc
                        old = getattr(frame, "handling", None)
                        frame.handling = r.exc
                        try:
                            self.ex_block(h.body, frame)
                        finally:
                            frame.handling = old
                        break
                if not handled:
                    raise
            else:
                self.ex_block(st.orelse, frame)
        finally:
            # NB: a Python-level `finally` here runs for every interpreter-level exception as
            # well, including PathEnd/Unsupported; executing program code then is harmless
            # because those abort the path anyway -- but skip it to avoid double effects.
            import sys
            et = sys.exc_info()[0]
            if st.finalbody and (et is None or issubclass(et, (PyRaise, _Return, _Break, _Continue))):
                self.ex_block(st.finalbody, frame)

    def exc_matches(self, exc, handler, frame):
        if handler.type is None:
            return True
        t = self.ev(handler.type, frame)
        ts = list(t) if isinstance(t, tuple) else (t.items if isinstance(t, VList) else [t])
        for c in ts:
            if not isinstance(c, VClass):
                raise Unsupported("except clause with non-class %r" % (c,))
            if self.isinstance_(exc, c) is True:
                return True
        return False

    # ------------------------------------------------------------------ assignment
    def mangle(self, attr, frame):
        if attr.startswith("__") and not attr.endswith("__"):
            cls = frame.cls
            fr = frame
            while cls is None and fr is not None:
                cls = fr.cls
                fr = fr.closure
            if cls is not None:
                return "_" + cls.name.lstrip("_") + attr
        return attr

    def assign(self, target, value, frame):
        if isinstance(target, ast.Name):
            fr = frame
            if target.id in getattr(frame, "nonlocal_decl", ()):
                fr = frame.closure
                while fr is not None and target.id not in fr.locals:
                    fr = fr.closure
                fr = fr or frame
            if target.id in frame.globals_decl:
                frame.module.globals[target.id] = value
                return
            fr.locals[target.id] = value
        elif isinstance(target, (ast.Tuple, ast.List)):
            items = self.iterate(value)
            star = [i for i, e in enumerate(target.elts) if isinstance(e, ast.Starred)]
            if star:
                i = star[0]
                n_after = len(target.elts) - i - 1
                if len(items) < len(target.elts) - 1:
                    raise PyRaise(self.make_exc("ValueError", "not enough values to unpack"))
                for t, v in zip(target.elts[:i], items[:i]):
                    self.assign(t, v, frame)
                self.assign(target.elts[i].value, VList(items[i:len(items) - n_after]), frame)
                for t, v in zip(target.elts[i + 1:], items[len(items) - n_after:]):
                    self.assign(t, v, frame)
                return
            if len(items) != len(target.elts):
                raise PyRaise(self.make_exc("ValueError", "unpack"))
            for t, v in zip(target.elts, items):
                self.assign(t, v, frame)
        elif isinstance(target, ast.Attribute):
            o = self.ev(target.value, frame)
            self.setattr(o, self.mangle(target.attr, frame), value)
        elif isinstance(target, ast.Subscript):
            o = self.ev(target.value, frame)
            ops.setitem(self, o, self.ev_slice(target.slice, frame), value)
        else:
            raise Unsupported("assignment target %s" % type(target).__name__)

    def setattr(self, o, name, value):
        if isinstance(o, VObj):
            hook = getattr(self, "setattr_hook", None)
            if hook is not None:
                hook(self, o, name, value)
            o.fields[name] = value
        elif isinstance(o, Ext):
            o.sym_setattr(self, name, value)
        elif isinstance(o, VFunc):
            o.attrs[name] = value
        elif isinstance(o, VClass):
            o.attrs[name] = value
        elif isinstance(o, VModule):
            o.globals[name] = value
        else:
            raise Unsupported("setattr on %r" % type(o).__name__)

    # ------------------------------------------------------------------ attribute access
    def getattr(self, o, name, frame=None, default=ops.MISSING):
        try:
            return self._getattr(o, name, frame)
        except PyRaise as r:
            if default is not ops.MISSING and isinstance(r.exc, VObj) and r.exc.cls.name == "AttributeError":
                return default
            raise

    def _getattr(self, o, name, frame):
        if isinstance(o, VObj):
            if name in o.fields:
                return o.fields[name]
            if name == "__class__":
                return o.cls
            if name == "__dict__":
                return ops.ObjDictView(o)
            v, owner = o.cls.lookup(name)
            if v is not None:
                if isinstance(v, VFunc):
                    if v.kind == "property":
                        return self.call_function(v, [o], {})
                    if v.kind == "staticmethod":
                        return v
                    if v.kind == "classmethod":
                        return VBound(v, o.cls)
                    return VBound(v, o)
                if callable(v) and getattr(v, "_pyvc_method", False):
                    return VBound(v, o)
                return v
            hook = getattr(o.cls, "getattr_hook", None)
            if hook is not None:
                return hook(self, o, name)
            if any(c.node is None and c.name not in ("object",) for c in o.cls.mro()) and \
                    not getattr(o.cls, "closed", False):
                ext = self.ext_base_attr(o, name)
                if ext is not ops.MISSING:
                    return ext
            raise PyRaise(self.make_exc("AttributeError", name))
        if isinstance(o, Ext):
            return o.sym_getattr(self, name)
        if isinstance(o, VModule):
            try:
                return self.module_global(o, name)
            except KeyError:
                raise PyRaise(self.make_exc("AttributeError", name))
        if isinstance(o, VClass):
            v, owner = o.lookup(name)
            if v is not None:
                if isinstance(v, VFunc) and v.kind == "classmethod":
                    return VBound(v, o)
                return v
            if name == "__name__":
                return o.name
            if name == "__new__":
                from .values import stub as _stub
                return _stub(lambda eng, cls, *a, **k: VObj(cls))
            raise PyRaise(self.make_exc("AttributeError", name))
        if isinstance(o, VFunc):
            if name in o.attrs:
                return o.attrs[name]
            if name == "__name__":
                return o.name
            raise PyRaise(self.make_exc("AttributeError", name))
        if isinstance(o, VSlice) and name in ("start", "stop", "step"):
            return getattr(o, name)
        return ops.builtin_method(self, o, name)

    def ext_base_attr(self, o, name):
        return ops.MISSING

    # ------------------------------------------------------------------ calls
    def call(self, f, args, kwargs, frame=None):
        if isinstance(f, VBound):
            if isinstance(f.func, VFunc):
                return self.call_function(f.func, [f.self_obj] + list(args), kwargs)
            return f.func(self, f.self_obj, *args, **kwargs)
        if isinstance(f, VFunc):
            return self.call_function(f, list(args), kwargs)
        if isinstance(f, VClass):
            return self.instantiate(f, args, kwargs)
        if isinstance(f, Ext):
            return f.sym_call(self, args, kwargs)
        if callable(f) and getattr(f, "_pyvc_stub", False):
            return f(self, *args, **kwargs)
        raise Unsupported("call of %r" % (f,))

    def instantiate(self, cls, args, kwargs):
        ctor = getattr(cls, "constructor", None)
        if ctor is not None:
            return ctor(self, cls, args, kwargs)
        if cls.name in ops.TYPE_CONSTRUCTORS and cls.node is None:
            return ops.TYPE_CONSTRUCTORS[cls.name](self, *args, **kwargs)
        o = VObj(cls)
        init, owner = cls.lookup("__init__")
        if init is not None:
            self.call(VBound(init, o) if not isinstance(init, VFunc) else VBound(init, o), args, kwargs)
        elif any(c.name in ("Exception", "BaseException") for c in cls.mro()):
            o.fields["args"] = tuple(args)
        elif args or kwargs:
            if all(c.node is not None or c.name == "object" for c in cls.mro()):
                raise PyRaise(self.make_exc("TypeError", "takes no arguments"))
            raise Unsupported("constructor of external base of %s" % cls.name)
        return o

    def call_function(self, f, args, kwargs, bypass_contract=False):
        qn = f.qualname()
        contract = None if bypass_contract else self.call_contracts.get(qn)
        if contract is not None:
            return contract(self, args, kwargs)
        if f.kind.startswith("decorated:"):
            raise Unsupported("decorated function %s" % qn)
        if getattr(f, "memoized", False) and not getattr(f, "_in_memo_call", False):
            def keyof(v):
                if isinstance(v, (str, int, float, bool, type(None))):
                    return ("v", v)
                lab = getattr(v, "label", None)
                if isinstance(lab, str):
                    return ("label", type(v).__name__, lab)
                return ("id", id(v))
            key = (tuple(keyof(a) for a in args), tuple(sorted((k, keyof(v)) for k, v in kwargs.items())))
            memo = f.__dict__.setdefault("_memo", {})
            if key in memo:
                return memo[key]
            f._in_memo_call = True
            try:
                r = self.call_function(f, args, kwargs, bypass_contract=True)
            finally:
                f._in_memo_call = False
            memo[key] = r
            return r
        self.depth += 1
        if self.depth > self.max_depth:
            self.depth -= 1
            raise Unsupported("call depth exceeded at %s" % qn)
        try:
            node = f.node
            fr = Frame(f, {}, f.module, f.closure, f.cls or getattr(f, "defining_cls", None))
            self.bind_args(f, node.args, args, kwargs, fr)
            if isinstance(node, ast.Lambda):
                return self.ev(node.body, fr)
            if _has_yield(node):
                fr.yielded = []
                try:
                    self.ex_block(node.body, fr)
                except _Return:
                    pass
                self.abstraction("generator %s evaluated eagerly" % qn)
                return VList(fr.yielded)
            try:
                self.ex_block(node.body, fr)
            except _Return as r:
                return r.value
            return None
        finally:
            self.depth -= 1

    def bind_args(self, f, a, args, kwargs, fr):
        params = [p.arg for p in a.posonlyargs + a.args]
        defaults = a.defaults
        kwargs = dict(kwargs)
        n = len(params)
        if len(args) > n and a.vararg is None:
            raise PyRaise(self.make_exc("TypeError", "too many positional arguments for %s" % f.name))
        for i, p in enumerate(params):
            if i < len(args):
                fr.locals[p] = args[i]
            elif p in kwargs:
                fr.locals[p] = kwargs.pop(p)
            else:
                di = i - (n - len(defaults))
                if di >= 0:
                    dfr = Frame(None, {}, f.module, f.closure, f.cls)
                    fr.locals[p] = self.ev(defaults[di], dfr)
                else:
                    raise PyRaise(self.make_exc("TypeError", "missing argument %s of %s" % (p, f.name)))
        if a.vararg is not None:
            fr.locals[a.vararg.arg] = tuple(args[n:])
        for p, d in zip(a.kwonlyargs, a.kw_defaults):
            if p.arg in kwargs:
                fr.locals[p.arg] = kwargs.pop(p.arg)
            elif d is not None:
                fr.locals[p.arg] = self.ev(d, Frame(None, {}, f.module, f.closure, f.cls))
            else:
                raise PyRaise(self.make_exc("TypeError", "missing kw-only %s" % p.arg))
        if a.kwarg is not None:
            fr.locals[a.kwarg.arg] = VDict(list(kwargs.items()))
        elif kwargs:
            raise PyRaise(self.make_exc("TypeError", "unexpected keyword %s" % list(kwargs)))

    # ------------------------------------------------------------------ expressions
    def ev(self, e, frame):
        m = getattr(self, "ev_" + type(e).__name__, None)
        if m is None:
            raise Unsupported("expression %s at line %d" % (type(e).__name__, getattr(e, "lineno", 0)))
        return m(e, frame)

    def ev_Constant(self, e, frame):
        return e.value

    def ev_Name(self, e, frame):
        return self.lookup(e.id, frame)

    def ev_Attribute(self, e, frame):
        o = self.ev(e.value, frame)
        return self.getattr(o, self.mangle(e.attr, frame), frame)

    def ev_Tuple(self, e, frame):
        return tuple(self.ev_elts(e.elts, frame))

    def ev_List(self, e, frame):
        return VList(self.ev_elts(e.elts, frame))

    def ev_Set(self, e, frame):
        s = VSet()
        for v in self.ev_elts(e.elts, frame):
            ops.set_add(self, s, v)
        return s

    def ev_elts(self, elts, frame):
        out = []
        for x in elts:
            if isinstance(x, ast.Starred):
                out.extend(self.iterate(self.ev(x.value, frame)))
            else:
                out.append(self.ev(x, frame))
        return out

    def ev_Dict(self, e, frame):
        d = VDict()
        for k, v in zip(e.keys, e.values):
            if k is None:
                src = self.ev(v, frame)
                for kk in self.iterate(src):
                    ops.setitem(self, d, kk, ops.getitem(self, src, kk))
            else:
                ops.setitem(self, d, self.ev(k, frame), self.ev(v, frame))
        return d

    def ev_JoinedStr(self, e, frame):
        parts = []
        for v in e.values:
            if isinstance(v, ast.Constant):
                parts.append(v.value)
            else:
                x = self.ev(v.value, frame)
                parts.append(ops.to_str(self, x, spec=v.format_spec, conv=v.conversion))
        return ops.str_concat(self, parts)

    def ev_UnaryOp(self, e, frame):
        v = self.ev(e.operand, frame)
        if isinstance(e.op, ast.Not):
            t = self.truth(v, sym=True)
            return (not t) if isinstance(t, bool) else z3.Not(t)
        return ops.unop(self, type(e.op).__name__, v)

    def ev_BinOp(self, e, frame):
        return ops.binop(self, type(e.op).__name__, self.ev(e.left, frame), self.ev(e.right, frame))

    def ev_BoolOp(self, e, frame):
        # short-circuit with forking; the value of the expression is the deciding operand
        is_and = isinstance(e.op, ast.And)
        v = None
        for i, sub in enumerate(e.values):
            v = self.ev(sub, frame)
            if i == len(e.values) - 1:
                return v
            t = self.truth(v)
            if is_and and not t:
                return v if not is_sym(v) else False
            if not is_and and t:
                return v if not is_sym(v) else True
        return v

    def ev_IfExp(self, e, frame):
        if self.truth(self.ev(e.test, frame)):
            return self.ev(e.body, frame)
        return self.ev(e.orelse, frame)

    def ev_Compare(self, e, frame):
        left = self.ev(e.left, frame)
        result = True
        for op, comp in zip(e.ops, e.comparators):
            right = self.ev(comp, frame)
            r = ops.compare(self, type(op).__name__, left, right)
            if len(e.ops) == 1:
                return r
            if not self.truth(r):
                return False
            left = right
        return result

    def ev_Call(self, e, frame):
        # super() support
        if isinstance(e.func, ast.Name) and e.func.id == "locals" and not e.args:
            d = VDict([(k, v) for k, v in frame.locals.items()])
            return d
        if isinstance(e.func, ast.Name) and e.func.id == "super":
            return ops.SuperProxy(frame.locals.get("self") or list(frame.locals.values())[0], frame.cls)
        f = self.ev(e.func, frame)
        args = []
        for a in e.args:
            if isinstance(a, ast.Starred):
                args.extend(self.iterate(self.ev(a.value, frame)))
            else:
                args.append(self.ev(a, frame))
        kwargs = {}
        for k in e.keywords:
            if k.arg is None:
                d = self.ev(k.value, frame)
                for kk in self.iterate(d):
                    kwargs[kk] = ops.getitem(self, d, kk)
            else:
                kwargs[k.arg] = self.ev(k.value, frame)
        self.cur_call_node = e
        return self.call(f, args, kwargs, frame)

    def ev_Lambda(self, e, frame):
        f = VFunc(e, frame.module, frame, None, "<lambda>")
        f.defining_cls = frame.cls
        return f

    def ev_Subscript(self, e, frame):
        o = self.ev(e.value, frame)
        return ops.getitem(self, o, self.ev_slice(e.slice, frame))

    def ev_slice(self, s, frame):
        if isinstance(s, ast.Slice):
            return VSlice(self.ev(s.lower, frame) if s.lower else None,
                          self.ev(s.upper, frame) if s.upper else None,
                          self.ev(s.step, frame) if s.step else None)
        if isinstance(s, ast.Tuple):
            return tuple(self.ev_slice(x, frame) for x in s.elts)
        return self.ev(s, frame)

    def ev_Slice(self, e, frame):
        return self.ev_slice(e, frame)

    def ev_Starred(self, e, frame):
        raise Unsupported("starred expression")

    def ev_Yield(self, e, frame):
        fr = frame
        while fr is not None and not hasattr(fr, "yielded"):
            fr = fr.closure
        if fr is None:
            raise Unsupported("yield outside generator")
        fr.yielded.append(self.ev(e.value, frame) if e.value else None)
        return None

    def _comp(self, gens, frame, emit):
        def rec(i, fr):
            if i == len(gens):
                emit(fr)
                return
            g = gens[i]
            for x in self.iterate(self.ev(g.iter, fr)):
                self.assign(g.target, x, fr)
                if all(self.truth(self.ev(c, fr)) for c in g.ifs):
                    rec(i + 1, fr)
        fr = Frame(frame.func, {}, frame.module, frame, frame.cls)
        rec(0, fr)

    def ev_ListComp(self, e, frame):
        out = []
        self._comp(e.generators, frame, lambda fr: out.append(self.ev(e.elt, fr)))
        return VList(out)

    def ev_GeneratorExp(self, e, frame):
        return self.ev_ListComp(e, frame)

    def ev_SetComp(self, e, frame):
        s = VSet()
        self._comp(e.generators, frame, lambda fr: ops.set_add(self, s, self.ev(e.elt, fr)))
        return s

    def ev_DictComp(self, e, frame):
        d = VDict()
        self._comp(e.generators, frame,
                   lambda fr: ops.setitem(self, d, self.ev(e.key, fr), self.ev(e.value, fr)))
        return d

    # ------------------------------------------------------------------ helpers
    def truth(self, v, sym=False):
        """Python truthiness.  sym=True returns a z3 Bool (or bool) without forking."""
        t = ops.truth_expr(self, v)
        if sym:
            return t
        return self.branch(t)

    def iterate(self, v):
        return ops.iterate(self, v)

    def isinstance_(self, v, cls):
        return ops.isinstance_(self, v, cls)

    def make_exc(self, name, *args):
        from .engine import make_exc
        return make_exc(name, *args)


_MUTATORS = {"append", "extend", "insert", "pop", "remove", "clear", "update", "setdefault", "add", "discard",
             "popitem", "sort", "reverse", "appendleft"}


def _mutated_globals(tree):
    """module-level names that some function of the module mutates (subscript/attribute stores,
    mutating method calls, `global` rebinding, augmented assignment): their content at call entry
    depends on the call history"""
    top = set()
    for st in tree.body:
        if isinstance(st, (ast.Assign, ast.AnnAssign)):
            for t in (st.targets if isinstance(st, ast.Assign) else [st.target]):
                if isinstance(t, ast.Name):
                    top.add(t.id)
    out = set()
    for fn in ast.walk(tree):
        if not isinstance(fn, (ast.FunctionDef, ast.AsyncFunctionDef)):
            continue
        local = {a.arg for a in fn.args.args + fn.args.kwonlyargs}
        declared_global = set()
        for n in ast.walk(fn):
            if isinstance(n, ast.Global):
                declared_global.update(n.names)
        for n in ast.walk(fn):
            base = None
            if isinstance(n, (ast.Subscript, ast.Attribute)) and isinstance(n.ctx, (ast.Store, ast.Del)):
                base = n.value
            elif isinstance(n, ast.Call) and isinstance(n.func, ast.Attribute) and n.func.attr in _MUTATORS:
                base = n.func.value
            elif isinstance(n, ast.AugAssign):
                base = n.target if isinstance(n.target, ast.Name) else getattr(n.target, "value", None)
            elif isinstance(n, ast.Name) and isinstance(n.ctx, ast.Store) and n.id in declared_global:
                out.add(n.id)
            while isinstance(base, (ast.Subscript, ast.Attribute)):
                base = base.value
            if isinstance(base, ast.Name) and base.id in top and (base.id not in local or base.id in declared_global):
                # a local of the same name shadows the global only if it is assigned in the function
                assigned = any(isinstance(x, ast.Name) and isinstance(x.ctx, ast.Store) and x.id == base.id for x in ast.walk(fn))
                if not assigned or base.id in declared_global:
                    out.add(base.id)
    return out


def _mangle(clsname, attr):
    if attr.startswith("__") and not attr.endswith("__"):
        return "_" + clsname.lstrip("_") + attr
    return attr


def _load(target):
    import copy
    t = copy.copy(target)
    t.ctx = ast.Load()
    return t


def _has_yield(node):
    for n in ast.walk(node):
        if isinstance(n, (ast.Yield, ast.YieldFrom)):
            # ignore yields of nested functions
            return _owns(node, n)
    return False


def _owns(fn, target):
    stack = list(ast.iter_child_nodes(fn))
    while stack:
        n = stack.pop()
        if n is target:
            return True
        if isinstance(n, (ast.FunctionDef, ast.Lambda)):
            continue
        stack.extend(ast.iter_child_nodes(n))
    return False
