"""C07 replay / bounded stand-in: generated component hierarchies are written as Modelica text, parsed and flattened
by the real code, and compared with an independent reference flattening computed from the generator's own
description (variables: dotted path -> base type, prefixes, dimensions; equations with renamed references)."""
import json
import logging
import sys

import numpy as np

ALIASES = {"Volt": "Real", "Count": "Integer", "Flag": "Boolean"}
PREFIXES = ["", "", "", "parameter", "constant", "discrete", "input", "output"]


class Cls:
    def __init__(self, name):
        self.name = name
        self.vars = []        # (name, declared type, prefix, dim or None)
        self.comps = []       # (name, class key)
        self.extends = []     # class keys
        self.eqs = []         # (lhs path, [rhs paths])
        self.nested = []      # class keys defined inside this class
        self.where = None     # enclosing class key or None


def gen_library(rng, depth):
    """returns (dict key -> Cls, top key).  Keys are dotted full names."""
    lib = {}
    order = []

    def new(name, where=None):
        key = (where + "." if where else "") + name
        c = Cls(name)
        c.where = where
        lib[key] = c
        order.append(key)
        if where:
            lib[where].nested.append(key)
        return key

    counter = [0]

    def fill_vars(key, n):
        c = lib[key]
        for _ in range(n):
            counter[0] += 1
            t = str(rng.choice(["Real", "Real", "Integer", "Boolean", "Volt", "Count", "Flag"]))
            pf = str(rng.choice(PREFIXES))
            dim = int(rng.randint(2, 4)) if rng.rand() < 0.2 else None
            c.vars.append(("v%d" % counter[0], t, pf, dim))
    # package with a base class used from an enclosing scope
    pkg = new("Pk")
    base0 = new("Base0", pkg)
    fill_vars(base0, 2)
    levels = [[base0]]
    for d in range(depth):
        level = []
        for j in range(int(rng.randint(1, 3))):
            where = pkg if rng.rand() < 0.5 else None
            k = new("L%d_%d" % (d, j), where)
            fill_vars(k, int(rng.randint(1, 4)))
            c = lib[k]
            pool = [x for lv in levels for x in lv]
            # extends: chains, multiple extends, extends of a class of the enclosing package
            for b in rng.permutation(pool)[:int(rng.randint(0, 3))]:
                b = str(b)
                if visible(lib, k, b) and b not in c.extends and not shares_names(lib, k, b):
                    c.extends.append(b)
            # components: several instances of the same class
            for i in range(int(rng.randint(0, 4))):
                b = str(rng.choice(pool))
                if visible(lib, k, b):
                    c.comps.append(("c%d_%d_%d" % (d, j, i), b))
            # a nested class definition used twice
            if rng.rand() < 0.4:
                counter[0] += 1
                loc = new("Loc%d" % counter[0], k)
                fill_vars(loc, 2)
                # the nested class may itself inherit (its instance class is extended when the enclosing class is instantiated, and
                # again per component: inherited equations must still appear once per component)
                if rng.rand() < 0.6:
                    b = str(rng.choice(pool))
                    if not shares_names(lib, loc, b):
                        lib[loc].extends.append(b)
                c.comps.append(("n%da" % counter[0], loc))
                c.comps.append(("n%db" % counter[0], loc))
            level.append(k)
        levels.append(level)
    top = new("Top")
    fill_vars(top, 2)
    for i, k in enumerate(levels[-1] + ([levels[-2][0]] if len(levels) > 2 else [])):
        lib[top].comps.append(("t%d" % i, k))
    if rng.rand() < 0.5 and len(levels) > 1:
        b = levels[1][0]
        if not shares_names(lib, top, b):
            lib[top].extends.append(b)
    # equations: own and sub-component variables
    for k in order:
        c = lib[k]
        paths = leaf_paths(lib, k)
        reals = [p for p, (t, pf, dim) in paths.items() if dim is None]
        if len(reals) >= 2:
            for _ in range(int(rng.randint(1, 3))):
                lhs = str(rng.choice(reals))
                rhs = [str(x) for x in rng.choice(reals, 2)]
                c.eqs.append((lhs, rhs))
    return lib, top


def visible(lib, user, used):
    """`used` can be named from `user` by its full dotted name (always true for top-level keys and package members)"""
    return True


def top_names(lib, key):
    """names declared in or inherited by a class (variables and components)"""
    c = lib[key]
    out = {v[0] for v in c.vars} | {x[0] for x in c.comps}
    for b in c.extends:
        out |= top_names(lib, b)
    return out


def shares_names(lib, a, b):
    """no diamonds and no redeclaration by name clash: the reference stays exact"""
    return bool(top_names(lib, a) & top_names(lib, b))


def leaf_paths(lib, key, seen=()):
    """reference flattening of one class: dotted path -> (base type, prefix, dim); nested input/output dropped"""
    c = lib[key]
    out = {}
    for b in c.extends:
        out.update(leaf_paths(lib, b))
    for n, t, pf, dim in c.vars:
        out[n] = (ALIASES.get(t, t), pf, dim)
    for n, k in c.comps:
        for p, (t, pf, dim) in leaf_paths(lib, k).items():
            out[n + "." + p] = (t, "" if pf in ("input", "output") else pf, dim)
    return out


def all_equations(lib, key, prefix=""):
    c = lib[key]
    out = []
    for b in c.extends:
        out += all_equations(lib, b, prefix)
    for n, k in c.comps:
        out += all_equations(lib, k, prefix + n + ".")
    for lhs, rhs in c.eqs:
        out.append((prefix + lhs, [prefix + r for r in rhs]))
    return out


def text(lib, top):
    lines = ["type %s = %s;" % kv for kv in ALIASES.items()]

    def emit(key, ind):
        c = lib[key]
        kind = "package" if c.name == "Pk" else "model"
        lines.append("%s%s %s" % (ind, kind, c.name))
        for n in c.nested:
            emit(n, ind + "  ")
        for b in c.extends:
            lines.append("%s  extends %s;" % (ind, b))
        for n, t, pf, dim in c.vars:
            lines.append("%s  %s%s %s%s;" % (ind, pf + " " if pf else "", t, n, "[%d]" % dim if dim else ""))
        for n, k in c.comps:
            # a class nested in this one is named by its simple name for the first instance (found through the instance tree,
            # where it is already an instance class) and by its full name for the second (found through the root)
            tname = lib[k].name if lib[k].where == key and n.endswith("a") else k
            lines.append("%s  %s %s;" % (ind, tname, n))
        if c.eqs:
            lines.append(ind + "equation")
            for lhs, rhs in c.eqs:
                lines.append("%s  %s = %s + %s;" % (ind, lhs, rhs[0], rhs[1]))
        lines.append("%send %s;" % (ind, c.name))
    for key in [k for k in lib if lib[k].where is None]:
        emit(key, "")
    return "\n".join(lines) + "\n"


def observed(flat):
    import pymoca.ast as ast
    vars_ = {}
    for name, s in flat.symbols.items():
        dims = [d.value for row in s.dimensions for d in row if getattr(d, "value", None) is not None]
        pf = [p for p in s.prefixes]
        vars_[name] = (s.type.name if isinstance(s.type, ast.ComponentRef) else "<%s>" % type(s.type).__name__, pf, dims, s.name)

    def ref(e):
        if isinstance(e, ast.ComponentRef):
            return e.name + ("." + ".".join(str(c) for c in e.child) if e.child else "")
        raise ValueError("unexpected %r" % (e,))
    eqs = []
    for eq in flat.equations:
        if isinstance(eq, ast.Equation) and isinstance(eq.left, ast.ComponentRef) and isinstance(eq.right, ast.Expression) and eq.right.operator == "+":
            eqs.append((ref(eq.left), [ref(o) for o in eq.right.operands]))
        else:
            eqs.append(("?", [repr(eq)]))
    return vars_, eqs


def judge(lib, top):
    import pymoca.ast as ast
    import pymoca.parser
    from pymoca.tree import flatten
    txt = text(lib, top)
    tree = pymoca.parser.parse(txt)
    if tree is None:
        raise RuntimeError("generated library does not parse")
    flat = flatten(tree, ast.ComponentRef(name=top)).classes[top]
    vars_, eqs = observed(flat)
    want = {}
    for p, (t, pf, dim) in leaf_paths(lib, top).items():
        want[p] = (t, [pf] if pf else [], [dim] if dim else [])
    # top-level variables keep input/output: leaf_paths only strips below components, as the property says
    if set(vars_) != set(want):
        return txt, "flat variables differ: missing %s, unexpected %s" % (sorted(set(want) - set(vars_))[:4], sorted(set(vars_) - set(want))[:4])
    for p in want:
        t, pf, dims, nm = vars_[p]
        if nm != p:
            return txt, "flat variable stored under %s is named %s" % (p, nm)
        if (t, pf, dims) != want[p]:
            return txt, "flat variable %s is (%s, %s, %s), expected %s" % (p, t, pf, dims, want[p])
    weqs = all_equations(lib, top)
    key = lambda e: (e[0], tuple(e[1]))
    if sorted(map(key, eqs)) != sorted(map(key, weqs)):
        extra = [e for e in map(key, eqs) if e not in set(map(key, weqs))]
        lack = [e for e in map(key, weqs) if e not in set(map(key, eqs))]
        return txt, "flat equations differ: unexpected %s, missing %s (flat has %d, reference %d)" % (extra[:2], lack[:2], len(eqs), len(weqs))
    return txt, None


def main():
    logging.disable(logging.CRITICAL)
    payload = json.load(sys.stdin)
    tier, seed = payload.get("tier", "quick"), int(payload.get("seed", 0) or 0)
    rng = np.random.RandomState(seed)
    n_cases = 600 if tier == "thorough" else 120
    failures, n, seen, nontrivial = [], 0, set(), 0
    for i in range(n_cases):
        depth = 1 + i % 4
        lib, top = gen_library(rng, depth)
        n += 1
        try:
            txt, bad = judge(lib, top)
        except BaseException as e:  # noqa
            txt, bad = text(lib, top), "%s: %s" % (type(e).__name__, str(e)[:300])
        if txt not in seen and len(leaf_paths(lib, top)) > 3:
            nontrivial += 1
        seen.add(txt)
        if bad:
            failures.append({"class": "hierarchy", "input": {"model": txt, "flatten": top}, "observed": bad, "expected": "the reference flattening of the generated hierarchy"})
            if payload.get("mode") != "bounded":
                break
    if payload.get("mode") == "bounded":
        print(json.dumps({"performed": True, "cases": n, "distinct_nontrivial": nontrivial, "failures": failures[:10],
                          "rule": "random libraries of depth 1-4: a package with a base class, per level 1-2 classes (in the package or at top level) with 1-3 variables (Real/Integer/Boolean or aliases Volt/Count/Flag; "
                                  "parameter/constant/discrete/input/output; arrays), 0-2 extends of earlier classes (chains, multiple, enclosing scope), 0-3 components of earlier classes (repeated instances), optional nested "
                                  "class (possibly extending an earlier class) used twice, 1-2 equations over own and sub-component variables; Top instantiates the last level. Compared: set of flat names, stored name, base type, prefixes (input/output only on "
                                  "top-level components), dimensions, multiset of renamed equations. non-trivial = distinct text with more than 3 flat variables",
                          "bound": "%d libraries, depth <= 4" % n}))
    else:
        f = failures[0] if failures else None
        print(json.dumps({"performed": True, "reproduces": f is not None, "input": f and f["input"], "observed": f and f["observed"],
                          "expected": f and f["expected"], "input_class": "hierarchy"}))


if __name__ == "__main__":
    main()
