"""Shared helpers: the REAL pymoca.ast node classes instantiated inside the symbolic executor."""
from pyvc.values import Ext, NoOp, Unsupported, VClass, VDict, VList, VObj, stub

from .api_common import CollectionsStub, ModuleStub, itertools_module


def base_modules(eng):
    typing = ModuleStub("typing", {})
    typing.attrs.update({k: typing for k in ("Dict", "List", "Type", "Union", "Iterable", "Optional", "Tuple", "Set", "Any", "IO", "Generator")})
    eng.ext_modules.update({
        "copy": ModuleStub("copy", {}), "json": ModuleStub("json", {}), "collections": CollectionsStub(),
        "enum": ModuleStub("enum", {"Enum": VClass("Enum")}), "typing": typing,
        "logging": ModuleStub("logging", {"getLogger": stub(lambda eng, *a: NoOp())}),
        "sys": ModuleStub("sys", {"maxsize": 2 ** 63 - 1}), "os": ModuleStub("os", {"path": ModuleStub("os.path", {
            "dirname": stub(lambda eng, p: "."), "realpath": stub(lambda eng, p: ".")})}),
        "numpy": ModuleStub("numpy", {}), "abc": ModuleStub("abc", {"ABC": VClass("ABC"), "abstractmethod": None}),
        "itertools": itertools_module(), "re": ModuleStub("re", {}),
    })
    eng.call_contracts.clear()
    eng.loop_specs.clear()


class AstFactory:
    def __init__(self, eng):
        self.eng = eng
        self.mod = eng.load_module("pymoca.ast")

    def cls(self, name):
        return self.eng.module_global(self.mod, name)

    def new(self, cls_name, **kw):
        return self.eng.call(self.cls(cls_name), [], kw)

    def ref(self, name, **kw):
        return self.new("ComponentRef", name=name, **kw)

    def prim(self, value):
        return self.new("Primary", value=value)

    def expr(self, op, *operands):
        return self.new("Expression", operator=op, operands=VList(list(operands)))
