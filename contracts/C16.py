"""C16 -- alias elimination merges variable metadata soundly.

Fragment under contract (real source, located structurally): in Model._simplify_once, inside
`if options["detect_aliases"]:`, the statement `for canonical, aliases in self.alias_relation:`
(attribute merging and elimination of alias variables).
Symbolic: own and alias bounds (each either the default infinity or any finite real), nominals,
fixed flags, start values (default or explicit real), whether an alias was already handled in an
earlier pass.  Enumerated: number of aliases of the canonical variable (1..3) and their signs.
"""
import ast
import math

import z3

from pyvc import ops
from pyvc.values import Ext, NoOp, PyRaise, Unsupported, VBound, VClass, VDict, VList, VObj, VSet, stub

MOD = "pymoca.backends.casadi.model"
INF = float("inf")


def selector(fn):
    """the alias-elimination loop inside the detect_aliases block"""
    def is_opt(test, name):
        return (isinstance(test, ast.Subscript) and isinstance(test.value, ast.Name) and test.value.id == "options"
                and isinstance(test.slice, ast.Constant) and test.slice.value == name)
    blk = next(n for n in ast.walk(fn) if isinstance(n, ast.If) and is_opt(n.test, "detect_aliases"))
    loop = next(n for n in blk.body if isinstance(n, ast.For) and isinstance(n.iter, ast.Attribute)
                and n.iter.attr == "alias_relation")
    return [loop]


# ---------------------------------------------------------------- extended reals (A1: +-inf are
# distinguished constants, finite values are mathematical reals)
class XR(Ext):
    """extended real: kind k in {-1: -inf, 0: finite, +1: +inf} (symbolic) and value v (used iff k == 0)"""
    type_names = ("float",)

    def __init__(self, k, v):
        self.k, self.v = k, v

    def sym_isinstance(self, eng, cls):
        return cls.name == "float"

    def sym_unop(self, eng, op):
        if op == "USub":
            return XR(-self.k, -self.v)
        if op == "UAdd":
            return self
        raise Unsupported("unary %s on a bound" % op)

    def sym_binop(self, eng, op, other, reflected):
        if op == "Mult" and isinstance(other, int) and other in (1, -1):
            return self if other == 1 else XR(-self.k, -self.v)
        raise Unsupported("operator %s on a bound" % op)

    def sym_eq(self, eng, other):
        return xeq(self, other)


def xr(v):
    if isinstance(v, XR):
        return v
    if isinstance(v, float) and math.isinf(v):
        return XR(z3.IntVal(1 if v > 0 else -1), z3.RealVal(0))
    return XR(z3.IntVal(0), _num(v))


def xle(a, b):
    a, b = xr(a), xr(b)
    return z3.Or(a.k < b.k, z3.And(a.k == b.k, z3.Or(a.k != 0, a.v <= b.v)))


def xmax(a, b):
    if not isinstance(a, XR) and not isinstance(b, XR):
        a, b = _num(a), _num(b)
        return z3.If(a >= b, a, b)
    a, b = xr(a), xr(b)
    c = xle(a, b)
    return XR(z3.If(c, b.k, a.k), z3.If(c, b.v, a.v))


def xmin(a, b):
    if not isinstance(a, XR) and not isinstance(b, XR):
        a, b = _num(a), _num(b)
        return z3.If(a <= b, a, b)
    a, b = xr(a), xr(b)
    c = xle(a, b)
    return XR(z3.If(c, a.k, b.k), z3.If(c, a.v, b.v))


def _num(v):
    if isinstance(v, bool):
        return z3.RealVal(1 if v else 0)
    if isinstance(v, (int, float)):
        return z3.RealVal(repr(float(v)))
    if ops.is_bool_sort(v):
        return z3.If(v, z3.RealVal(1), z3.RealVal(0))
    if ops.is_int_sort(v):
        return z3.ToReal(v)
    return v


def xneg(v):
    v = xr(v)
    return XR(-v.k, -v.v)


def xeq(a, b):
    if not isinstance(a, XR) and not isinstance(b, XR):
        return _num(a) == _num(b)
    a, b = xr(a), xr(b)
    return z3.And(a.k == b.k, z3.Or(a.k != 0, a.v == b.v))


def xite(c, a, b):
    a, b = xr(a), xr(b)
    return XR(z3.If(c, a.k, b.k), z3.If(c, a.v, b.v))


class MX(Ext):
    type_names = ("MX",)

    def __init__(self, label, value=None):
        self.label, self.value = label, value

    def sym_getattr(self, eng, name):
        if name == "is_constant":
            return stub(lambda eng: self.value is not None)
        if name == "is_symbolic":
            return stub(lambda eng: self.value is None)
        if name == "name":
            return stub(lambda eng: self.label)
        raise Unsupported("MX.%s" % name)

    def sym_binop(self, eng, op, other, reflected):
        if op == "Mult":
            return MX("(%r*%s)" % (other, self.label), None if self.value is None else other * self.value if not ops.is_sym(self.value) and not ops.is_sym(other) else None)
        if op in ("Eq", "NotEq"):
            return eng.fresh_bool("mxcmp")
        raise Unsupported("MX operator %s" % op)

    def sym_eq(self, eng, other):
        return eng.fresh_bool("mxeq")


class CasadiStub(Ext):
    def sym_getattr(self, eng, name):
        if name == "fmax":
            return stub(lambda eng, a, b: xmax(_unbool(a), _unbool(b)))
        if name == "fmin":
            return stub(lambda eng, a, b: xmin(_unbool(a), _unbool(b)))
        if name == "MX":
            cls = VClass("MX")
            cls.constructor = lambda eng, c, a, k: a[0] if isinstance(a[0], MX) else MX("const", a[0])
            return cls
        raise Unsupported("casadi.%s" % name)


def _unbool(v):
    if isinstance(v, bool):
        return 1.0 if v else 0.0
    if ops.is_bool_sort(v):
        return z3.If(v, z3.RealVal(1), z3.RealVal(0))
    if isinstance(v, int):
        return float(v)
    return v


class NumpyStub(Ext):
    def sym_getattr(self, eng, name):
        if name == "isinf":
            return stub(lambda eng, x: (x.k != 0) if isinstance(x, XR) else (isinstance(x, float) and math.isinf(x)))
        if name == "isnan":
            return stub(lambda eng, x: isinstance(x, float) and x != x)
        if name in ("inf", "nan"):
            return float(name)
        raise Unsupported("numpy.%s" % name)


class OldRelation(Ext):
    """old_alias_relation: only `handled before` matters"""

    def __init__(self, handled):
        self.handled = handled

    def sym_getattr(self, eng, name):
        if name == "aliases":
            return stub(lambda eng, a: HandledProbe(self.handled.get(a.lstrip("-") if isinstance(a, str) else a, False)))
        if name == "canonical_variables":
            return VSet([])
        raise Unsupported("alias relation method %s" % name)


class HandledProbe(Ext):
    def __init__(self, h):
        self.h = h

    def sym_len(self, eng):
        return z3.If(self.h, z3.IntVal(2), z3.IntVal(1)) if ops.is_sym(self.h) else (2 if self.h else 1)


def bound(eng, label, default):
    """a bound: +-infinity or any finite real, symbolically"""
    k = eng.input(label + ".kind(-1:-inf,0:finite,1:+inf)", eng.fresh_int(label + "_k"))
    v = eng.input(label + ".value", eng.fresh_real(label))
    eng.assume(z3.And(k >= -1, k <= 1))
    return XR(k, v)


def make_var(eng, vcls, dvcls, name, explicit_start=None):
    v = VObj(vcls)
    v.fields.update({"symbol": MX(name), "python_type": VClass("float"), "aliases": VSet([]),
                     "value": float("nan"), "min": bound(eng, name + ".min", -INF), "max": bound(eng, name + ".max", INF),
                     "nominal": eng.input(name + ".nominal", eng.fresh_real(name + "_nom")),
                     "fixed": eng.input(name + ".fixed", eng.fresh_bool(name + "_fixed"))})
    eng.assume(v.fields["nominal"] >= 0)
    if eng.choice(2) == 0:
        v.fields["start"] = VObj(dvcls, {"value": 0})
        eng.input(name + ".start", "default")
        v.has_start = False
    else:
        v.fields["start"] = eng.input(name + ".start", eng.fresh_real(name + "_start"))
        v.has_start = True
    return v


SIGN_SHAPES = [[1], [-1], [1, -1], [-1, -1], [-1, 1, 1]]


def h_merge(eng):
    eng.call_contracts.clear()
    eng.loop_specs.clear()
    from contracts.api_common import ModuleStub, CollectionsStub
    typing = ModuleStub("typing", {})
    eng.ext_modules.update({"casadi": CasadiStub(), "numpy": NumpyStub(), "logging": ModuleStub("logging", {"getLogger": stub(lambda eng, *a: NoOp())}),
                            "itertools": ModuleStub("itertools", {}), "re": ModuleStub("re", {}), "sys": ModuleStub("sys", {"maxsize": 2 ** 63 - 1}),
                            "collections": CollectionsStub()})
    mod = eng.load_module(MOD)
    vcls = eng.module_global(mod, "Variable")
    dvcls = eng.module_global(mod, "_DefaultValue")
    signs = SIGN_SHAPES[eng.choice(len(SIGN_SHAPES))]
    eng.input("alias_signs", signs)
    canon = make_var(eng, vcls, dvcls, "c")
    al = [make_var(eng, vcls, dvcls, "a%d" % i) for i in range(len(signs))]
    handled = {"a%d" % i: eng.input("a%d.handled_in_previous_pass" % i, eng.fresh_bool("handled%d" % i)) for i in range(len(signs))}
    pre = {v.fields["symbol"].label: dict(v.fields) for v in [canon] + al}
    all_states = VDict([("c", canon)] + [("a%d" % i, a) for i, a in enumerate(al)])
    all_states.ordered = True
    alias_names = [("-" if s < 0 else "") + "a%d" % i for i, s in enumerate(signs)]
    selfobj = VObj(VClass("Model"), {"alias_relation": VList([("c", VSet(list(alias_names)))])})
    variables, values = VList(), VList()
    locals_ = {"self": selfobj, "all_states": all_states, "old_alias_relation": OldRelation(handled),
               "variables": variables, "values": values}
    try:
        eng.exec_fragment(MOD, "Model._simplify_once", selector, locals_, label="alias-attribute-merge")
    except PyRaise as e:
        eng.prove("merge.no_exception", False, exc=repr(e.exc))
        return
    eng.cover("merge.done")
    eng.prove("merge.no_exception", True)
    # ---------------- (P) expected values, over the aliases that are processed in this pass
    m, M, nom = pre["c"]["min"], pre["c"]["max"], pre["c"]["nominal"]
    fixed = pre["c"]["fixed"]
    start_explicit = canon.has_start
    start_val = pre["c"]["start"] if canon.has_start else None
    start_cond = []   # (condition that this alias supplies the start, value)
    for i, (s, a) in enumerate(zip(signs, al)):
        h = handled["a%d" % i]
        p = pre["a%d" % i]
        amin = p["min"] if s == 1 else xneg(p["max"])
        amax = p["max"] if s == 1 else xneg(p["min"])
        m = xite(h, m, xmax(m, amin))
        M = xite(h, M, xmin(M, amax))
        nom = z3.If(h, nom, xmax(nom, p["nominal"]))
        fixed = z3.Or(fixed, z3.And(z3.Not(h), p["fixed"]))
        if a.has_start:
            start_cond.append((z3.Not(h), p["start"] if s == 1 else -p["start"]))
    got = canon.fields
    eng.prove("merge.min_is_intersection", xeq(got["min"], m))
    eng.prove("merge.max_is_intersection", xeq(got["max"], M))
    eng.prove("merge.nominal_is_largest", _num(got["nominal"]) == nom)
    eng.prove("merge.fixed_if_any_fixed", (_num(_unbool(got["fixed"])) != 0) == fixed)
    gs = got["start"]
    if start_explicit:
        eng.prove("merge.own_start_kept", z3.BoolVal(not isinstance(gs, VObj)) if isinstance(gs, VObj) else _num(gs) == _num(start_val))
    else:
        # first processed alias with an explicit start supplies it (sign-adjusted), else default
        none_supplies = z3.And([z3.Not(c) for c, _ in start_cond]) if start_cond else z3.BoolVal(True)
        if isinstance(gs, VObj):
            eng.prove("merge.start_from_alias", none_supplies)
        else:
            exp = None
            for c, val in reversed(start_cond):
                exp = val if exp is None else z3.If(c, val, exp)
            eng.prove("merge.start_from_alias", z3.And(z3.Not(none_supplies), _num(gs) == exp) if exp is not None else False)
    # every processed alias is eliminated exactly once, bound to sign * canonical; handled ones stay
    for i, (s, a) in enumerate(zip(signs, al)):
        h = handled["a%d" % i]
        present = ops.contains_expr(eng, all_states, "a%d" % i)
        eng.prove("merge.processed_alias_removed_from_states", z3.BoolVal(bool(present)) == h)
        cnt = sum(1 for x in variables.items if x is a.fields["symbol"])
        eng.prove("merge.processed_alias_substituted_once", z3.If(h, z3.BoolVal(cnt == 0), z3.BoolVal(cnt == 1)))
        for x, val in zip(variables.items, values.items):
            if x is a.fields["symbol"]:
                want = "(%r*c)" % s
                eng.prove("merge.alias_bound_to_signed_canonical", z3.BoolVal(isinstance(val, MX) and val.label == want))
    eng.prove("merge.canonical_kept", z3.BoolVal(ops.contains_expr(eng, all_states, "c") is True))


MODEL = "pymoca.backends.casadi.model"


class DefaultInt(Ext):
    """an instance of model._DefaultValue (a subclass of int with value 0): 'no start value was set'"""
    type_names = ("_DefaultValue", "int")

    def sym_unop(self, eng, op):
        if op == "float":
            return 0.0
        if op == "int":
            return 0
        raise Unsupported("unop %s on _DefaultValue" % op)

    def sym_eq(self, eng, other):
        return other is self or (isinstance(other, (int, float)) and not isinstance(other, bool) and other == 0)


def h_start_sentinel_survives_expansion(eng):
    """The merge decides 'the canonical variable has no start of its own' by isinstance(start, _DefaultValue).  _simplify_once runs
    _expand_vectors BEFORE the alias merge (expand_vectors option): the elements of an array variable must inherit the array's
    attribute values AS THEY ARE -- in particular the _DefaultValue sentinel of an unset start stays a _DefaultValue, and an explicit
    start stays explicit -- or an element that becomes a canonical variable no longer takes its alias's start."""
    from . import C18
    C18.install(eng)
    np_ = eng.ext_modules["numpy"]
    np_.attrs["isfinite"] = stub(lambda eng, v: True)
    mm = eng.load_module(MODEL)
    cls = eng.module_global(mm, "Model")
    dv = eng.module_global(mm, "_DefaultValue")
    # _DefaultValue is a subclass of int: numpy.isscalar is true for it
    np_.attrs["isscalar"] = stub(lambda eng, v: isinstance(v, (int, float, bool, C18.ScalarVal, DefaultInt)))
    np_.attrs["isfinite"] = stub(lambda eng, v: isinstance(v, (int, float)) and v == v and abs(v) != float("inf"))
    dv.constructor = lambda eng, c, a, k: DefaultInt()
    f = eng.find_function(MODEL, "Model._expand_vectors")
    var_cls = eng.module_global(mm, "Variable")
    group = ["inputs", "states", "alg_states"][eng.choice(3)]
    explicit = bool(eng.choice(2))
    eng.input("group", group)
    eng.input("array_has_explicit_start", explicit)
    sentinel = DefaultInt()
    sym = C18.SymT("u", (3, 1), ((3,),))
    old = VObj(var_cls, {"symbol": sym, "python_type": eng.builtins["float"], "aliases": VSet([])})
    old.fields.update({"value": float("nan"), "min": -float("inf"), "max": 7.5, "nominal": 1, "fixed": False})
    old.fields["start"] = 2.5 if explicit else sentinel
    m = VObj(cls, {g: VList([]) for g in ("states", "der_states", "alg_states", "inputs", "parameters", "constants")})
    m.fields[group] = VList([old])
    m.fields.update({"equations": VList([]), "initial_equations": VList([]), "delay_arguments": VList([]), "delay_states": VList([]), "outputs": VList([])})
    cls.attrs["_substitute_metadata"] = C18._rec([])
    cls.attrs["_substitute_delay_arguments"] = C18._rec2()
    try:
        eng.call(VBound(f, m), [], {})
    except PyRaise as e:
        eng.prove("merge.start_default_sentinel_survives_vector_expansion", False, exc=repr(e.exc))
        return
    eng.cover("sentinel.done")
    new = m.fields[group].items
    ok = len(new) == 3
    for v in new:
        st = v.fields.get("start")
        is_default = isinstance(st, DefaultInt)
        ok = ok and (is_default if not explicit else (not is_default and st == 2.5))
    eng.prove("merge.start_default_sentinel_survives_vector_expansion", z3.BoolVal(bool(ok)), starts=[repr(v.fields.get("start")) for v in new])


HARNESSES = [("Model._simplify_once#alias-attribute-merge", h_merge), ("Model._expand_vectors keeps the unset-start sentinel", h_start_sentinel_survives_expansion)]
EXPECTED_COVER = {"merge.done", "sentinel.done"}
BOUNDED = True
LEVEL = "proof"
TRUSTED = ["pyvc VC generator", "z3 5.1.0", "ca.fmax / ca.fmin are max / min on (extended) reals; ca.MX(x).is_constant() for numbers",
           "AliasRelation.__iter__ yields (canonical, aliases) per class (C17); all_states maps every alias name to its Variable"]
ASSUMPTIONS = [
    "a canonical variable with 1..3 aliases, sign patterns enumerated ([+], [-], [+,-], [-,-], [-,+,+]); bounds are the default infinity or any finite real; nominals >= 0",
    "the start-conflict warning branch only logs (its MX comparisons are opaque)",
    "python_type propagation is not part of the statement and is not checked",
]
DROPPED = ["logger.warning text"]
EXPLANATION = "Fragment contract for the attribute-merging loop of alias elimination over symbolic reals with infinite defaults."
MANIFEST = {
    "category": "proof",
    "text": "The attribute-merging loop of alias elimination (extracted structurally from the real _simplify_once on every run) is executed symbolically for arbitrary real bounds (finite or default infinite), nominals, fixed flags, start values and 'already handled' flags, for canonical variables with 1-3 aliases of enumerated sign patterns: the resulting min/max are the intersection with min/max swapped and negated for negative aliases, nominal the largest, fixed iff any fixed, start kept or taken sign-adjusted from the first alias that has one; each processed alias is removed and substituted by sign*canonical exactly once. The step that runs before the merge under expand_vectors, _expand_vectors (whole function), is verified to hand the array's unset-start sentinel (_DefaultValue) and an explicit start to every element unchanged, so 'had no start of its own' means the same for array elements. A bounded replay checks the same on real models through simplify().",
    "note": "Fragment, not whole function: what precedes the loop (all_states total on alias names, old_alias_relation a copy) is assumed; alias counts and sign patterns enumerated; ca.fmax/fmin assumed to be max/min.",
    "technique": "contract-based deductive verification: structural fragment extraction + symbolic execution over reals with distinguished infinities, z3",
}
