"""C14 -- simplification preserves the DAE's solutions: soundness of each rewrite rule.

Fragments / nested functions of Model._simplify_once under contract (real source, located
structurally on every run):
  eliminate_constant_assignments block        x - c = 0  binds x := c, x + c = 0 binds x := -c (both operand orders)
  extract_assignment   (nested function)      every pattern: the recorded binding holds iff the equation holds
  factor_and_simplify  (nested function)      result = 0  <=>  equation = 0  (dropped constant factors non-zero)
  _detect_alias        (nested function)      fast path x -/+ y, slow path under the affine hypothesis
  _make_alias          (nested function)      sign bookkeeping; True iff exactly one alias was recorded
over the assumed algebra of MX nodes (contracts/mx_algebra.py): denote : term x env -> real.
Obligations are real-arithmetic formulas with the symbols' values universally quantified.
"""
import z3

from pyvc import ops
from pyvc.values import Ext, NoOp, PyRaise, Unsupported, VBound, VClass, VDict, VFunc, VList, VObj, VSet, stub

from . import mx_algebra as M
from .mx_algebra import E, const, denote, sym

MODEL = "pymoca.backends.casadi.model"


def variable(name):
    return VObj(VClass("Variable"), {"symbol": sym(name), "value": float("nan")})


def env_for(names):
    return {n: z3.Real("val_" + n) for n in names}


def opaque(eng, label):
    return E("opaque", value=eng.input(label, eng.fresh_real(label)))


# ------------------------------------------------------------------------------------------------
CONST_SHAPES = ["sym-alg", "sym-other", "x-c", "c-x", "x+c", "c+x", "s-c", "x-s", "x-y", "c-c", "x*c"]


def h_constant_assignment(eng):
    M.install(eng)
    shape = CONST_SHAPES[eng.choice(len(CONST_SHAPES))]
    eng.input("equation_shape", shape)
    c, c2 = const(eng.input("c", eng.fresh_real("c"))), const(eng.input("c2", eng.fresh_real("c2")))
    x, y, s = sym("a1"), sym("a2"), sym("s1")
    eq = {"sym-alg": x, "sym-other": s, "x-c": E("OP_SUB", x, c), "c-x": E("OP_SUB", c, x), "x+c": E("OP_ADD", x, c), "c+x": E("OP_ADD", c, x),
          "s-c": E("OP_SUB", s, c), "x-s": E("OP_SUB", x, s), "x-y": E("OP_SUB", x, y), "c-c": E("OP_SUB", c, c2), "x*c": E("OP_MUL", x, c)}[shape]
    va1, va2 = variable("a1"), variable("a2")
    model = M.new_model(eng, {"equations": VList([eq]), "alg_states": VList([va1, va2]), "constants": VList([])})
    opts = VDict([("eliminate_constant_assignments", True)])
    fr = eng.exec_fragment(MODEL, "Model._simplify_once", M.block_selector("eliminate_constant_assignments"),
                           {"self": model, "options": opts}, label="eliminate-constant-assignments")
    eng.cover("const.done")
    eqs, algs, consts = model.fields["equations"].items, model.fields["alg_states"].items, model.fields["constants"].items
    env = env_for(["a1", "a2", "s1"])
    if not eqs:
        ok = len(consts) == 1 and consts[0] is va1 and algs == [va2]
        eng.prove("const.dropped_equation_eliminates_exactly_its_variable", z3.BoolVal(bool(ok)))
        if ok:
            # (P) the recorded constant value holds in every solution of the dropped equation, and only there
            eng.prove("const.binding_equivalent_to_equation", (denote(eq, env) == 0) == (env["a1"] == denote(va1.fields["value"], env)),
                      recorded=repr(va1.fields["value"]))
    else:
        eng.prove("const.kept_equation_changes_nothing", z3.BoolVal(eqs == [eq] and algs == [va1, va2] and consts == []))
    should_drop = shape in ("sym-alg", "x-c", "c-x", "x+c", "c+x")
    eng.prove("const.pattern_coverage", z3.BoolVal((not eqs) == should_drop))


# ------------------------------------------------------------------------------------------------
class Pattern(Ext):
    def __init__(self, eng):
        self.eng, self.cache = eng, {}

    def sym_getattr(self, eng, name):
        if name == "match":
            def match(eng, nm):
                if nm not in self.cache:
                    self.cache[nm] = eng.input("regex_matches[%s]" % nm, eng.fresh_bool("m_" + nm))
                return self.cache[nm]
            return stub(match)
        raise Unsupported("pattern.%s" % name)


def prefix_until_def(option, fname):
    import ast

    def sel(fn):
        body = M.block_selector(option)(fn)
        out = []
        for st in body:
            out.append(st)
            if isinstance(st, ast.FunctionDef) and st.name == fname:
                return out
        raise KeyError(fname)
    return sel


EXTRACT_SHAPES = ["sym", "alg-v", "v-alg", "alg+v", "v+alg", "state-v", "alg-state", "state-alg", "ifz(alg-v)", "ifz+ifz", "ifz+ifz-different", "v-w", "alg*v"]


def h_extract_assignment(eng):
    M.install(eng)
    eng.ext_modules["re"].attrs["compile"] = stub(lambda eng, *a: Pattern(eng))
    shape = EXTRACT_SHAPES[eng.choice(len(EXTRACT_SHAPES))]
    eng.input("equation_shape", shape)
    a, a2, s = sym("a1"), sym("a2"), sym("s1")
    v, w = opaque(eng, "v"), opaque(eng, "w")
    c1, c2 = opaque(eng, "cond1"), opaque(eng, "cond2")
    ifz = lambda c, t: E("OP_IF_ELSE_ZERO", c, t)
    eq = {"sym": a, "alg-v": E("OP_SUB", a, v), "v-alg": E("OP_SUB", v, a), "alg+v": E("OP_ADD", a, v), "v+alg": E("OP_ADD", v, a),
          "state-v": E("OP_SUB", s, v), "alg-state": E("OP_SUB", a, s), "state-alg": E("OP_SUB", s, a), "ifz(alg-v)": ifz(c1, E("OP_SUB", a, v)),
          "ifz+ifz": E("OP_ADD", ifz(c1, E("OP_SUB", a, v)), ifz(c2, E("OP_SUB", a, w))),
          "ifz+ifz-different": E("OP_ADD", ifz(c1, E("OP_SUB", a, v)), ifz(c2, E("OP_SUB", a2, w))),
          "v-w": E("OP_SUB", v, w), "alg*v": E("OP_MUL", a, v)}[shape]
    va, va2, vs = variable("a1"), variable("a2"), variable("s1")
    model = M.new_model(eng, {"states": VList([vs]), "alg_states": VList([va, va2]), "der_states": VList([variable("der(s1)")])})
    opts = VDict([("eliminable_variable_expression", "_.*"), ("expand_mx", True)])
    fr = eng.exec_fragment(MODEL, "Model._simplify_once", prefix_until_def("eliminable_variable_expression", "extract_assignment"),
                           {"self": model, "options": opts}, label="extract_assignment")
    f = fr.locals.get("extract_assignment")
    if not isinstance(f, VFunc):
        raise Unsupported("extract_assignment not defined by the fragment")
    var, val = eng.call(f, [eq], {})
    eng.cover("extract.done")
    env = env_for(["a1", "a2", "s1"])
    pat = fr.locals.get("p")
    matched = lambda nm: pat.cache.get(nm, False) if isinstance(pat, Pattern) else False
    if var is None:
        # nothing extracted: no claim about the equation; but the simple patterns with a matching variable must be found
        if shape in ("sym", "alg-v", "v-alg", "alg+v", "v+alg"):
            eng.prove("extract.simple_patterns_found_when_name_matches", z3.Not(ops.to_z3(matched("a1"))))
        return
    ok = isinstance(var, E) and var.kind == "sym" and var.nm in ("a1", "a2", "s1")
    eng.prove("extract.variable_is_a_state_symbol", z3.BoolVal(bool(ok)))
    if not ok:
        return
    eng.prove("extract.variable_name_matches_the_expression", ops.to_z3(matched(var.nm)))
    hyp = z3.BoolVal(True)
    if shape == "ifz(alg-v)":
        hyp = c1.value != 0        # where the condition is false the equation is 0 = 0 (under-determined; outside "determined systems")
    if shape.startswith("ifz+ifz"):
        hyp = z3.Xor(c1.value != 0, c2.value != 0)   # branches of one if_else: exactly one condition holds
    # (P) binding holds in every solution of the equation, and the equation holds whenever the binding does
    eng.prove("extract.binding_equivalent_to_equation", z3.Implies(hyp, (denote(eq, env) == 0) == (env[var.nm] == denote(val, env))),
              variable=var.nm, value=repr(val))
    if shape in ("alg-state", "state-alg"):
        eng.prove("extract.algebraic_variable_preferred", z3.Implies(ops.to_z3(matched("a1")), z3.BoolVal(var.nm == "a1")))


# ------------------------------------------------------------------------------------------------
FACTOR_SHAPES = ["neg(x)", "abs(x)", "x*c", "c*x", "x/c", "c/x", "x*y", "neg(abs(x*c)/c2)", "x-y", "(x-y)*c"]


def h_factor_and_simplify(eng):
    cas = M.install(eng)
    from .casadi_facts import casadi_facts
    unary = sorted(casadi_facts()["unary_ops"])
    # every one-operand operation the installed CasADi has, at the top of the residual and under a constant factor
    shapes = FACTOR_SHAPES + ["%s(x-y)" % u for u in unary] + ["%s(x)*c" % u for u in unary]
    shape = shapes[eng.choice(len(shapes))]
    eng.input("equation_shape", shape)
    x, y = sym("x"), sym("y")
    c, c2 = const(eng.input("c", eng.fresh_real("c"))), const(eng.input("c2", eng.fresh_real("c2")))
    generic = {}
    for u in unary:
        generic["%s(x-y)" % u] = E(u, E("OP_SUB", x, y))
        generic["%s(x)*c" % u] = E("OP_MUL", E(u, x), c)
    eq = generic[shape] if shape in generic else {"neg(x)": E("OP_NEG", x), "abs(x)": E("OP_FABS", x), "x*c": E("OP_MUL", x, c), "c*x": E("OP_MUL", c, x), "x/c": E("OP_DIV", x, c),
          "c/x": E("OP_DIV", c, x), "x*y": E("OP_MUL", x, y), "neg(abs(x*c)/c2)": E("OP_NEG", E("OP_DIV", E("OP_FABS", E("OP_MUL", x, c)), c2)),
          "x-y": E("OP_SUB", x, y), "(x-y)*c": E("OP_MUL", E("OP_SUB", x, y), c)}[shape]
    model = M.new_model(eng, {"equations": VList([eq])})
    opts = VDict([("factor_and_simplify_equations", True)])
    fr = eng.exec_fragment(MODEL, "Model._simplify_once", prefix_until_def("factor_and_simplify_equations", "factor_and_simplify"),
                           {"self": model, "options": opts}, label="factor_and_simplify")
    f = fr.locals.get("factor_and_simplify")
    r = eng.call(f, [eq], {})
    eng.cover("factor.done")
    env = env_for(["x", "y"])
    # precondition of the statement: constant factors are finite and non-zero; divisors non-zero
    pre = z3.And(c.value != 0, c2.value != 0)
    if shape == "c/x":
        pre = z3.And(pre, env["x"] != 0)
    eng.prove("factor.zero_set_preserved", z3.Implies(pre, (denote(r, env) == 0) == (denote(eq, env) == 0)), result=repr(r))


# ------------------------------------------------------------------------------------------------ eliminable variables: derivatives
class Env(dict):
    def __missing__(self, k):
        self[k] = z3.Real("val_" + k)
        return self[k]


def elim_loop_selector(fn):
    """the eliminable_variable_expression block up to and including the loop over the equations that records (variable, value) pairs"""
    import ast
    body = M.block_selector("eliminable_variable_expression")(fn)
    for i, st in enumerate(body):
        if isinstance(st, ast.For) and isinstance(st.iter, ast.Attribute) and st.iter.attr == "equations":
            return body[:i + 1]
    raise KeyError("equation loop")


# (variable, value) definitions in the order the equations are written; every one matches the eliminable pattern
ELIM_SYSTEMS = [
    ("state defined by a state", [("_x", "s", "2*z")]),
    ("state defined by an earlier-eliminated state", [("_y", "s", "3*z"), ("_x", "s", "2*_y")]),
    ("state defined by a later-eliminated state", [("_x", "s", "2*_y"), ("_y", "s", "3*z")]),
    ("state defined by an earlier-eliminated algebraic variable", [("_y", "a", "3*z"), ("_x", "s", "2*_y")]),
    ("state defined by a later-eliminated algebraic variable", [("_x", "s", "2*_y"), ("_y", "a", "3*z")]),
    ("state defined by time", [("_x", "s", "2*time+z")]),
    ("state defined by a parameter expression", [("_x", "s", "p*z+p")]),
    ("state defined by an algebraic variable that stays", [("_x", "s", "2*w")]),
    ("three-link chain", [("_y", "s", "3*z"), ("_v", "a", "2*_y"), ("_x", "s", "_v*z")]),
    ("state defined by an input", [("_x", "s", "2*u+z")]),
]


def h_eliminable_derivatives(eng):
    """The loop of the eliminable-variable block with the REAL extract_assignment and the REAL get_derivative (chain rule through
    ca.jacobian): every recorded pair (variable, value) -- in particular (der(v), derivative of v's value) for an eliminated state v --
    must hold along every trajectory of the original system: with env any assignment of reals to the symbols that satisfies the
    original defining equations AND their time derivatives (rate of time = 1, of parameters = 0, of an input = an arbitrary real the
    model has no symbol for), denote(value) == env[variable].  Equations the code refuses to use (kept) need nothing."""
    log = []
    cas = M.install(eng, dict(M.chain_module_functions(), is_equal=stub(lambda eng, *a: True)))
    eng.ext_modules["re"].attrs["compile"] = stub(lambda eng, *a: FixedPattern())
    dv = eng.module_global(eng.load_module(MODEL), "_DefaultValue")
    dv.constructor = lambda eng, c, a, k: VObj(c, {"value": a[0] if a else 0})
    label, system = ELIM_SYSTEMS[eng.choice(len(ELIM_SYSTEMS))]
    eng.input("system", label)
    eng.input("equations", ["%s = %s" % (v, val) for v, _k, val in system])
    names = {"z": "s", "w": "a", "p": "p", "u": "u", "time": "t"}
    for v, k, _ in system:
        names[v] = k
    S = {n: sym(n) for n in names}
    S.update({"der(%s)" % n: sym("der(%s)" % n) for n, k in names.items() if k == "s"})

    def term(txt):
        txt = txt.replace(" ", "")
        if "+" in txt:
            l, r = txt.split("+", 1)
            return E("OP_ADD", term(l), term(r))
        if "*" in txt:
            l, r = txt.split("*", 1)
            return E("OP_MUL", term(l), term(r))
        if txt in S:
            return S[txt]
        return const(z3.RealVal(txt))
    eqs, defs = [], {}
    for v, k, val in system:
        t = term(val)
        defs[v] = t
        eqs.append(E("OP_SUB", S[v], t))
    var = lambda n: VObj(VClass("Variable"), {"symbol": S[n], "value": float("nan")})
    model = M.new_model(eng, {
        "states": VList([var(n) for n, k in names.items() if k == "s"]), "der_states": VList([var("der(%s)" % n) for n, k in names.items() if k == "s"]),
        "alg_states": VList([var(n) for n, k in names.items() if k == "a"]), "inputs": VList([var("u")]), "parameters": VList([var("p")]), "constants": VList([]),
        "equations": VList(list(eqs)), "initial_equations": VList([]), "delay_arguments": VList([]), "time": S["time"]})
    opts = VDict([("eliminable_variable_expression", "_.*"), ("expand_mx", True)])
    try:
        fr = eng.exec_fragment(MODEL, "Model._simplify_once", elim_loop_selector, {"self": model, "options": opts}, label="eliminable-variable-loop")
    except PyRaise as e:
        # a reported failure is allowed by the statement -- but only where the model really cannot be simplified soundly
        eng.cover("elimder.raises")
        eng.prove("elimder.failure_only_reported_for_an_input_rate", z3.BoolVal("input" in label), exc=repr(e.exc))
        return
    eng.cover("elimder.done")
    variables, values = fr.locals["variables"].items, fr.locals["values"].items
    env = Env()
    # ---- trajectories of the original system
    rate = {}

    def rate_of(sm):
        n = sm.nm
        if n == "time":
            return z3.RealVal(1)
        if n == "p":
            return z3.RealVal(0)
        return env["der(%s)" % n]       # states, algebraic variables (their rate exists even if the model has no symbol for it) and the input

    def total_derivative(t):
        return z3.Sum([M.partial(t, sm, env) * rate_of(sm) for sm in M.symbols_of(t)] + [z3.RealVal(0)])
    hyp = []
    for v, t in defs.items():
        hyp.append(env[v] == denote(t, env))
        hyp.append(env["der(%s)" % v] == total_derivative(t))
    hyp = z3.And(hyp)
    recorded = []
    for vr, vl in zip(variables, values):
        nm = vr.nm
        recorded.append(nm)
        eng.prove("elimder.recorded_pair_holds_along_every_trajectory", z3.Implies(hyp, (denote(vl, env) if isinstance(vl, E) else M._val(vl)) == env[nm]),
                  variable=nm, value=repr(vl)[:200])
    # an eliminated state takes its derivative symbol along
    for v, k, _ in system:
        if v in recorded and k == "s":
            eng.prove("elimder.eliminated_state_takes_its_derivative_along", z3.BoolVal("der(%s)" % v in recorded), variable=v)
    eng.prove("elimder.no_pair_recorded_twice", z3.BoolVal(len(set(recorded)) == len(recorded)), recorded=recorded)
    # the system stays self-contained: a symbol that a recorded value mentions is a variable the model keeps (a state, its derivative
    # variable, an algebraic variable, the input, the parameter, time) or is itself recorded for substitution -- never a symbol that
    # belongs to no variable list (C15)
    def names_of(d):
        out = set()
        if isinstance(d, VDict):
            for k_, v_ in zip(d.keys, d.vals):
                sy_ = v_.fields.get("symbol") if isinstance(v_, VObj) else None
                out.add(sy_.nm if isinstance(sy_, E) and sy_.kind == "sym" else str(k_))
        return out
    kept = {"u", "p", "time"} | set(recorded)
    for loc in ("states", "der_states", "alg_states"):
        kept |= names_of(fr.locals.get(loc))
    free = sorted({sm.nm for vl in values if isinstance(vl, E) for sm in M.symbols_of(vl)} - kept)
    eng.prove("elimder.recorded_values_mention_only_variables_of_the_model", z3.BoolVal(not free), symbols_of_no_variable=free)


class FixedPattern(Ext):
    """re.compile("_.*"): matches the names that start with an underscore"""

    def sym_getattr(self, eng, name):
        if name == "match":
            return stub(lambda eng, nm: nm.startswith("_"))
        raise Unsupported("pattern.%s" % name)


# ------------------------------------------------------------------------------------------------
class AliasRel(Ext):
    """AliasRelation by its C17 contract: canonical_signed(n) = (canonical, sign) (a negated name flips the sign);
    add(a, b) REQUIRES that b is not in the class of -a (C17: the relation never relates a variable to its own negation);
    the violations of that precondition are recorded in `bad_adds`, merges inside one class in `redundant_adds`"""

    def __init__(self, canon):
        self.canon, self.added, self.bad_adds, self.redundant_adds = canon, [], [], []

    def cs(self, n):
        neg = isinstance(n, str) and n.startswith("-")
        base = n[1:] if neg else n
        c = self.canon.get(base, base)
        c, sg = c if isinstance(c, tuple) else (c, 1)
        return c, (-sg if neg else sg)

    def sym_getattr(self, eng, name):
        if name == "canonical_signed":
            return stub(lambda eng, n: self.cs(n))
        if name == "add":
            def add(eng, a, b):
                (ca_, sa), (cb, sb) = self.cs(a), self.cs(b)
                if ca_ == cb:
                    (self.bad_adds if sa != sb else self.redundant_adds).append((a, b))
                self.added.append((a, b))
            return stub(add)
        if name == "copy":
            return stub(lambda eng: self)
        raise Unsupported("alias relation .%s" % name)


class Affine(E):
    """an equation that is affine in two symbols d0, d1: alpha*d0 + beta*d1 + gamma (gamma may
    stand for terms in parameters/constants)"""

    def __init__(self, eng, d0, d1, extra=()):
        E.__init__(self, "affine", d0, d1)
        self.alpha = eng.input("alpha", eng.fresh_real("alpha"))
        self.beta = eng.input("beta", eng.fresh_real("beta"))
        self.gamma = eng.input("gamma", eng.fresh_real("gamma"))
        self.extra = list(extra)

    def sym_getattr(self, eng, name):
        if name == "n_dep":
            return stub(lambda eng: 2)
        if name == "is_op":
            return stub(lambda eng, code: False)
        return E.sym_getattr(self, eng, name)


class Subst(E):
    def __init__(self, eq, which, by):
        E.__init__(self, "subst")
        self.eq, self.which, self.by = eq, which, by

    def sym_getattr(self, eng, name):
        if name == "is_zero":
            return stub(lambda eng: self.zero())
        return E.sym_getattr(self, eng, name)

    def zero(self):
        eq = self.eq
        if isinstance(eq, DiffOfSquares):
            return True
        if not isinstance(eq, Affine):
            # enumerated non-affine test shapes (x*y, x-c): the substituted term does not vanish
            return False
        d0, d1 = eq.deps
        neg = isinstance(self.by, E) and self.by.kind == "OP_MUL"
        target = self.by.deps[1] if neg else self.by
        sgn = -1 if neg else 1
        # substituting `which` by sgn*target: the result vanishes identically iff both coefficients cancel
        if self.which is d0 and target is d1:
            return z3.And(eq.alpha * sgn + eq.beta == 0, eq.gamma == 0)
        if self.which is d1 and target is d0:
            return z3.And(eq.alpha + eq.beta * sgn == 0, eq.gamma == 0)
        raise Unsupported("unexpected substitution")


def symvar_of(t):
    if isinstance(t, Affine):
        return list(t.deps) + t.extra
    out = []

    def walk(x):
        if isinstance(x, E):
            if x.kind == "sym" and x not in out:
                out.append(x)
            for d in x.deps:
                walk(d)
    walk(t)
    return out


class DiffOfSquares(E):
    """x*x - y*y : substituting x := y (or x := -y) gives a term CasADi recognises as zero"""

    def __init__(self, x, y):
        E.__init__(self, "OP_SUB", E("OP_MUL", x, x), E("OP_MUL", y, y))


DETECT_SHAPES = ["x-y", "x+y", "affine", "affine+param", "x-c", "x*y", "x-y-z", "x*x-y*y"]


def alias_fragment(eng, model, opts, upto):
    return eng.exec_fragment(MODEL, "Model._simplify_once", prefix_until_def("detect_aliases", upto),
                             {"self": model, "options": opts}, label=upto)


def alias_model(eng, canon=None):
    vx, vy, vs, vp, vw = variable("x"), variable("y"), variable("s"), variable("p"), variable("w")
    rel = AliasRel(canon or {})
    model = M.new_model(eng, {"states": VList([vs]), "der_states": VList([variable("der(s)")]), "alg_states": VList([vx, vy, vw]),
                                   "inputs": VList([]), "parameters": VList([vp]), "constants": VList([]), "alias_relation": rel})
    return model, rel


def h_detect_alias(eng):
    cas = M.install(eng, {"symvar": stub(lambda eng, t: VList(symvar_of(t))), "substitute": stub(lambda eng, e, a, b: Subst(e, a, b))})
    shape = DETECT_SHAPES[eng.choice(len(DETECT_SHAPES))]
    eng.input("equation_shape", shape)
    x, y, z, p = sym("x"), sym("y"), sym("z"), sym("p")
    c = const(eng.input("c", eng.fresh_real("c")))
    eq = {"x-y": lambda: E("OP_SUB", x, y), "x+y": lambda: E("OP_ADD", x, y), "affine": lambda: Affine(eng, x, y),
          "affine+param": lambda: Affine(eng, x, y, [p]), "x-c": lambda: E("OP_SUB", x, c), "x*y": lambda: E("OP_MUL", x, y),
          "x-y-z": lambda: E("OP_SUB", E("OP_SUB", x, y), z), "x*x-y*y": lambda: DiffOfSquares(x, y)}[shape]()
    model, rel = alias_model(eng)
    opts = VDict([("detect_aliases", True), ("allow_derivative_aliases", True), ("expand_vectors", False), ("expand_mx", False)])
    fr = alias_fragment(eng, model, opts, "_detect_alias")
    f = fr.locals.get("_detect_alias")
    try:
        d, neg = eng.call(f, [eq], {})
    except Unsupported:
        raise
    eng.cover("detect.done")
    d = eng.iterate(d)
    env = env_for(["x", "y", "z", "p"])
    if not d:
        if shape in ("x-y", "x+y"):
            eng.prove("detect.plain_alias_equations_detected", False)
        return
    ok = len(d) == 2 and all(isinstance(t, E) and t.kind == "sym" for t in d)
    eng.prove("detect.alias_is_a_pair_of_symbols", z3.BoolVal(bool(ok)))
    if not ok:
        return
    sgn = z3.If(ops.to_z3(eng.truth(neg, sym=True)) if not isinstance(neg, bool) else z3.BoolVal(neg), -1, 1)
    if isinstance(eq, Affine):
        value = eq.alpha * env["x"] + eq.beta * env["y"] + eq.gamma
        hyp = z3.Or(eq.alpha != 0, eq.beta != 0)   # the equation really involves the two symbols
    else:
        value, hyp = denote(eq, env), z3.BoolVal(True)
    if isinstance(eq, DiffOfSquares):
        # outside the affine family: the substitute(...).is_zero() test only shows alias => equation
        eng.prove("detect.nonaffine_equation_alias_holds_in_every_solution", z3.Implies(value == 0, env[d[0].nm] == sgn * env[d[1].nm]), pair=[d[0].nm, d[1].nm])
        return
    # (P) the recorded alias (with its sign) holds in every solution of the equation, and conversely
    eng.prove("detect.alias_equivalent_to_equation", z3.Implies(hyp, (value == 0) == (env[d[0].nm] == sgn * env[d[1].nm])), pair=[d[0].nm, d[1].nm])


def h_make_alias(eng):
    M.install(eng)
    kinds = [("x", "y"), ("x", "s"), ("s", "x"), ("s", "der(s)"), ("x", "der(s)"), ("p", "x")]
    n0, n1 = kinds[eng.choice(len(kinds))]
    negative = bool(eng.choice(2))
    allow_der = eng.input("allow_derivative_aliases", eng.fresh_bool("allow_der"))
    # x may already be aliased to the state s (its canonical variable is then not eliminable), to y, or to -y
    PRE = [{"x": "x"}, {"x": "s"}, {"x": "y"}, {"x": ("y", -1)}, {"x": ("s", -1)},
           # both ends already belong to groups: one headed by an algebraic variable, the other by a parameter / state
           {"x": "w", "y": "p"}, {"x": "p", "y": "w"}, {"x": "w", "y": ("s", -1)}, {"x": "w", "y": "w"}]
    pre = PRE[eng.choice(len(PRE))]
    x_canon = pre["x"]
    eng.input("pair", [n0, n1])
    eng.input("negative", negative)
    eng.input("canonical_of_x", list(x_canon) if isinstance(x_canon, tuple) else x_canon)
    model, rel = alias_model(eng, dict(pre))
    opts = VDict([("detect_aliases", True), ("allow_derivative_aliases", allow_der), ("expand_vectors", False), ("expand_mx", False)])
    fr = alias_fragment(eng, model, opts, "_make_alias")
    f = fr.locals.get("_make_alias")
    r = eng.call(f, [VList([sym(n0), sym(n1)]), negative], {})
    eng.cover("make.done")
    res = eng.decided(eng.truth(r, sym=True))
    if res is None:
        raise Unsupported("result of _make_alias undecided on this path")
    algs = {"x", "y"}
    # (P) True  <=>  exactly one alias was recorded, eliminating an algebraic variable with the sign given
    eng.prove("make.true_iff_one_alias_recorded", z3.BoolVal(res == (len(rel.added) == 1)), added=rel.added)
    # (P) modular obligation at the call site: AliasRelation.add is only called within its precondition (C17) -- two variables that are
    # already known to be each other's NEGATION are never aliased positively (or vice versa): that equation forces the class to zero
    # and must stay in the system
    eng.prove("make.alias_relation_add_called_within_its_precondition", z3.BoolVal(not rel.bad_adds), bad=rel.bad_adds)
    # (P) only algebraic unknowns are eliminated: add(a, b) makes the canonical variable of a's group the canonical variable of the merged
    # group (C17), so a group headed by a state / input / parameter / constant must be the FIRST argument whenever the other group is
    # headed by an algebraic variable -- otherwise the non-eliminable variable becomes an alias and is deleted with the aliases
    dne = {"s", "der(s)", "p"}
    unseated = [(a_, b_) for a_, b_ in rel.added if rel.cs(b_)[0] in dne and rel.cs(a_)[0] not in dne]
    eng.prove("make.non_eliminable_canonical_variable_is_never_unseated", z3.BoolVal(not unseated), added=rel.added)
    if rel.added:
        a, b = rel.added[0]
        bname = b[1:] if isinstance(b, str) and b.startswith("-") else b
        ok = bname in algs and {a, bname} == {n0, n1} and (isinstance(b, str) and b.startswith("-")) == negative
        eng.prove("make.eliminated_variable_is_algebraic_with_given_sign", z3.BoolVal(bool(ok)), added=rel.added)
        eng.prove("make.derivative_aliases_only_when_allowed", z3.Implies(z3.BoolVal("der(s)" in (n0, n1)), allow_der))
    else:
        eng.prove("make.no_alias_without_algebraic_variable_or_when_forbidden", z3.BoolVal(True))


# ------------------------------------------------------------------------------------------------ reduce_affine_expression
class RT(E):
    """opaque term of the reduce_affine block (records how it was built)"""

    def __init__(self, kind, *args, label=None):
        E.__init__(self, "opaque", value=z3.RealVal(0))
        self.rkind, self.rargs, self.label = kind, args, label

    def sym_getattr(self, eng, name):
        if name == "shape":
            return (3, 1)
        if name == "numel":
            return stub(lambda eng: 1)
        return E.sym_getattr(self, eng, name)

    def sym_binop(self, eng, op, other, reflected):
        return RT("binop:" + op, *((other, self) if reflected else (self, other)))

    def __repr__(self):
        return "RT(%s%s)" % (self.rkind, ":" + self.label if self.label else "")


class RFn(Ext):
    def __init__(self, name, ins, outs):
        self.name, self.ins, self.outs = name, ins, outs

    def sym_call(self, eng, args, kwargs):
        return RT("call", self, tuple(args))


def h_reduce_affine(eng):
    """reduce_affine_expression: each equation list L becomes A_L * X + b_L with A_L, b_L the Jacobian / value of L's equations at X = 0.
    (P, C14) where L's equations depend on the parameters (constants), A_L and b_L are evaluated AT the parameter (constant) vector, not
    at 0 -- decided per list; (P, C15) both lists are written over the SAME vectors X, the ones the model keeps for its residual
    functions when the block is done -- otherwise the residual function cannot be built."""
    fns = {}
    deps = {}
    which = {"n": 0}
    lists = [["equations"], ["initial_equations"], ["equations", "initial_equations"]][eng.choice(3)]
    eng.input("non_empty_equation_lists", lists)
    for L in ("equations", "initial_equations"):
        for V in ("constants", "parameters"):
            deps[(L, V)] = eng.input("%s_depend_on_%s" % (L, V), eng.fresh_bool("dep"))
    vecs = {}

    def veccat(eng, *parts):
        parts = list(parts)
        key = tuple(str(getattr(p_, "nm", None) or getattr(p_, "label", None) or "?") for p_ in parts)
        t = RT("veccat", *parts, label=",".join(key))
        return t

    def depends_on(eng, eqs, vec):
        L = getattr(eqs, "list_name", None)
        V = "constants" if vec.label == "c0" else ("parameters" if vec.label == "p0" else None)
        if L is None or V is None:
            raise Unsupported("depends_on of unexpected terms %r %r" % (eqs, vec))
        return deps[(L, V)]
    mx = VClass("MX")
    syms_made = []

    def mx_sym(eng, name, n=1):
        t = RT("sym", label=name)
        t.nm = name
        syms_made.append(t)
        return t
    mx.attrs["sym"] = stub(mx_sym)
    fn_cls = VClass("Function")
    fn_cls.constructor = lambda eng, c, a, k: RFn(a[0], eng.iterate(a[1]), eng.iterate(a[2]))
    cas = M.install(eng, {"veccat": stub(veccat), "depends_on": stub(depends_on), "jacobian": stub(lambda eng, e, x: RT("jacobian", e, x)),
                          "vertcat": stub(lambda eng, *a: RT("vertcat", *a)), "mtimes": stub(lambda eng, a, b: RT("mtimes", a, b)),
                          "reshape": stub(lambda eng, e, shape: RT("reshape", e)), "MX": mx, "Function": fn_cls})

    def var(name):
        v = variable(name)
        sy = RT("sym", label=name)
        sy.nm = name
        v.fields["symbol"] = sy
        return v
    c0, p0 = var("c0"), var("p0")
    eq_terms = {}
    model_fields = {"states": VList([var("x")]), "der_states": VList([var("der(x)")]), "alg_states": VList([var("y")]), "inputs": VList([var("u")]),
                    "constants": VList([c0]), "parameters": VList([p0])}
    for L in ("equations", "initial_equations"):
        model_fields[L] = VList([RT("residual", label=L)] if L in lists else [])
    model = M.new_model(eng, model_fields)

    def symbols(eng, selfobj, variables):
        return VList([v.fields["symbol"] for v in eng.iterate(variables)])
    symbols._pyvc_method = True
    model.cls.attrs["_symbols"] = symbols
    # veccat of the equations of a list: remember which list it came from
    orig_veccat = cas.attrs["veccat"]

    def veccat2(eng, *parts):
        t = veccat(eng, *parts)
        if len(parts) == 1 and isinstance(parts[0], RT) and parts[0].rkind == "residual":
            t.list_name = parts[0].label
        if len(parts) == 1 and getattr(parts[0], "nm", None) in ("c0", "p0"):
            t.label = parts[0].nm
        return t
    cas.attrs["veccat"] = stub(veccat2)
    # numel of a symbol
    for v in [x for lst in ("states", "der_states", "alg_states", "inputs", "constants", "parameters") for x in model_fields[lst].items]:
        sy = v.fields["symbol"]
    E_getattr = E.sym_getattr

    opts = VDict([("reduce_affine_expression", True), ("expand_mx", False)])
    try:
        eng.exec_fragment(MODEL, "Model._simplify_once", M.block_selector("reduce_affine_expression"), {"self": model, "options": opts}, label="reduce-affine")
    except PyRaise as e:
        eng.prove("affine.no_exception", False, exc=repr(e.exc))
        return
    eng.cover("affine.done")
    final = [model.fields.get(k) for k in ("_states_vector", "_der_states_vector", "_alg_states_vector", "_inputs_vector")]
    ok_same, ok_params = True, []
    for L in lists:
        new = model.fields[L]
        items = eng.iterate(new)
        t = items[0] if len(items) == 1 else None
        shape_ok = isinstance(t, RT) and t.rkind == "binop:Add" and isinstance(t.rargs[0], RT) and t.rargs[0].rkind == "reshape"
        if not shape_ok:
            eng.prove("affine.list_becomes_A_times_X_plus_b", False, got=repr(t))
            return
        mt = t.rargs[0].rargs[0]
        A, X, b = mt.rargs[0], mt.rargs[1], t.rargs[1]
        good = isinstance(A, RT) and A.rkind == "call" and A.rargs[0].name == "Af" and isinstance(b, RT) and b.rkind == "call" and b.rargs[0].name == "bf"
        eng.prove("affine.list_becomes_A_times_X_plus_b", z3.BoolVal(bool(good)))
        if not good:
            return
        # X is built from the vectors the model keeps
        ok_same = ok_same and isinstance(X, RT) and X.rkind == "vertcat" and len(X.rargs) == 4 and all(a is f_ for a, f_ in zip(X.rargs, final))
        for call in (A, b):
            a0, cc, pp = call.rargs[1]
            for V, arg in (("constants", cc), ("parameters", pp)):
                symbolic = isinstance(arg, RT) and arg.rkind == "veccat" and arg.label == ("c0" if V == "constants" else "p0")
                ok_params.append(z3.Implies(ops.to_z3(deps[(L, V)]), z3.BoolVal(bool(symbolic))))
    eng.prove("affine.all_lists_are_written_over_the_vectors_the_model_keeps", z3.BoolVal(bool(ok_same)), lists=lists)
    eng.prove("affine.evaluated_at_the_parameters_and_constants_its_own_equations_depend_on", z3.And(ok_params) if ok_params else True)


class SXT(Ext):
    """a scalar casadi.SX node: a symbol (OP_PARAMETER), a constant (OP_CONST) or an operation over nodes.  str() is CasADi's printed
    form, which shows constants with SIX significant digits (1000001 and 1000002 both print as 1e+06)"""
    type_names = ("SX",)

    def __init__(self, kind, deps=(), name=None, value=None):
        self.kind, self.deps, self.nm, self.value = kind, tuple(deps), name, value

    def code(self):
        return M.OPS["OP_PARAMETER" if self.kind == "sym" else "OP_CONST" if self.kind == "const" else self.kind]

    def sym_getattr(self, eng, name):
        table = {"is_scalar": lambda eng, *a: True, "op": lambda eng: self.code(), "n_dep": lambda eng: len(self.deps),
                 "dep": lambda eng, i=0: self.deps[i], "size1": lambda eng: 1, "size2": lambda eng: 1, "is_symbolic": lambda eng: self.kind == "sym",
                 "is_constant": lambda eng: self.kind == "const", "name": lambda eng: self.nm}
        if name in table:
            return stub(table[name])
        if name == "shape":
            return (1, 1)
        raise Unsupported("SX.%s" % name)

    def sym_str(self, eng):
        if self.kind == "sym":
            return self.nm
        if self.kind == "const":
            return "%g" % self.value
        inf = {"OP_ADD": "+", "OP_SUB": "-", "OP_MUL": "*", "OP_DIV": "/"}.get(self.kind)
        parts = [d.sym_str(eng) for d in self.deps]
        return "(%s%s%s)" % (parts[0], inf, parts[1]) if inf and len(parts) == 2 else "%s(%s)" % (self.kind[3:].lower(), ",".join(parts))

    def sym_eq(self, eng, other):
        return self is other

    def sym_isinstance(self, eng, cls):
        return cls.name == "SX"


EXPAND_SYSTEMS = [
    # (label, equations over x, y, z): numbers are written as they stand in a model
    ("constants that differ beyond the sixth digit", [("OP_SUB", ("OP_MUL", 1000001.0, "x"), "y"), ("OP_SUB", ("OP_MUL", 1000002.0, "x"), "z")]),
    ("a shared subexpression", [("OP_ADD", ("OP_MUL", "x", "y"), 2.0), ("OP_SUB", ("OP_MUL", "x", "y"), "z")]),
    ("small decimals", [("OP_ADD", ("OP_MUL", 0.1234567, "x"), ("OP_MUL", 0.1234568, "y")), ("OP_NEG", ("OP_DIV", "z", 3.0))]),
]


def h_expand_simplify_mx(eng):
    """Model._expand_simplify_mx (the expand_vectors + expand_mx pass that rebuilds every equation from its SX expansion): each
    rebuilt equation denotes the same real function of the variables as the equation it was built from -- whole function, with the
    SX expansion as a structural copy of the equation (CasADi's own simplifications while expanding are CasADi's)."""
    cas = M.install(eng, {})
    label, system = EXPAND_SYSTEMS[eng.choice(len(EXPAND_SYSTEMS))]
    eng.input("system", label)
    S = {n: sym(n) for n in ("x", "y", "z")}

    def build(t, leaf, node, number):
        if isinstance(t, str):
            return leaf(t)
        if isinstance(t, float):
            return number(t)
        return node(t[0], [build(a, leaf, node, number) for a in t[1:]])
    eqs = [build(t, lambda n: S[n], lambda k, a: E(k, *a), lambda v: const(z3.RealVal(repr(v)))) for t in system]
    cas.attrs["veccat"] = stub(lambda eng, *a: E("veccat", *a))
    cas.attrs["symvar"] = stub(lambda eng, e: VList([S[n] for n in ("x", "y", "z")]))
    sx_syms = {}

    class SXClass(Ext):
        def sym_getattr(self, eng, name):
            if name == "sym":
                def mk(eng, nme, *shape):
                    sx_syms[nme] = SXT("sym", name=nme)
                    return sx_syms[nme]
                return stub(mk)
            raise Unsupported("SX.%s" % name)
    cas.attrs["SX"] = SXClass()

    class Fn(Ext):
        def sym_getattr(self, eng, name):
            if name == "expand":
                return stub(lambda eng: self)
            if name == "call":
                def call(eng, actual, *a):
                    by_name = {x.nm: x for x in eng.iterate(actual)}
                    return VList([build(t, lambda n: by_name[n], lambda k, a_: SXT(k, a_), lambda v: SXT("const", value=v)) for t in system])
                return stub(call)
            raise Unsupported("Function.%s" % name)
    fn_cls = VClass("Function")
    fn_cls.constructor = lambda eng, c, a, k: Fn()
    cas.attrs["Function"] = fn_cls
    for nme, code in M.OPS.items():
        cas.attrs.setdefault(nme, code)
    names = {v: k for k, v in M.OPS.items()}
    mx_cls = cas.attrs["MX"]
    mx_cls.attrs["unary"] = stub(lambda eng, code, a: E(names[code], a))
    mx_cls.attrs["binary"] = stub(lambda eng, code, a, b: E(names[code], a, b))
    old_ctor = mx_cls.constructor
    mx_cls.constructor = lambda eng, c, a, k: const(z3.RealVal(repr(a[0]))) if a and isinstance(a[0], float) else old_ctor(eng, c, a, k)
    cas.attrs["DM"] = stub(lambda eng, x: x.value if isinstance(x, SXT) and x.kind == "const" else x)
    model_cls = eng.module_global(eng.load_module(MODEL), "Model")
    f = eng.find_function(MODEL, "Model._expand_simplify_mx")
    out = eng.call(f, [VList(list(eqs))], {})
    eng.cover("expandmx.done")
    got = eng.iterate(out)
    env = Env()
    eng.prove("expandmx.one_equation_per_equation", z3.BoolVal(len(got) == len(eqs)))
    for k_, (a, b) in enumerate(zip(eqs, got)):
        eng.prove("expandmx.rebuilt_equation_denotes_the_original", (denote(b, env) if isinstance(b, E) else z3.BoolVal(False)) == denote(a, env)
                  if isinstance(b, E) else z3.BoolVal(False), equation=k_, rebuilt=repr(b)[:160])


HARNESSES = [("Model._simplify_once#eliminate_constant_assignments", h_constant_assignment),
             ("Model._simplify_once.extract_assignment", h_extract_assignment),
             ("Model._simplify_once.factor_and_simplify", h_factor_and_simplify),
             ("Model._simplify_once._detect_alias", h_detect_alias), ("Model._simplify_once._make_alias", h_make_alias),
             ("Model._simplify_once#reduce_affine_expression", h_reduce_affine),
             ("Model._simplify_once#eliminable-variable loop with the real get_derivative", h_eliminable_derivatives),
             ("Model._expand_simplify_mx: rebuilt equations denote the originals", h_expand_simplify_mx)]
EXPECTED_COVER = {"const.done", "extract.done", "factor.done", "detect.done", "make.done", "affine.done", "elimder.done", "elimder.raises", "expandmx.done"}
BOUNDED = True
LEVEL = "proof"
TRUSTED = ["pyvc VC generator", "z3 5.1.0",
           "the MX node API has the denotation of contracts/mx_algebra.py (is_op(OP_SUB) => value = dep0 - dep1, ...); substitute(e, x, v).is_zero() means e[x:=v] vanishes identically",
           "ca.substitute performs the recorded bindings in the remaining equations (C15 checks that every eliminated symbol is passed to it)",
           "ca.jacobian / ca.Function / sparsity / ca.mtimes in get_derivative's chain-rule branch denote sum_j (d expr / d dep_j) * der_j (contracts/mx_algebra.py: partial, chain)",
           "one-operand CasADi operations outside the ROOT_PRESERVING table of contracts/mx_algebra.py are arbitrary real functions; the op codes and the list of one-operand operations are read from the installed package"]
ASSUMPTIONS = [
    "rule soundness only: the projection argument for the whole pipeline (composition over passes, fixpoint loops of ca.substitute, reduce_affine_expression, vector equations) is an argument in DESIGN.md, not machine-checked",
    "IF_ELSE_ZERO(c, x - v) binds x := if_else(c, v, 0): proved where c holds (where c is false the original equation is 0 = 0, an under-determined system, outside 'equations determine the unknowns'); the two-branch form assumes exactly one of the two conditions holds (they come from one if_else)",
    "slow path of _detect_alias (substitute(...).is_zero()) is proved for equations affine in the two symbols with not both coefficients zero -- the family the statement's quantifier names; for non-affine equations (x*x = y*y) the test is one-directional: see the known finding",
    "equation shapes are enumerated per rule (all shapes the pattern matchers distinguish), leaves symbolic",
]
EXPLANATION = "Soundness of each rewrite rule of simplify() over the assumed MX algebra."
MANIFEST = {
    "category": "proof",
    "text": "Each rewrite rule of simplify() is extracted structurally from the real _simplify_once and executed on every equation shape its pattern matcher distinguishes, with symbolic leaves: the recorded binding (constant value, eliminated-variable expression, signed alias) is proved EQUIVALENT to the dropped equation for all values of the symbols (z3, real arithmetic), factor_and_simplify preserves the zero set under the statement's precondition, and _make_alias records exactly one correctly signed alias when it reports success. The eliminable-variable loop is executed with the real extract_assignment and the real get_derivative (chain rule through ca.jacobian, modelled by symbolic partial derivatives): every recorded pair, in particular (der(v), derivative of v's defining expression) for an eliminated differentiated variable, holds along every trajectory of the original equations and their time derivatives (rate of time 1, of parameters 0, of an input an arbitrary real), for chains of eliminated variables in both orders. A bounded replay compares simplified and unsimplified residuals on generated models with a known unique solution. Model._expand_simplify_mx is executed as a whole: every equation rebuilt from its SX expansion denotes the original (SX constants print with six digits, as in CasADi). Recorded replacement values mention only variables of the model.",
    "note": "Assumed MX algebra; per-rule soundness only (the composition is argued, not proved); the non-affine slow-path alias is a known finding.",
    "technique": "contract-based deductive verification: structural fragment extraction of nested functions, symbolic execution over an assumed term algebra, real-arithmetic VCs, z3",
}
