"""Run the harnesses of a contract module and discharge the obligations (developer entry point;
the registered checks go through /verif/check)."""
import importlib
import sys
import time
from collections import OrderedDict

from .engine import Engine
from . import solve


def run_harnesses(harnesses, timeout_ms=30000, verbose=False, engine_factory=Engine):
    t0 = time.time()
    eng = engine_factory()
    for name, h in harnesses:
        eng.explore(h, name)
    t_sym = time.time() - t0
    solve.discharge(eng.obligations, timeout_ms)
    clauses = OrderedDict()
    for ob in eng.obligations:
        c = clauses.setdefault(ob.name, {"instances": 0, "proved": 0, "refuted": [], "unknown": [], "seconds": 0.0,
                                         "backends": set()})
        c["instances"] += 1
        c["seconds"] += ob.result.seconds
        c["backends"].add(ob.result.backend)
        if ob.result.status == "PROVED":
            c["proved"] += 1
        elif ob.result.status == "REFUTED":
            c["refuted"].append(ob)
        else:
            c["unknown"].append(ob)
    return eng, clauses, t_sym


def main():
    mod = importlib.import_module("contracts." + sys.argv[1])
    only = sys.argv[2:] or None
    hs = [(n, h) for n, h in mod.HARNESSES if not only or any(o in n for o in only)]
    import os
    eng, clauses, t_sym = run_harnesses(hs, timeout_ms=int(os.environ.get('PYVC_TIMEOUT_MS','20000')))
    for name, c in clauses.items():
        st = "PROVED" if c["proved"] == c["instances"] else ("REFUTED" if c["refuted"] else "UNKNOWN")
        print("%-8s %-55s inst=%d  %.2fs %s" % (st, name, c["instances"], c["seconds"], ",".join(sorted(c["backends"]))))
        for ob in c["refuted"][:2]:
            print("      model:", ob.result.model, ob.info)
        for ob in c["unknown"][:2]:
            print("      unknown:", ob.result.output[:200], ob.info)
    for u in eng.undecided:
        print("UNDECIDED", u)
    print("paths", eng.paths_explored, "symex %.1fs" % t_sym, "covered", sorted(eng.covered))
    print("abstractions", eng.abstractions)


if __name__ == "__main__":
    main()
