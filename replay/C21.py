"""C21 replay / bounded stand-in: truncate a REAL model cache file and call the real transfer_model."""
import json
import os
import shutil
import sys
import tempfile
import time

MODEL = """model M
  parameter Real p = 2.0;
  Real x(start = 1.0, min = -p, max = 10 * p);
  Real y;
equation
  der(x) = -p * x;
  y = x + p;
end M;
"""


def fingerprint(m):
    import casadi as ca
    import numpy as np
    names = lambda l: [v.symbol.name() for v in l]
    f = m.dae_residual_function
    args = [0.3] + [np.arange(1, f.size1_in(i) + 1) * 0.5 for i in range(1, f.n_in())]
    res = np.array(f(*args)).reshape(-1).round(9).tolist()
    return {"states": names(m.states), "alg": names(m.alg_states), "parameters": names(m.parameters), "residual": res}


def main():
    payload = json.load(sys.stdin)
    tier = payload.get("tier", "quick")
    from pymoca.backends.casadi.api import transfer_model
    failures, cases = [], 0
    with tempfile.TemporaryDirectory() as tmp:
        folder = os.path.join(tmp, "model")
        os.mkdir(folder)
        with open(os.path.join(folder, "M.mo"), "w") as f:
            f.write(MODEL)
        past = time.time() - 1000
        os.utime(os.path.join(folder, "M.mo"), (past, past))
        ref = fingerprint(transfer_model(folder, "M", {"cache": False}))
        cache = os.path.join(folder, "M.pymoca_cache")
        try:
            transfer_model(folder, "M", {"cache": True})
            blob = open(cache, "rb").read()
        except BaseException as e:  # noqa
            out = {"class": "truncated-cache", "input": "no cache file yet (first transfer_model with cache=True)",
                   "observed": "%s: %s" % (type(e).__name__, str(e)[:100]), "expected": "compile and save"}
            if payload.get("mode") == "bounded":
                print(json.dumps({"performed": True, "cases": 1, "distinct_nontrivial": 1, "failures": [out], "rule": "setup", "bound": "-"}))
            else:
                print(json.dumps(dict(out, performed=True, reproduces=True, input_class="truncated-cache")))
            return
        n = len(blob)
        offsets = sorted({0, 1, 2, 10, n // 4, n // 2, n - 2, n - 1} | (set(range(0, n, max(1, n // (40 if tier == "quick" else 400))))))
        variants = [("truncate@%d" % k, blob[:k]) for k in offsets if k < n]
        variants += [("garbage", b"\x00\x01garbage"), ("text", b"not a pickle at all\n"), ("one-byte", b"\x80")]
        # the file already has its final length but only a prefix of the data reached the disk (the rest reads as zeros)
        variants += [("zero-tail@%d" % k, blob[:k] + b"\x00" * (n - k)) for k in (offsets[::4] if tier != "quick" else (0, 1, n // 2, n - 1))]
        for label, content in variants:
            cases += 1
            with open(cache, "wb") as f:
                f.write(content)
            try:
                got = fingerprint(transfer_model(folder, "M", {"cache": True}))
                if got != ref:
                    failures.append({"class": "truncated-cache", "input": label, "observed": "different model %s" % got, "expected": ref})
            except BaseException as e:  # noqa
                failures.append({"class": "truncated-cache", "input": label, "observed": "%s: %s" % (type(e).__name__, str(e)[:100]),
                                 "expected": "a model equal to a fresh compile (recompiling if needed), no exception"})
            if len(failures) >= 3:
                break
        # interrupted writer: the real save_model is killed inside its pickle.dump after k bytes (the exception models the process
        # dying: nothing after that point runs, in particular no clean-up); later calls must still return the model
        import pickle as _pickle
        import pymoca.backends.casadi.api as api_

        class Killed(BaseException):
            pass
        real_dump = _pickle.dump
        for k in (0, 1, n // 2, n - 1):
            cases += 1
            for name in os.listdir(folder):
                if name != "M.mo":
                    os.remove(os.path.join(folder, name))

            def dying_dump(obj, fobj, *a, **kw):
                fobj.write(blob[:k])
                fobj.flush()
                raise Killed()
            _pickle.dump = dying_dump
            try:
                try:
                    transfer_model(folder, "M", {"cache": True})
                except Killed:
                    pass
            finally:
                _pickle.dump = real_dump
            left = sorted(x for x in os.listdir(folder) if x != "M.mo")
            for attempt in (1, 2):
                try:
                    got = fingerprint(transfer_model(folder, "M", {"cache": True}))
                    if got != ref:
                        failures.append({"class": "truncated-cache", "input": "writer killed after %d bytes (left %s), call %d" % (k, left, attempt), "observed": "different model %s" % got, "expected": ref})
                except BaseException as e:  # noqa
                    failures.append({"class": "truncated-cache", "input": "writer killed after %d bytes (left %s), call %d" % (k, left, attempt),
                                     "observed": "%s: %s" % (type(e).__name__, str(e)[:100]), "expected": "a model equal to a fresh compile, no exception"})
                    break
            if len(failures) >= 3:
                break
        # two callers on a cache an interrupted write left behind, in the schedule "both have read (and rejected) the partial file before
        # either goes on": the only instrumentation is a barrier around load_model that fixes this schedule and a lock that serialises the
        # compilations; both calls must return the model
        import threading
        for k in (0, n // 2):
            cases += 1
            for name in os.listdir(folder):
                if name != "M.mo":
                    os.remove(os.path.join(folder, name))
            with open(cache, "wb") as f:
                f.write(blob[:k])
            barrier = threading.Barrier(2, timeout=60)
            real_load, real_compile = api_.load_model, api_._compile_model
            lock = threading.Lock()

            def load_then_wait(*a, **kw):
                try:
                    return real_load(*a, **kw)
                except BaseException:
                    try:
                        barrier.wait()
                    except threading.BrokenBarrierError:
                        pass
                    raise

            def compile_locked(*a, **kw):
                with lock:
                    return real_compile(*a, **kw)
            results = {}

            def caller(i):
                try:
                    results[i] = fingerprint(api_.transfer_model(folder, "M", {"cache": True}))
                except BaseException as e:  # noqa
                    results[i] = "%s: %s" % (type(e).__name__, str(e)[:100])
            api_.load_model, api_._compile_model = load_then_wait, compile_locked
            try:
                ts = [threading.Thread(target=caller, args=(i,)) for i in (0, 1)]
                for t in ts:
                    t.start()
                for t in ts:
                    t.join(300)
            finally:
                api_.load_model, api_._compile_model = real_load, real_compile
            for i in (0, 1):
                if results.get(i) != ref:
                    failures.append({"class": "truncated-cache", "input": "two concurrent transfer_model calls on a cache cut at %d bytes, both loads failing before either continues" % k,
                                     "observed": "caller %d: %s" % (i, results.get(i)), "expected": "both callers get the model, no exception"})
                    break
        # absent cache file
        cases += 1
        if os.path.exists(cache):
            os.remove(cache)
        try:
            if fingerprint(transfer_model(folder, "M", {"cache": True})) != ref:
                failures.append({"class": "truncated-cache", "input": "absent", "observed": "different model", "expected": ref})
        except BaseException as e:  # noqa
            failures.append({"class": "truncated-cache", "input": "absent", "observed": "%s: %s" % (type(e).__name__, e), "expected": "recompile"})
    if payload.get("mode") == "bounded":
        print(json.dumps({"performed": True, "cases": cases, "distinct_nontrivial": cases, "failures": failures,
                          "rule": "a real .pymoca_cache is truncated at %d offsets (incl. 0, 1, n-1) and replaced by garbage or a prefix followed by zeros up to the full length, and the real save_model is killed inside its write after 0, 1, n/2, n-1 bytes; two concurrent callers meet a partial file (both loads fail before either continues); the next real transfer_model(cache=True) must return a model whose variables and residual equal a fresh compile" % len(offsets),
                          "bound": "one model, %d file variants" % cases}))
    else:
        f = failures[0] if failures else None
        print(json.dumps({"performed": True, "reproduces": f is not None, "input": f and f["input"], "observed": f and f["observed"],
                          "expected": f and f["expected"], "input_class": "truncated-cache"}))


if __name__ == "__main__":
    main()
