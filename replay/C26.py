"""C26 replay / bounded stand-in: the real tools.compiler.main on temporary trees (under /venv/bin/python)."""
import contextlib
import io
import itertools
import json
import logging
import os
import sys
import tempfile
from pathlib import Path

GOOD = "model Good Real x; equation der(x) = 1; end Good;\n"
GOOD2 = "model Fine parameter Real p = 2; Real y; equation y = p; end Fine;\n"
UNF = "model Unf extends Missing; end Unf;\n"
BAD = "model Broken Real x equation end\n"

NOTUTF8 = b"model Latin Real x \xff\xfe; end Latin;\n"      # a file that is not UTF-8 encoded is a file with a parse error

MODEL_OK = {"Good": True, "Fine": True, "Unf": False, "Nope": False}


def run_main(argv):
    from tools import compiler
    buf = io.StringIO()
    logging.getLogger("pymoca").handlers[:] = []
    try:
        with contextlib.redirect_stderr(buf), contextlib.redirect_stdout(buf):
            rc = compiler.main(list(argv))
        return ("return", rc)
    except SystemExit as e:
        return ("exit", e.code)
    except BaseException as e:  # noqa
        return ("raise", "%s: %s" % (type(e).__name__, str(e)[:120]))


def scenario(tmp, files, missing_paths, bad_outdir, models, target, options):
    d = Path(tmp) / "lib"
    d.mkdir()
    contents = {"Good": GOOD, "Fine": GOOD2, "Unf": UNF, "Broken": BAD}
    for f in files:
        if f == "Latin":
            (d / "Latin.mo").write_bytes(NOTUTF8)
        else:
            (d / (f + ".mo")).write_text(contents[f])
    out = Path(tmp) / "out"
    if not bad_outdir:
        out.mkdir()
    argv = [str(d)] + [str(Path(tmp) / ("missing%d" % i)) for i in range(missing_paths)]
    for m in models:
        argv += ["-m", m]
    if target:
        argv += ["-t", target]
    for o in options:
        argv += ["-O", o]
    argv += ["-o", str(out)]
    return argv


def expected(files, missing_paths, bad_outdir, models, target, options):
    if target and not models:
        return ("exit", 2)
    usage = missing_paths + (1 if bad_outdir else 0) + sum(1 for o in options if o.count("=") != 1)
    if usage:
        return ("return", usage)
    if not files:
        return ("return", 1)
    if target != "casadi":
        nbad = sum(1 for f in files if f in ("Broken", "Latin"))
        if nbad:
            return ("return", nbad)
        return ("return", sum(0 if (MODEL_OK[m] and m in files) else 1 for m in models))
    # casadi: a model needs its own file; all files of the folder are compiled together
    fails = 0
    for m in models:
        if m not in files or not MODEL_OK[m] or "Broken" in files or "Latin" in files:
            fails += 1
    return ("return", fails)


def cases(tier):
    out = []
    file_sets = [["Good"], ["Good", "Fine"], ["Good", "Unf"], ["Good", "Broken"], [], ["Good", "Latin"], ["Broken", "Good", "Latin"]]
    model_sets = [[], ["Good"], ["Nope"], ["Unf"], ["Good", "Fine"], ["Good", "Nope"], ["Nope", "Good"], ["Unf", "Good"], ["Good", "Good"]]
    for files in file_sets:
        for models in model_sets:
            for target in (None, "sympy", "casadi"):
                out.append((files, 0, False, models, target, []))
    for missing, bad_out, opts in [(1, False, []), (2, True, []), (0, True, []), (0, False, ["x"]), (0, False, ["a=b=c", "k=true"]),
                                   (1, True, ["novalue"]),
                                   # one NAME given twice, the malformed argument before or after the well-formed one
                                   (0, False, ["cache", "cache=True"]), (0, False, ["cache=False", "cache"]), (1, False, ["eggs", "eggs=a=b"])]:
        for models, target in [([], None), (["Good"], None), (["Good"], "sympy"), (["Good"], "casadi")]:
            out.append((["Good"], missing, bad_out, models, target, opts))
    if tier != "quick":
        for files in (["Good", "Fine", "Unf"],):
            for models in itertools.permutations(["Good", "Fine", "Unf", "Nope"], 3):
                for target in (None, "sympy"):
                    out.append((files, 0, False, list(models), target, []))
    return out


def judge(case):
    files, missing, bad_out, models, target, opts = case
    with tempfile.TemporaryDirectory() as tmp:
        cwd = os.getcwd()
        os.chdir(tmp)
        try:
            argv = scenario(tmp, files, missing, bad_out, models, target, opts)
            got = run_main(argv)
        finally:
            os.chdir(cwd)
    exp = expected(files, missing, bad_out, models, target, opts)
    if got != exp:
        shown = [a.replace(tmp, "<tmp>") for a in argv]
        return {"class": "cli", "input": {"files": files, "argv": shown}, "observed": list(got), "expected": list(exp)}
    return None


def special_cases():
    """(description, list of invocations [(files written before the call: name -> text or None to delete, argv tail, expected)])"""
    TWO = "model Tank Real h; equation der(h) = 1; end Tank;\nmodel Pump Real q; equation q = 2; end Pump;\n"
    PKG = "package P model A Real a; equation a = 1; end A; end P;\n"
    INP = "within P; model B Real b; equation b = 2; end B;\n"
    out = []
    # casadi needs a file named after each model: a model that merely lives in an earlier model's file has none, in either order
    for models in (["Tank", "Pump"], ["Pump", "Tank"], ["Tank", "Pump", "Tank"]):
        argv = sum((["-m", m] for m in models), []) + ["-t", "casadi"]
        out.append(("casadi: second model defined inside the first model's file", [({"Tank.mo": TWO}, argv, ("return", sum(1 for m in models if m == "Pump")))]))
    # only files with parse errors, none that parses
    for target in (None, "sympy"):
        out.append(("only broken files", [({"B1.mo": BAD, "B2.mo": BAD}, ["-m", "Good"] + (["-t", target] if target else []), ("return", 2))]))
        out.append(("only broken files", [({"B1.mo": BAD, "B2.mo": BAD, "B3.mo": BAD}, [], ("return", 3))]))
    # 'for every invocation': two invocations in one process, the files edited in between
    out.append(("file breaks between two invocations", [({"Good.mo": GOOD}, ["-m", "Good"], ("return", 0)), ({"Good.mo": BAD}, ["-m", "Good"], ("return", 1))]))
    out.append(("file repaired between two invocations", [({"Good.mo": BAD}, ["-m", "Good"], ("return", 1)), ({"Good.mo": GOOD}, ["-m", "Good"], ("return", 0))]))
    out.append(("a class of a file that is gone in the second invocation", [({"A.mo": PKG, "B.mo": INP}, ["-m", "P.B"], ("return", 0)), ({"B.mo": None}, ["-m", "P.B"], ("return", 1))]))
    # the same library reached through a directory whose path has a dot element (~/.local/share/..., .build/models)
    out.append(("dotdir: two broken files below a dot directory", [({"B1.mo": BAD, "B2.mo": BAD}, [], ("return", 2))]))
    out.append(("dotdir: valid model below a dot directory", [({"Good.mo": GOOD}, ["-m", "Good"], ("return", 0))]))
    out.append(("dotdir: valid model below a dot directory, sympy", [({"Good.mo": GOOD}, ["-m", "Good", "-t", "sympy"], ("return", 0))]))
    out.append(("same with the sympy target", [({"A.mo": PKG, "B.mo": INP}, ["-m", "P.B", "-t", "sympy"], ("return", 0)), ({"B.mo": None}, ["-m", "P.B", "-t", "sympy"], ("return", 1))]))
    return out


def judge_special(desc, steps):
    with tempfile.TemporaryDirectory() as tmp:
        d = (Path(tmp) / ".ws" / "lib") if desc.startswith("dotdir:") else (Path(tmp) / "lib")
        d.mkdir(parents=True)
        out = Path(tmp) / "out"
        out.mkdir()
        cwd = os.getcwd()
        os.chdir(tmp)
        try:
            for k, (files, tail, exp) in enumerate(steps):
                for name, text in files.items():
                    if text is None:
                        (d / name).unlink()
                    else:
                        (d / name).write_text(text)
                got = run_main([str(d)] + tail + ["-o", str(out)])
                if got != exp:
                    return {"class": "cli", "input": {"scenario": desc, "invocation": k + 1, "files": sorted(p.name for p in d.iterdir()), "argv": ["<tmp>/lib"] + tail},
                            "observed": list(got), "expected": list(exp)}
        finally:
            os.chdir(cwd)
    return None


def main():
    payload = json.load(sys.stdin)
    tier = payload.get("tier", "quick")
    failures, n = [], 0
    for desc, steps in special_cases():
        n += 1
        try:
            f = judge_special(desc, steps)
        except Exception as e:  # noqa
            f = {"class": "cli", "input": {"scenario": desc}, "observed": "harness error %s: %s" % (type(e).__name__, e), "expected": "-"}
        if f:
            failures.append(f)
    for c in cases(tier):
        n += 1
        try:
            f = judge(c)
        except Exception as e:  # noqa
            f = {"class": "cli", "input": {"case": repr(c)}, "observed": "harness error %s: %s" % (type(e).__name__, e), "expected": "-"}
        if f:
            failures.append(f)
            if len(failures) >= 4:
                break
    if payload.get("mode") == "bounded":
        print(json.dumps({"performed": True, "cases": n, "distinct_nontrivial": n, "failures": failures,
                          "rule": "real tools.compiler.main on temp trees: file sets (valid, syntactically broken, not UTF-8 encoded) x model lists (valid, unflattenable, unknown, repeated, both orders) x target (none/sympy/casadi) "
                                  "plus usage-error combinations, casadi calls whose second model lives in the first model's file, invocations with only broken files, and pairs of invocations in one process with the files edited in between; status compared with an oracle count",
                          "bound": "%d invocations" % n}))
    else:
        f = failures[0] if failures else None
        print(json.dumps({"performed": True, "reproduces": f is not None, "input": f and f["input"], "observed": f and f["observed"],
                          "expected": f and f["expected"], "input_class": "cli"}))


if __name__ == "__main__":
    main()
