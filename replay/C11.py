"""C11 replay / bounded stand-in: residuals of real generated models evaluated numerically against a Python
reference of the Modelica semantics: one model per operator, if-expressions / if-equations with several
true branches, for-loops with stepped ranges, element-wise array operators, a user function."""
import itertools
import json
import math
import sys

import numpy as np


def residual(txt, name, env, opts=None):
    import casadi as ca
    import pymoca.parser
    from pymoca.backends.casadi.generator import generate
    m = generate(pymoca.parser.parse(txt), name, opts)
    f = m.dae_residual_function
    vec = lambda lst: np.concatenate([np.atleast_1d(np.array(env[v.symbol.name()], dtype=float)).reshape(-1, order="F") for v in lst]) if lst else np.zeros(0)
    args = [env.get("time", 0.0), vec(m.states), vec(m.der_states), vec(m.alg_states), vec(m.inputs), vec(m.constants), vec(m.parameters)]
    return np.array(f(*args), dtype=float).reshape(-1)


BIN = {
    "+": lambda a, b: a + b, "-": lambda a, b: a - b, "*": lambda a, b: a * b, "/": lambda a, b: a / b, "^": lambda a, b: a ** b,
}
REL = {"<": lambda a, b: a < b, "<=": lambda a, b: a <= b, ">": lambda a, b: a > b, ">=": lambda a, b: a >= b, "==": lambda a, b: a == b,
       "<>": lambda a, b: a != b}
FN1 = {"sin": math.sin, "cos": math.cos, "tan": math.tan, "exp": math.exp, "log": math.log, "sqrt": math.sqrt, "abs": abs, "sinh": math.sinh,
       "cosh": math.cosh, "tanh": math.tanh, "log10": math.log10}
FN2 = {"min": min, "max": max}


def cases(tier):
    out = []
    pts = [(1.5, 0.5), (0.5, 1.5), (2.0, 2.0), (-1.5, 0.75)]
    for op, f in BIN.items():
        for a, b in pts:
            if op == "^" and a < 0:
                continue
            out.append(("model M Real a; Real b; Real y; equation y = a %s b; a = 0; b = 0; end M;" % op, {"a": a, "b": b, "y": 0.0}, [-f(a, b)], "binary " + op))
    for op, f in REL.items():
        for a, b in pts:
            out.append(("model M Real a; Real b; Real y; equation y = if a %s b then 1 else 0; a = 0; b = 0; end M;" % op, {"a": a, "b": b, "y": 0.0},
                        [-(1.0 if f(a, b) else 0.0)], "relation " + op))
    for lop, f in (("and", lambda p, q: p and q), ("or", lambda p, q: p or q)):
        for a, b in pts:
            out.append(("model M Real a; Real b; Real y; equation y = if (a > 1) %s (b > 1) then 1 else 0; a = 0; b = 0; end M;" % lop,
                        {"a": a, "b": b, "y": 0.0}, [-(1.0 if f(a > 1, b > 1) else 0.0)], "logic " + lop))
    for a, b in pts:
        out.append(("model M Real a; Real b; Real y; equation y = if not (a > 1) then 1 else 0; a = 0; b = 0; end M;", {"a": a, "b": b, "y": 0.0},
                    [-(0.0 if a > 1 else 1.0)], "logic not"))
        out.append(("model M Real a; Real b; Real y; equation y = -a + (+b); a = 0; b = 0; end M;", {"a": a, "b": b, "y": 0.0}, [-(-a + b)], "unary"))
    for fn, f in FN1.items():
        for a in (0.5, 1.5):
            out.append(("model M Real a; Real y; equation y = %s(a); a = 0; end M;" % fn, {"a": a, "y": 0.0}, [-f(a)], "function " + fn))
    for fn, f in FN2.items():
        for a, b in pts:
            out.append(("model M Real a; Real b; Real y; equation y = %s(a, b); a = 0; b = 0; end M;" % fn, {"a": a, "b": b, "y": 0.0}, [-f(a, b)], "function " + fn))
    # if-expression / if-equation with several branches, evaluated where several conditions hold
    ifx = "model M Real x; Real y; equation y = if x > 1 then 10 elseif x > 2 then 20 elseif x > 3 then 30 else 40; x = 0; end M;"
    ife = "model M Real x; Real y; equation if x > 1 then y = 10; elseif x > 2 then y = 20; elseif x > 3 then y = 30; else y = 40; end if; x = 0; end M;"
    for x in (0.5, 1.5, 2.5, 3.5, 7.0):
        want = 10 if x > 1 else 40
        out.append((ifx, {"x": x, "y": 0.0}, [-want], "if-expression"))
        out.append((ife, {"x": x, "y": 0.0}, [-want], "if-equation"))
    # for-loops: ranges with steps, residual rows y[i] - i*x
    for (lo, st, hi) in [(1, 1, 3), (1, 2, 4), (1, 2, 5), (2, 3, 6), (1, 1, 1), (2, 2, 6), (1, 3, 6)]:
        idx = list(range(lo, hi + (1 if st > 0 else -1), st))
        rng = "%d:%d" % (lo, hi) if st == 1 else "%d:%d:%d" % (lo, st, hi)
        txt = "model M Real x; Real y[6]; equation for i in %s loop y[i] = i * x; end for; x = 0; end M;" % rng
        out.append((txt, {"x": 2.0, "y": [0.0] * 6}, [-(i * 2.0) for i in idx], "for-loop range " + rng))
    # element-wise array operators and 1-based indexing
    out.append(("model M Real v[3]; Real w[3]; Real y[3]; equation y = v .* w; v = {0, 0, 0}; w = {0, 0, 0}; end M;",
                {"v": [1.0, 2.0, 3.0], "w": [4.0, 5.0, 6.0], "y": [0.0] * 3}, [-4.0, -10.0, -18.0], "element-wise .*"))
    out.append(("model M Real v[3]; Real y; equation y = v[1] - v[3] * 2 + v[2]; v = {0, 0, 0}; end M;",
                {"v": [1.0, 10.0, 100.0], "y": 0.0}, [-(1.0 - 200.0 + 10.0)], "1-based indexing"))
    out.append(("model M Real v[4]; Real y[2]; equation y = v[2:3]; v = {0, 0, 0, 0}; end M;",
                {"v": [1.0, 10.0, 100.0, 1000.0], "y": [0.0, 0.0]}, [-10.0, -100.0], "slice"))
    # user function with an algorithm section (sequential assignment)
    fn = ("function f input Real a; input Real b; output Real r; protected Real t; algorithm t := a + b; t := t * 2; r := t - a; end f; "
          "model M Real x; Real y; equation y = f(x, 3); x = 0; end M;")
    out.append((fn, {"x": 1.5, "y": 0.0}, [-((1.5 + 3) * 2 - 1.5)], "user function"))
    # user functions may carry names the casadi module uses for functions of its own: the user's algorithm is what is called
    for uname in ("times", "plus", "transform", "solve"):
        out.append((fn.replace("function f ", "function %s " % uname).replace("end f;", "end %s;" % uname).replace("f(x, 3)", "%s(x, 3)" % uname),
                    {"x": 1.5, "y": 0.0}, [-((1.5 + 3) * 2 - 1.5)], "user function named like a CasADi function (%s)" % uname))
    # declaration values of function variables are evaluated before the algorithm section; an input's default does not override an argument
    fd = ("function acc input Real a; output Real y := 10; algorithm y := y + a; end acc; model M Real x; Real y; equation y = acc(x); x = 0; end M;")
    out.append((fd, {"x": 1.5, "y": 0.0}, [-(10 + 1.5)], "function output with a declaration value read by the body"))
    fp = ("function sc input Real a; output Real y; protected Real d := 2 * a; algorithm d := d + 1; y := d * a; end sc; model M Real x; Real y; equation y = sc(x); x = 0; end M;")
    out.append((fp, {"x": 1.5, "y": 0.0}, [-((2 * 1.5 + 1) * 1.5)], "protected variable with a declaration value, reassigned"))
    fi = ("function sg input Real a; input Real gain = 2; output Real y; algorithm y := gain * a + a / 2; end sg; model M Real x; Real y; equation y = sg(x, 5); x = 0; end M;")
    out.append((fi, {"x": 1.5, "y": 0.0}, [-(5 * 1.5 + 0.75)], "defaulted input passed explicitly"))
    f1 = ("function transform input Real a; output Real r; algorithm r := 3 * a + 1; end transform; model M Real x; Real y; equation y = transform(x); x = 0; end M;")
    out.append((f1, {"x": 2.0, "y": 0.0}, [-7.0], "one-argument user function named like a CasADi function"))
    # for-statement in a function whose body statements depend on each other: iteration by iteration, statement by statement
    fs = ("function g input Real x; output Real p; protected Real s; algorithm s := 0; p := 1; for i in 1:3 loop s := s + x; p := p * s; end for; end g; "
          "model M Real x; Real y; equation y = g(x); x = 0; end M;")
    for xv in (1.0, 2.0, -0.5):
        s_, p_ = 0.0, 1.0
        for _ in range(3):
            s_ = s_ + xv
            p_ = p_ * s_
        out.append((fs, {"x": xv, "y": 0.0}, [-p_], "for-statement coupled body"))
    fs2 = ("function h input Real x; output Real q; protected Real a; protected Real b; algorithm a := x; b := 1; for i in 1:2:5 loop b := a + b * i; a := b - i; end for; q := a + 10 * b; end h; "
           "model M Real x; Real y; equation y = h(x); x = 0; end M;")
    for xv in (1.0, 0.25):
        a_, b_ = xv, 1.0
        for i in (1, 3, 5):
            b_ = a_ + b_ * i
            a_ = b_ - i
        out.append((fs2, {"x": xv, "y": 0.0}, [-(a_ + 10 * b_)], "for-statement stepped coupled body"))
    # if-statement in a function: the first true branch wins for every assigned variable
    fi = ("function k input Real x; output Real r; output Real t; algorithm if x > 1 then r := 10; t := x; elseif x > 2 then r := 20; t := 2 * x; else r := 30; t := 3 * x; end if; end k; "
          "model M Real x; Real y; Real z; equation (y, z) = k(x); x = 0; end M;")
    for xv in (0.5, 1.5, 2.5):
        r_, t_ = (10.0, xv) if xv > 1 else (30.0, 3 * xv)
        out.append((fi, {"x": xv, "y": 0.0, "z": 0.0}, [-r_, -t_], "if-statement"))
    # surplus outputs of a function call are discarded, the kept ones stay in declaration order
    fo = ("function k2 input Real x; output Real r; output Real t; algorithm r := x + 1; t := x * 7; end k2; "
          "model M Real x; Real y; equation y = k2(x); x = 0; end M;")
    out.append((fo, {"x": 2.0, "y": 0.0}, [-3.0], "function output truncation"))
    # for-equation over two indexed arrays and a free symbol
    fe = "model M Real x; Real a[4]; Real b[4]; Real y[4]; equation for i in 1:4 loop y[i] = a[i] * x - b[i]; end for; x = 0; end M;"
    out.append((fe, {"x": 3.0, "a": [1.0, 2.0, 3.0, 4.0], "b": [10.0, 20.0, 30.0, 40.0], "y": [0.0] * 4}, [-(ai * 3.0 - bi) for ai, bi in zip([1, 2, 3, 4], [10, 20, 30, 40])],
                "for-loop two indexed arrays"))
    fe2 = "model M Real a[4]; Real y[3]; equation for i in 1:3 loop y[i] = a[i + 1] - a[i]; end for; a = {0, 0, 0, 0}; end M;"
    out.append((fe2, {"a": [1.0, 4.0, 9.0, 16.0], "y": [0.0] * 3}, [-3.0, -5.0, -7.0], "for-loop shifted index"))
    # der() of an expression over a vector state: chain rule over every element
    dv = "model M Real x[3]; Real a; equation a = der(x[2] * x[3]); x = {0, 0, 0}; end M;"
    out.append((dv, {"x": [2.0, 3.0, 5.0], "der(x)": [7.0, 11.0, 13.0], "a": 0.0}, [-(11.0 * 5.0 + 3.0 * 13.0)], "derivative of a product of vector elements"))
    dp = ("function pick input Real v[3]; output Real r; algorithm r := v[2] * 2; end pick; "
          "model M Real x[3]; Real a; equation a = der(pick(x)); x = {0, 0, 0}; end M;")
    out.append((dp, {"x": [2.0, 3.0, 5.0], "der(x)": [7.0, 11.0, 13.0], "a": 0.0}, [-22.0], "derivative of a function of a vector (inlined)"))
    out.append((dp, {"x": [2.0, 3.0, 5.0], "der(x)": [7.0, 11.0, 13.0], "a": 0.0}, [-22.0], "derivative of a function of a vector (not inlined)", {"inline_functions": False}))
    # two derivative references to ONE array with different subscripts in one loop body, in either order
    ch = "model M Real x[4]; equation for i in 1:3 loop der(x[i + 1]) - der(x[i]) = x[i]; end for; der(x[1]) = 0; end M;"
    out.append((ch, {"x": [1.0, 2.0, 3.0, 4.0], "der(x)": [10.0, 20.0, 40.0, 80.0]}, [10.0 - 1.0, 20.0 - 2.0, 40.0 - 3.0], "for-loop derivative with two subscripts of one array"))
    ch2 = "model M Real x[4]; equation for i in 1:3 loop der(x[i]) + 2 * der(x[i + 1]) = x[i + 1]; end for; der(x[4]) = 0; end M;"
    out.append((ch2, {"x": [1.0, 2.0, 3.0, 4.0], "der(x)": [10.0, 20.0, 40.0, 80.0]}, [10.0 + 40.0 - 2.0, 20.0 + 80.0 - 3.0, 40.0 + 160.0 - 4.0],
                "for-loop derivative with two subscripts of one array (other order)"))
    # derivatives are independent inputs
    out.append(("model M Real x; equation der(x) = 2 * x + 1; end M;", {"x": 3.0, "der(x)": 0.25}, [0.25 - 7.0], "derivative input"))
    return out


def main():
    payload = json.load(sys.stdin)
    tier = payload.get("tier", "quick")
    failures, n = [], 0
    for case in cases(tier):
        txt, env, want, label = case[:4]
        n += 1
        try:
            r = residual(txt, "M", env, case[4] if len(case) > 4 else None)
            got = r[:len(want)]
            bad = None if len(r) >= len(want) and np.allclose(got, want, rtol=1e-9, atol=1e-12) else "first rows of the residual at %s: %s" % (env, np.round(r, 9).tolist())
        except BaseException as e:  # noqa
            bad = "%s: %s" % (type(e).__name__, str(e)[:100])
        if bad:
            failures.append({"class": label.split(" ")[0], "input": txt, "observed": bad, "expected": "%s (%s)" % (want, label)})
            if len(failures) >= 4:
                break
    if payload.get("mode") == "bounded":
        print(json.dumps({"performed": True, "cases": n, "distinct_nontrivial": n, "failures": failures,
                          "rule": "one real model per operator (+ - * / ^, relations incl. <>, not/and/or, min/max/abs, elementary functions) at several points, if-expressions and if-equations with 3 conditions evaluated where 0..3 of them hold, for-loops over stepped / descending ranges, element-wise operators, indexing, slices, declaration values of function outputs / protected variables / defaulted inputs, a user function with an algorithm section (also under names the casadi module uses itself), for-statements whose body statements depend on each other, if-statements, discarded function outputs, for-equations over several indexed arrays, der() as independent input, der() of expressions over vector states with and without function inlining; the first residual rows are compared with a Python reference",
                          "bound": "%d model/point pairs" % n}))
    else:
        f = failures[0] if failures else None
        print(json.dumps({"performed": True, "reproduces": f is not None, "input": f and f["input"], "observed": f and f["observed"],
                          "expected": f and f["expected"], "input_class": f and f["class"]}))


if __name__ == "__main__":
    main()
