#!/bin/bash
# runs the repository test suite on /repo (or $1) and reports stable-baseline tests that no longer pass
R=${1:-/repo}
cd $R && PYTHONPATH=$R/src /venv/bin/python -m pytest -q -p no:cacheprovider --timeout=900 test --junitxml=/tmp/_bl_junit.xml > /tmp/_bl_tests.log 2>&1
python3 - <<PY
import json,xml.etree.ElementTree as ET
base=set(json.load(open('/root/.vp/BASELINE.json'))['stable_pass'])
ok=set()
for tc in ET.parse('/tmp/_bl_junit.xml').iter('testcase'):
    if not any(c.tag in('failure','error','skipped') for c in tc):
        ok.add(tc.get('classname')+'::'+tc.get('name'))
print("passing:",len(ok),"stable missing:",sorted(base-ok))
PY
rm -f /tmp/_bl_junit.xml /tmp/_bl_tests.log
