"""Interface facts of the installed CasADi, read from the package by tools/introspect_casadi.py (under the repo's
interpreter) once per checker process -- never written by hand."""
import json
import os
import subprocess

_FACTS = None


def casadi_facts():
    global _FACTS
    if _FACTS is None:
        here = os.path.dirname(os.path.dirname(os.path.abspath(__file__)))
        out = subprocess.run([os.environ.get("PYVC_REPO_PYTHON", "/venv/bin/python"), os.path.join(here, "tools", "introspect_casadi.py")],
                             capture_output=True, text=True, timeout=120).stdout
        _FACTS = json.loads(out.strip().splitlines()[-1])
    return _FACTS
