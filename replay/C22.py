"""C22 replay / bounded stand-in: delay() durations from every variable category through the real transfer_model."""
import itertools
import json
import os
import sys
import tempfile

import numpy as np

DURATIONS = {  # text -> allowed?
    "3600.0": True, "c": True, "p": True, "2 * p + c": True, "uf": True, "p * uf": True,
    "time": False, "x": False, "der(x)": False, "a": False, "u": False, "p + a": False, "uf + u": False, "x * c": False,
}


def model(durs, loop=False):
    lines = ["model M", "  constant Real c = 2.0;", "  parameter Real p = 3.0;", "  input Real u;", "  input Real uf(fixed = true);",
             "  Real x;", "  Real a;", "  Real dd;", "  Real df;"]
    for i in range(len(durs)):
        lines.append("  Real y%d;" % i)
    if loop:
        lines.append("  Real v[2]; Real w[2];")
    lines += ["equation", "  der(x) = -x + u + uf;", "  a = 2 * x;", "  dd = u;", "  df = uf;"]
    for i, d in enumerate(durs):
        lines.append("  y%d = delay(x + %d, %s);" % (i, i, d))
    if loop:
        lines += ["  for i in 1:2 loop", "    v[i] = x * i;", "    w[i] = delay(v[i], p);", "  end for;"]
    lines.append("end M;")
    return "\n".join(lines)


def run(durs, loop=False, opts=None):
    from pymoca.backends.casadi.api import transfer_model
    txt = model(durs, loop)
    with tempfile.TemporaryDirectory() as tmp:
        with open(os.path.join(tmp, "M.mo"), "w") as f:
            f.write(txt)
        try:
            m = transfer_model(tmp, "M", dict(opts or {}))
        except ValueError as e:
            return txt, ("rejected", str(e)[:80]), None
        except BaseException as e:  # noqa
            return txt, ("error", "%s: %s" % (type(e).__name__, str(e)[:100])), None
        return txt, ("accepted", ""), m


def check_args(m, durs):
    """delay_arguments_function returns [expr_i, duration_i ...] with the right values"""
    f = m.delay_arguments_function
    rng = np.random.RandomState(3)
    args = [rng.uniform(0.5, 2.0, size=(f.size1_in(i), f.size2_in(i))) for i in range(f.n_in())]
    res = f(*args)
    res = list(res) if isinstance(res, (list, tuple)) else [res]
    if len(res) < 2 * len(durs):
        return "function has %d outputs for %d delays" % (len(res), len(durs))
    names = ["time"] + [[v.symbol.name() for v in getattr(m, c)] for c in ("states", "der_states", "alg_states", "inputs", "constants", "parameters")]
    env = {"time": float(np.array(args[0]).reshape(-1)[0])}
    for lst, val in zip(names[1:], args[1:]):
        for n_, v in zip(lst, np.array(val).reshape(-1)):
            env[n_] = float(v)
    for v in m.constants:
        pass
    for i, d in enumerate(durs):
        want_e = env.get("x", 0) + i
        got_e = float(np.array(res[2 * i]).reshape(-1)[0])
        if abs(got_e - want_e) > 1e-9:
            return "delay %d: expression value %r, expected x + %d = %r" % (i, got_e, i, want_e)
        try:
            want_d = eval(d.replace("der(x)", "dx"), {}, dict(env, uf=env.get("uf", 0), dd=env.get("dd", env.get("u", 0)), df=env.get("df", env.get("uf", 0)),
                                                               c=env.get("c", 2.0), p=env.get("p", 3.0)))
        except Exception:
            continue
        got_d = float(np.array(res[2 * i + 1]).reshape(-1)[0])
        if abs(got_d - want_d) > 1e-9:
            return "delay %d: duration value %r, expected %s = %r" % (i, got_d, d, want_d)
    return None


def loop_pairing_case(order):
    """a for-loop with a delay of an indexed expression and a delay of a loop-invariant expression, in either order: every delay state
    must be paired with ITS expression and duration by delay_arguments_function"""
    from pymoca.backends.casadi.api import transfer_model
    d_idx, d_inv = "y1[i] = delay(2 * x[i], qa);", "y2[i] = delay(3 * s, qb);"
    body = (d_idx + " " + d_inv) if order == "indexed-first" else (d_inv + " " + d_idx)
    txt = ("model M parameter Real qa = 1.5; parameter Real qb = 2.5; Real x[2]; Real s; Real y1[2]; Real y2[2]; "
           "equation der(s) = -s; x[1] = s; x[2] = 4 * s; for i in 1:2 loop %s end for; end M;" % body)
    with tempfile.TemporaryDirectory() as tmp:
        with open(os.path.join(tmp, "M.mo"), "w") as f:
            f.write(txt)
        m = transfer_model(tmp, "M", {})
    f = m.delay_arguments_function
    rng = np.random.RandomState(5)
    args = [rng.uniform(0.5, 2.0, size=(f.size1_in(i), f.size2_in(i))) for i in range(f.n_in())]
    res = f(*args)
    res = list(res) if isinstance(res, (list, tuple)) else [res]
    names = [[v.symbol.name() for v in getattr(m, c)] for c in ("states", "der_states", "alg_states", "inputs", "constants", "parameters")]
    env = {}
    for lst, val, vars_ in zip(names, args[1:], [getattr(m, c) for c in ("states", "der_states", "alg_states", "inputs", "constants", "parameters")]):
        flat = np.array(val).reshape(-1)
        k = 0
        for v in vars_:
            n_ = v.symbol.numel()
            env[v.symbol.name()] = flat[k:k + n_]
            k += n_
    s_val, x_val = float(env["s"][0]), env["x"]
    # which delay state stands for which call: read it off the residual (y1 rows use the indexed delay's state)
    # delay states are numbered in the order of the delay() calls in the source
    kinds = ["indexed", "invariant"] if order == "indexed-first" else ["invariant", "indexed"]
    expected = {"_pymoca_delay_%d" % j: kd for j, kd in enumerate(kinds)}
    if sorted(m.delay_states) != sorted(expected):
        return txt, "delay states %s" % list(m.delay_states)
    for i, st in enumerate(m.delay_states):
        e_val = np.array(res[2 * i]).reshape(-1)
        d_val = float(np.array(res[2 * i + 1]).reshape(-1)[0])
        if expected[st] == "indexed":
            want_e, want_d = 2 * np.array(x_val), float(env["qa"][0])
        else:
            want_e, want_d = np.array([3 * s_val] * max(1, e_val.size)), float(env["qb"][0])
        if e_val.size != np.array(want_e).size or not np.allclose(e_val, want_e) or abs(d_val - want_d) > 1e-12:
            return txt, "delay state %s (the %s delay): delay_arguments_function gives expression %s duration %r, expected %s and %r" % (
                st, expected[st], np.round(e_val, 6).tolist(), d_val, np.round(np.array(want_e), 6).tolist(), want_d)
    return txt, None


def matrix_delay_case(opts):
    """delay of a 2-D array expression under expand_vectors: the delay state named ...[i,j] delays element (i,j) of the expression"""
    from pymoca.backends.casadi.api import transfer_model
    txt = ("model M parameter Real p = 3.0; Real x[2,3]; Real z[2,3]; Real y[2,3]; equation der(x) = -x; z = 3 * x; y = delay(2 * x + z, p); end M;")
    with tempfile.TemporaryDirectory() as tmp:
        with open(os.path.join(tmp, "M.mo"), "w") as f:
            f.write(txt)
        m = transfer_model(tmp, "M", dict(opts))
    f = m.delay_arguments_function
    rng = np.random.RandomState(5)
    args = [rng.uniform(0.5, 2.0, size=(f.size1_in(i), f.size2_in(i))) for i in range(f.n_in())]
    res = f(*args)
    res = list(res) if isinstance(res, (list, tuple)) else [res]
    env = {}
    for lst, val in zip([[v.symbol.name() for v in getattr(m, c)] for c in ("states", "der_states", "alg_states", "inputs", "constants", "parameters")], args[1:]):
        for n_, v in zip(lst, np.array(val).reshape(-1, order="F")):
            env[n_] = float(v)
    if len(m.delay_states) != 6 or len(res) != 12:
        return txt, "%d delay states, %d outputs (expected 6 and 12)" % (len(m.delay_states), len(res))
    for k, ds in enumerate(m.delay_states):
        idx = ds[ds.index("[") + 1:-1]
        want = 2 * env["x[%s]" % idx] + env["z[%s]" % idx]
        got = float(np.array(res[2 * k]).reshape(-1)[0])
        if abs(got - want) > 1e-9:
            return txt, "delay state %s delays %r, but element [%s] of 2*x + z is %r (options %s)" % (ds, got, idx, want, opts)
        if abs(float(np.array(res[2 * k + 1]).reshape(-1)[0]) - env.get("p", 3.0)) > 1e-9:
            return txt, "delay state %s has duration %r instead of p" % (ds, float(np.array(res[2 * k + 1]).reshape(-1)[0]))
    return txt, None


def fixed_by_parameter_case(hold, opts):
    """the `fixed` flag of an input written as a Boolean parameter; the options resolve it to its value before the check: the model
    is accepted exactly if the parameter is true"""
    from pymoca.backends.casadi.api import transfer_model
    txt = ("model M parameter Boolean hold = %s; parameter Real p = 3.0; input Real uh(fixed = hold); Real x; Real y; "
           "equation der(x) = -x + uh; y = delay(x, uh * p); end M;" % ("true" if hold else "false"))
    with tempfile.TemporaryDirectory() as tmp:
        with open(os.path.join(tmp, "M.mo"), "w") as f:
            f.write(txt)
        try:
            transfer_model(tmp, "M", dict(opts))
            verdict = "accepted"
        except ValueError as e:
            verdict = "rejected (%s)" % str(e)[:60]
        except BaseException as e:  # noqa
            verdict = "error %s: %s" % (type(e).__name__, str(e).replace("\n", " ")[:100])
    want = "accepted" if hold else "rejected"
    return txt, (None if verdict.startswith(want) else "with options %s: %s, expected %s (the duration depends on a parameter and an input whose fixed flag is the parameter hold = %s)" % (opts, verdict, want, hold))


def hidden_symbol_case(opts):
    """a delayed loop expression over a[2:3] whose graph, after vector expansion, still mentions a[1]; alias detection then removes
    a[1] (= x[1]): the delay-argument function must still be buildable and give 3 * a[i] * eps"""
    from pymoca.backends.casadi.api import transfer_model
    txt = ("model M Real x[3]; Real y[3]; Real a[3]; input Real z[3]; parameter Real tau = 2.0; parameter Real eps = 0.5; equation "
           "for i in 2:3 loop x[i] = 5 * z[i] * eps; y[i] = delay(3 * a[i] * eps, tau); end for; "
           "x[1] = 2 * z[1]; y[1] = 0; a[1] = x[1]; a[2] = x[2] * x[2]; a[3] = x[3] * x[3]; end M;")
    with tempfile.TemporaryDirectory() as tmp:
        with open(os.path.join(tmp, "M.mo"), "w") as f:
            f.write(txt)
        m = transfer_model(tmp, "M", dict(opts))
    try:
        f = m.delay_arguments_function
    except BaseException as e:  # noqa
        return txt, "delay_arguments_function cannot be built with options %s: %s: %s" % (opts, type(e).__name__, str(e).replace("\n", " ")[-160:])
    rng = np.random.RandomState(7)
    args = [rng.uniform(0.5, 2.0, size=(f.size1_in(i), f.size2_in(i))) for i in range(f.n_in())]
    res = f(*args)
    res = list(res) if isinstance(res, (list, tuple)) else [res]
    env = {}
    for lst, val in zip([[v.symbol.name() for v in getattr(m, c)] for c in ("states", "der_states", "alg_states", "inputs", "constants", "parameters")], args[1:]):
        for n_, v in zip(lst, np.array(val).reshape(-1, order="F")):
            env[n_] = float(v)
    if len(res) != 2 * len(m.delay_states):
        return txt, "%d outputs for %d delay states" % (len(res), len(m.delay_states))
    for k, ds in enumerate(m.delay_states):
        got_d = float(np.array(res[2 * k + 1]).reshape(-1)[0])
        if abs(got_d - env.get("tau", 2.0)) > 1e-9:
            return txt, "delay state %s has duration %r instead of tau" % (ds, got_d)
    return txt, None


def main():
    payload = json.load(sys.stdin)
    tier = payload.get("tier", "quick")
    failures, n = [], 0
    allowed = [d for d, ok in DURATIONS.items() if ok]
    cases = [([d], False, {}) for d in DURATIONS]
    cases += [([a, b], False, {}) for a, b in itertools.product(["3600.0", "p", "time", "a"], ["c", "uf", "x", "u", "der(x)"])]
    cases += [([b, a], False, {}) for a, b in itertools.product(["3600.0", "p"], ["time", "a", "u"])]
    cases += [(["c", "p"], True, {}), (["3600.0", "x"], True, {}), (["c", "time"], False, {"replace_constant_values": True}),
              (["3600.0", "c", "u"], False, {}), (["p", "3600.0", "c"], False, {"replace_constant_values": True})]
    if tier != "quick":
        cases += [(list(t), False, {}) for t in itertools.product(list(DURATIONS)[::2], repeat=3)]
    # compound durations whose symbols are replaced by a simplification step (the stored delay arguments must follow)
    # df is an algebraic variable equal to the fixed input uf: a duration over it is allowed exactly when alias detection has replaced it
    ALIASED = lambda o: bool(o.get("detect_aliases"))
    EXTRA = {"2 * c": True, "c + p": True, "2 * dd": False, "dd + 1": False, "2 * df": ALIASED, "uf * df": ALIASED}
    DURATIONS.update(EXTRA)
    for o in ({"replace_constant_values": True}, {"detect_aliases": True}, {"replace_parameter_values": True, "replace_constant_values": True},
              {"detect_aliases": True, "replace_constant_values": True, "expand_mx": True}):
        cases += [([d], False, o) for d in EXTRA] + [(["2 * c", "2 * df"], False, o), (["p", "dd + 1"], False, o)]
    for order in ("indexed-first", "invariant-first"):
        n += 1
        try:
            txt, bad = loop_pairing_case(order)
        except BaseException as e:  # noqa
            txt, bad = "loop pairing model (%s)" % order, "%s: %s" % (type(e).__name__, str(e)[-200:])
        if bad:
            failures.append({"class": "delay", "input": txt, "observed": bad, "expected": "each delay state paired with its own expression and duration"})
    for o in ({"expand_vectors": True}, {"expand_vectors": True, "expand_mx": True}):
        n += 1
        try:
            txt, bad = matrix_delay_case(o)
        except BaseException as e:  # noqa
            txt, bad = "matrix delay model", "%s: %s" % (type(e).__name__, str(e)[-200:])
        if bad:
            failures.append({"class": "delay", "input": txt, "observed": bad, "expected": "each element's delay state paired with that element of the delayed expression"})
    for o in ({"expand_vectors": True, "detect_aliases": True}, {"expand_vectors": True, "detect_aliases": True, "expand_mx": True}):
        n += 1
        try:
            txt, bad = hidden_symbol_case(o)
        except BaseException as e:  # noqa
            txt, bad = "hidden symbol model", "%s: %s" % (type(e).__name__, str(e)[-200:])
        if bad:
            failures.append({"class": "delay", "input": txt, "observed": bad, "expected": "a delay-argument function over the symbols of the simplified model"})
    for hold in (True, False):
        for o in ({"replace_parameter_values": True}, {"resolve_parameter_values": True}):
            n += 1
            try:
                txt, bad = fixed_by_parameter_case(hold, o)
            except BaseException as e:  # noqa
                txt, bad = "fixed-by-parameter model", "%s: %s" % (type(e).__name__, str(e)[-200:])
            if bad:
                failures.append({"class": "delay", "input": txt, "observed": bad, "expected": "accepted iff the input is fixed"})
    for durs, loop, opts in cases:
        n += 1
        txt, (verdict, info), m = run(durs, loop, opts)
        should_accept = all((DURATIONS[d](opts) if callable(DURATIONS[d]) else DURATIONS[d]) for d in durs)
        bad = None
        if verdict == "error":
            bad = info
        elif should_accept and verdict != "accepted":
            bad = "rejected: " + info
        elif not should_accept and verdict != "rejected":
            bad = "accepted"
        elif verdict == "accepted" and not loop:
            try:
                bad = check_args(m, durs)
            except BaseException as e:  # noqa
                bad = "delay_arguments_function cannot be built/evaluated with options %s: %s: %s" % (opts, type(e).__name__, str(e).replace("\n", " ")[-220:])
        if bad:
            failures.append({"class": "delay", "input": txt, "observed": bad,
                             "expected": ("accepted with delay arguments [expr, duration]..." if should_accept else "rejected with ValueError")})
            if len(failures) >= 3:
                break
    if payload.get("mode") == "bounded":
        print(json.dumps({"performed": True, "cases": n, "distinct_nontrivial": n, "failures": failures,
                          "rule": "delay durations drawn from each category (literal, constant, parameter, fixed input | time, state, derivative, algebraic, non-fixed input, mixtures), one to three delays in both orders, inside and outside a for-loop, with replace_constant_values, and compound durations over constants / aliased inputs under replace_*_values and detect_aliases: the real transfer_model must reject exactly the disallowed ones; for accepted models delay_arguments_function is evaluated at a random point; a delayed 2-D array expression under expand_vectors (element-wise pairing); a delayed loop expression whose graph mentions an element that alias detection removes; a for-loop with an indexed and a loop-invariant delay in both orders: every delay state paired with its own expression and duration",
                          "bound": "%d models" % n}))
    else:
        f = failures[0] if failures else None
        print(json.dumps({"performed": True, "reproduces": f is not None, "input": f and f["input"], "observed": f and f["observed"],
                          "expected": f and f["expected"], "input_class": "delay"}))


if __name__ == "__main__":
    main()
