"""C26 -- compiler CLI exit status counts exactly the errors.

Function under contract: tools.compiler.main (real source, whole function), with contracts for its
callees parse_all / list_modelica_files / flatten_class / translate / casadi transfer_model that
carry ghost counters (a failing model adds 1 to g_model, ...).  translate's own body is verified
separately: whatever sympy generate() or the file write raises, it returns False (no exception
escapes), and it returns True otherwise.
Symbolic: verbosity, existence of every path, validity of the output directory, number of files
and of files with parse errors, outcome (success/failure) of every model.  Enumerated (bounded,
stated): list lengths (1-2 paths, 0-2 models, 0-2 options) and option strings by syntactic class (also one NAME given twice).
"""
import z3

from pyvc import ops
from pyvc.engine import EXC, exc_class, make_exc
from pyvc.values import Ext, NoOp, PathEnd, PyRaise, Unsupported, VBound, VClass, VDict, VList, VObj, stub

MOD = "tools.compiler"
LOGLEVELS = {"DEBUG": 10, "INFO": 20, "WARNING": 30, "ERROR": 40, "CRITICAL": 50}


class LogStub(Ext):
    def __init__(self):
        self.level = 30

    def sym_getattr(self, eng, name):
        if name == "level":
            return self.level
        if name == "setLevel":
            def set_level(eng, lv):
                self.level = lv
            return stub(set_level)
        return stub(lambda eng, *a, **k: None)


class LoggingStub(Ext):
    def __init__(self):
        self.log = LogStub()

    def sym_getattr(self, eng, name):
        if name in LOGLEVELS:
            return LOGLEVELS[name]
        if name == "getLogger":
            return stub(lambda eng, *a: self.log)
        if name in ("basicConfig", "shutdown"):
            return stub(lambda eng, *a, **k: None)
        raise Unsupported("logging.%s" % name)


class PathStub(Ext):
    type_names = ("Path",)

    def __init__(self, eng, label, exists=None, is_dir=None, stem=None):
        self.label = label
        self.exists = exists
        self.is_dir_ = is_dir
        self.stem = stem
        self.parent_ = None

    def sym_getattr(self, eng, name):
        if name == "exists":
            return stub(lambda eng: self.exists)
        if name == "is_dir":
            return stub(lambda eng: self.is_dir_)
        if name == "stem":
            return self.stem
        if name == "parent":
            if self.parent_ is None:
                self.parent_ = PathStub(eng, self.label + ".parent")
            return self.parent_
        if name == "joinpath":
            return stub(lambda eng, *a: PathStub(eng, self.label + "/joined"))
        if name == "open":
            return stub(lambda eng, *a, **k: FileStub(self))
        raise Unsupported("Path.%s" % name)


class FileStub(Ext):
    def __init__(self, path):
        self.path = path

    def sym_getattr(self, eng, name):
        if name == "__enter__":
            def enter(eng):
                w = getattr(eng, "c26_world", None)
                if w is not None and eng.branch(w["open_fails"]):
                    raise PyRaise(make_exc("OSError", "open"))
                return self
            return stub(enter)
        if name == "__exit__":
            return stub(lambda eng, *a: False)
        if name == "write":
            def write(eng, text):
                w = getattr(eng, "c26_world", None)
                if w is not None and eng.branch(w["write_fails"]):
                    raise PyRaise(make_exc("OSError", "write"))
            return stub(write)
        raise Unsupported("file.%s" % name)


class CountedList(Ext):
    """a list of which only the length matters"""
    type_names = ("list",)

    def __init__(self, n):
        self.n = n

    def sym_len(self, eng):
        return self.n

    def sym_truth(self, eng):
        return self.n > 0


class ParserStub(Ext):
    def __init__(self, ns):
        self.ns = ns

    def sym_getattr(self, eng, name):
        if name in ("add_argument",):
            return stub(lambda eng, *a, **k: None)
        if name == "add_argument_group":
            return stub(lambda eng, *a, **k: self)
        if name == "parse_args":
            return stub(lambda eng, argv: self.ns)
        if name == "error":
            def error(eng, msg):
                raise PyRaise(VObj(EXC["SystemExit"], {"args": (2,), "code": 2}))
            return stub(error)
        raise Unsupported("ArgumentParser.%s" % name)


class ModuleStub(Ext):
    def __init__(self, name, attrs):
        self.name, self.attrs = name, attrs

    def sym_getattr(self, eng, name):
        if name in self.attrs:
            return self.attrs[name]
        raise Unsupported("%s.%s" % (self.name, name))

    def sym_getitem(self, eng, key):
        return self


OPTION_CLASSES = ["name=true", "name=False", "name=text", "novalue", "a=b=c"]
OPTION_SETS = [[]] + [[c] for c in OPTION_CLASSES] + [["name=true", "novalue"], ["a=b=c", "novalue"], ["name=text", "other=False"],
                                                    # the same NAME given twice: every argument is counted on its own, whatever follows it
                                                    ["name", "name=true"], ["name=true", "name"], ["a=b=c", "a=x"], ["name", "name"], ["name=text", "name=False"]]


# enumerated list shapes: every (paths, models) length pair with no options, every option set with
# one path and one model, and one large combination
SHAPES = [(p, m, []) for p in (1, 2) for m in (0, 1, 2)] + [(1, 1, o) for o in OPTION_SETS[1:]] + \
    [(2, 2, ["a=b=c", "novalue"])]


def setup(eng):
    eng.call_contracts.clear()
    eng.loop_specs.clear()
    G = {"attempted": [], "model_fail": [], "parse_called": 0, "list_called": 0}
    eng.c26 = G
    logging = LoggingStub()
    typing = ModuleStub("typing", {})
    typing.attrs.update({k: typing for k in ("List", "Optional", "Tuple", "Union")})
    tree_cls = VClass("Tree")
    tree_cls.constructor = lambda eng, c, a, k: VObj(c, dict(k))
    pym_ast = ModuleStub("pymoca.ast", {"Tree": tree_cls})
    pym = ModuleStub("pymoca", {"ast": pym_ast, "tree": ModuleStub("pymoca.tree", {}), "__version__": "0.0"})

    def transfer_model(eng, model_dir, model, options):
        ok = eng.fresh_bool("casadi_ok")
        G["attempted"].append(model)
        G["model_fail"].append(z3.Not(ok))
        if not eng.branch(ok):
            raise PyRaise(make_exc("Exception", "casadi failure"))
        return VObj(VClass("Model"))
    casadi_api = ModuleStub("casadi_api", {"transfer_model": stub(transfer_model)})
    eng.ext_modules.update({
        "argparse": ModuleStub("argparse", {}), "json": ModuleStub("json", {}), "logging": logging,
        "sys": ModuleStub("sys", {"stderr": None}), "time": ModuleStub("time", {"perf_counter": stub(lambda eng: eng.fresh_real("t"))}),
        "pathlib": ModuleStub("pathlib", {"Path": VClass("Path")}), "typing": typing,
        "pymoca": pym, "pymoca.ast": pym_ast, "pymoca.tree": pym.attrs["tree"],
        "pymoca.backends.casadi.api": casadi_api,
    })
    return G, logging


def namespace(eng, G):
    """an arbitrary argparse result"""
    verbose = eng.input("verbose", eng.fresh_int("verbose"))
    eng.assume(verbose >= 0)
    target = [None, "sympy", "casadi"][eng.choice(3)]
    eng.input("target", target)
    n_paths, n_models, opt_classes = SHAPES[eng.choice(len(SHAPES))]
    opt_classes = list(opt_classes)
    models = None if n_models == 0 else VList([eng.fresh_str("model%d" % i) for i in range(n_models)])
    eng.input("n_models", n_models)
    n_opts = len(opt_classes)
    eng.input("options", opt_classes)
    options = None if n_opts == 0 else VList(list(opt_classes))
    paths = []
    for i in range(n_paths):
        paths.append(PathStub(eng, "path%d" % i, exists=eng.input("path%d.exists" % i, eng.fresh_bool("exists%d" % i))))
    outdir = PathStub(eng, "outdir", is_dir=eng.input("outdir.is_dir", eng.fresh_bool("outdir_isdir")))
    ns = VObj(VClass("Namespace"), {"verbose": verbose, "target": target, "model": models, "option": options,
                                    "PATH": VList(paths), "outdir": outdir})
    usage = z3.If(outdir.is_dir_, 0, 1) + sum(z3.If(p.exists, 0, 1) for p in paths) + \
        sum(1 for c in opt_classes if c.count("=") != 1)       # one usage error per -O argument that is not NAME=VALUE
    return ns, models, usage, target


def callee_contracts(eng, G):
    nfiles = eng.input("n_files", eng.fresh_int("nfiles"))
    nerr = eng.input("n_parse_errors", eng.fresh_int("nerr"))
    eng.assume(z3.And(nfiles >= 0, nerr >= 0, nerr <= nfiles))
    G["nfiles"], G["nerr"] = nfiles, nerr

    def parse_all(eng, args, kwargs):
        G["parse_called"] += 1
        return (CountedList(nfiles), CountedList(nerr))

    def flatten_class(eng, args, kwargs):
        ok = eng.fresh_bool("flatten_ok")
        G["attempted"].append(args[1])
        G["model_fail"].append(z3.Not(ok))
        if not eng.branch(ok):
            raise PyRaise(make_exc("Exception", "flatten failure"))
        return VObj(VClass("Tree"))

    def translate(eng, args, kwargs):
        # contract of translate (its body is verified by h_translate): never raises, False iff failure
        ok = eng.fresh_bool("translate_ok")
        G["attempted"].append(args[1])
        G["model_fail"].append(z3.Not(ok))
        return ok

    def list_modelica_files(eng, args, kwargs):
        G["list_called"] += 1
        k = eng.choice(3)
        files = [PathStub(eng, "file%d" % i, stem=eng.input("file%d.stem" % i, eng.fresh_str("stem%d" % i))) for i in range(k)]
        G["files"] = files
        return VList(files)

    eng.call_contracts["parse_all"] = parse_all
    eng.call_contracts["flatten_class"] = flatten_class
    eng.call_contracts["translate"] = translate
    eng.call_contracts["list_modelica_files"] = list_modelica_files


def h_main(eng):
    G, logging = setup(eng)
    ns, models, usage, target = namespace(eng, G)
    callee_contracts(eng, G)
    eng.ext_modules["argparse"].attrs["ArgumentParser"] = stub(lambda eng, *a, **k: ParserStub(ns))
    f = eng.find_function(MOD, "main")
    try:
        result = eng.call(f, [VList(["<argv>"])], {})
    except PyRaise as e:
        exc = e.exc
        is_exit2 = isinstance(exc, VObj) and exc.cls.name == "SystemExit" and exc.fields.get("code") == 2
        eng.cover("main.exits")
        # (P) argument errors (here: -t without -m) give exit code 2; nothing else may escape main
        eng.prove("main.only_argument_errors_escape", z3.BoolVal(bool(is_exit2)), exc=repr(exc))
        eng.prove("main.exit2_only_for_target_without_model", z3.BoolVal(target is not None and models is None))
        return
    eng.cover("main.returns")
    eng.prove("main.exit2_when_target_without_model", z3.BoolVal(not (target is not None and models is None)))
    res = ops.to_arith(result)
    fails = sum((z3.If(c, 1, 0) for c in G["model_fail"]), z3.IntVal(0))
    n_req = len(models.items) if models is not None else 0
    # ---- (P) the status is usage errors, or parse errors, or failing models
    eng.prove("main.status.usage_errors", z3.Implies(usage > 0, res == usage))
    if target == "casadi":
        nofile = z3.IntVal(0) if G["list_called"] == 0 else z3.IntVal(1 if len(G.get("files", [])) == 0 else 0)
        # a requested model with no unique file is a failing model
        missing = z3.IntVal(0)
        if G.get("files") is not None and len(G.get("files", [])) > 0 and models is not None:
            for m in models.items:
                cnt = sum((z3.If(fl.stem == m, 1, 0) for fl in G["files"]), z3.IntVal(0))
                missing = missing + z3.If(cnt == 1, 0, 1)
        eng.prove("main.status.casadi", z3.Implies(usage == 0, res == nofile + missing + fails))
        eng.prove("main.casadi.every_locatable_model_attempted_once", z3.Implies(
            z3.And(usage == 0, nofile == 0), z3.IntVal(len(G["attempted"])) + missing == n_req))
    else:
        nofile = z3.If(G["nfiles"] == 0, 1, 0)
        parse = z3.If(G["nfiles"] == 0, 0, G["nerr"])
        eng.prove("main.status.parse_errors", z3.Implies(z3.And(usage == 0, nofile + parse > 0), res == nofile + parse))
        eng.prove("main.status.model_failures", z3.Implies(z3.And(usage == 0, nofile + parse == 0), res == fails))
        eng.prove("main.every_model_attempted_once_in_order", z3.Implies(
            z3.And(usage == 0, nofile + parse == 0),
            z3.BoolVal(len(G["attempted"]) == n_req and all(a is b for a, b in zip(G["attempted"], models.items if models else [])))))
    eng.prove("main.no_model_attempted_after_usage_error", z3.Implies(usage > 0, z3.BoolVal(len(G["attempted"]) == 0)))


def h_translate(eng):
    """translate(): returns False (never raises) when generation or writing fails, True otherwise"""
    G, logging = setup(eng)
    gen_outcome = eng.choice(4)
    excname = [None, "KeyError", "OSError", "Exception"][gen_outcome]
    eng.input("generate_raises", excname)

    def generate(eng, *a, **k):
        if excname is not None:
            raise PyRaise(make_exc(excname, "generate"))
        return eng.fresh_str("code")
    eng.ext_modules["pymoca.backends.sympy.generator"] = ModuleStub("sympy_gen", {"generate": stub(generate)})
    eng.c26_world = {"open_fails": eng.input("open_fails", eng.fresh_bool("open_fails")),
                     "write_fails": eng.input("write_fails", eng.fresh_bool("write_fails"))}
    f = eng.find_function(MOD, "translate")
    outdir = PathStub(eng, "outdir")
    try:
        r = eng.call(f, [VObj(VClass("Tree")), eng.fresh_str("model"), "sympy", VDict(), outdir], {})
    except PyRaise as e:
        eng.prove("translate.never_raises", False, exc=repr(e.exc))
        return
    finally:
        eng.c26_world = None
    eng.cover("translate.returns")
    eng.prove("translate.never_raises", True)
    failed = z3.Or(z3.BoolVal(excname is not None), eng.named_inputs["open_fails"],
                   z3.And(z3.Not(eng.named_inputs["open_fails"]), eng.named_inputs["write_fails"]))
    eng.prove("translate.false_iff_failure", ops.to_z3(eng.truth(r, sym=True)) == z3.Not(failed))


def h_parse_file(eng):
    """parse_file(): the parsed tree, or None exactly when the file cannot be read or parsed (syntax error, listener error); nothing
    escapes -- this is what makes parse_all's error list, and with it the exit status, count files with parse errors"""
    G, logging = setup(eng)
    outcome = ["tree", "syntax-error", "KeyError", "AttributeError", "OSError-on-open", "OSError-on-read", "UnicodeDecodeError"][eng.choice(7)]
    eng.input("outcome", outcome)
    verbose = eng.choice(3)
    logging.log.level = [30, 20, 10][verbose]
    tree = VObj(VClass("Tree"))
    tree.cls.attrs["to_json"] = _m(lambda eng, selfobj, *a: VDict())

    def parse(eng, text):
        if outcome == "syntax-error":
            return None
        if outcome in ("KeyError", "AttributeError"):
            raise PyRaise(make_exc(outcome, "listener"))
        return tree
    pm = ModuleStub("pymoca.parser", {"parse": stub(parse)})
    eng.ext_modules["pymoca.parser"] = pm
    eng.ext_modules["pymoca"].attrs["parser"] = pm
    eng.ext_modules["json"] = ModuleStub("json", {"dumps": stub(lambda eng, *a, **k: "json")})

    class F(Ext):
        def sym_getattr(self, eng, name):
            if name == "__enter__":
                def enter(eng):
                    return self
                return stub(enter)
            if name == "__exit__":
                return stub(lambda eng, *a: False)
            if name == "read":
                def read(eng):
                    if outcome == "OSError-on-read":
                        raise PyRaise(make_exc("OSError", "read"))
                    if outcome == "UnicodeDecodeError":
                        raise PyRaise(make_exc("UnicodeDecodeError", "codec"))
                    return "text"
                return stub(read)
            raise Unsupported("file.%s" % name)

    class P(PathStub):
        def sym_getattr(self, eng, name):
            if name == "open":
                def op(eng, *a, **k):
                    if outcome == "OSError-on-open":
                        raise PyRaise(make_exc("OSError", "open"))
                    return F()
                return stub(op)
            return PathStub.sym_getattr(self, eng, name)
    f = eng.find_function(MOD, "parse_file")
    try:
        r = eng.call(f, [P(eng, "a.mo")], {})
    except PyRaise as e:
        name = e.exc.cls.name if isinstance(e.exc, VObj) else "?"
        eng.cover("parsefile.raises")
        # a file that is not valid UTF-8 is a file with a parse error too; the statement counts it, it must not abort the run
        eng.prove("parsefile.no_exception_escapes_for_an_unreadable_or_unparsable_file", False, exc=name, outcome=outcome)
        return
    eng.cover("parsefile.returns")
    eng.prove("parsefile.no_exception_escapes_for_an_unreadable_or_unparsable_file", True)
    eng.prove("parsefile.none_exactly_when_the_file_has_a_parse_error", z3.BoolVal((r is tree) == (outcome == "tree") and (r is None) == (outcome != "tree")))


def h_parse_file_per_invocation(eng):
    """'For every invocation': what parse_file returns for a path is the file AS IT IS at that call -- a second invocation in the same
    process (the file edited in between, or not) gets a fresh parse, never an object or verdict remembered from an earlier call
    (parse_all merges the returned trees in place, so a remembered tree would also carry classes of the earlier invocation)."""
    G, logging = setup(eng)
    first = ["tree", "syntax-error"][eng.choice(2)]
    second = ["tree", "syntax-error"][eng.choice(2)]
    eng.input("file_at_first_invocation", first)
    eng.input("file_at_second_invocation", second)
    state = {"outcome": first, "parses": 0}
    trees = []

    def parse(eng, text):
        state["parses"] += 1
        if state["outcome"] == "syntax-error":
            return None
        t = VObj(VClass("Tree"))
        t.cls.attrs["to_json"] = _m(lambda eng, selfobj, *a: VDict())
        trees.append(t)
        return t
    pm = ModuleStub("pymoca.parser", {"parse": stub(parse)})
    eng.ext_modules["pymoca.parser"] = pm
    eng.ext_modules["pymoca"].attrs["parser"] = pm
    eng.ext_modules["json"] = ModuleStub("json", {"dumps": stub(lambda eng, *a, **k: "json")})

    class F(Ext):
        def sym_getattr(self, eng, name):
            if name == "__enter__":
                return stub(lambda eng: self)
            if name == "__exit__":
                return stub(lambda eng, *a: False)
            if name == "read":
                return stub(lambda eng: "text")
            raise Unsupported("file.%s" % name)

    class P(PathStub):
        def sym_getattr(self, eng, name):
            if name == "open":
                return stub(lambda eng, *a, **k: F())
            return PathStub.sym_getattr(self, eng, name)
    f = eng.find_function(MOD, "parse_file")
    try:
        r1 = eng.call(f, [P(eng, "a.mo")], {})
        state["outcome"] = second
        r2 = eng.call(f, [P(eng, "a.mo")], {})
    except PyRaise as e:
        eng.prove("parsefile.second_invocation_reflects_the_file_as_it_is_now", False, exc=repr(e.exc))
        return
    eng.cover("parsefile.twice")
    ok = ((r2 is None) == (second == "syntax-error")) and (r2 is None or (r2 is not r1 and any(r2 is t for t in trees)))
    eng.prove("parsefile.second_invocation_reflects_the_file_as_it_is_now", z3.BoolVal(bool(ok)), parses=state["parses"])


def _m(fn):
    fn._pyvc_method = True
    return fn


def h_flatten_class(eng):
    """flatten_class(): the result (or exception) of pymoca.tree.flatten for the dotted class name on the library tree"""
    G, logging = setup(eng)
    fails = bool(eng.choice(2))
    lib, flat = VObj(VClass("Tree")), VObj(VClass("Tree"))
    flat.cls.attrs["to_json"] = _m(lambda eng, selfobj, *a: VDict())
    seen = []

    def flatten(eng, tree, ref):
        seen.append((tree, ref))
        if fails:
            raise PyRaise(make_exc("ClassNotFoundError", "x"))
        return flat
    exc_class("ClassNotFoundError")
    cref = VClass("ComponentRef")
    cref.attrs["from_string"] = stub(lambda eng, s_: ("ref", s_))
    eng.ext_modules["pymoca"].attrs["tree"] = ModuleStub("pymoca.tree", {"flatten": stub(flatten)})
    eng.ext_modules["pymoca"].attrs["ast"] = ModuleStub("pymoca.ast", {"ComponentRef": cref, "Tree": VClass("Tree")})
    eng.ext_modules["json"] = ModuleStub("json", {"dumps": stub(lambda eng, *a, **k: "json")})
    f = eng.find_function(MOD, "flatten_class")
    name = eng.fresh_str("cls")
    try:
        r = eng.call(f, [lib, name], {})
        raised = False
    except PyRaise:
        r, raised = None, True
    eng.cover("flattenclass.done")
    eng.prove("flattenclass.outcome_is_flattens_outcome_for_this_class_on_this_library",
              z3.BoolVal(raised == fails and (fails or r is flat) and len(seen) == 1 and seen[0][0] is lib and seen[0][1][0] == "ref" and seen[0][1][1] is name))


def _parse_all(eng):
    from .C27 import h_compiler_file_loop
    return h_compiler_file_loop(eng)


HARNESSES = [("tools.compiler.main", h_main), ("tools.compiler.translate", h_translate), ("tools.compiler.parse_file", h_parse_file), ("tools.compiler.parse_file in two invocations of one process", h_parse_file_per_invocation),
             ("tools.compiler.flatten_class", h_flatten_class), ("tools.compiler.parse_all / list_modelica_files", _parse_all)]
EXPECTED_COVER = {"main.exits", "main.returns", "translate.returns", "parsefile.returns", "parsefile.twice", "flattenclass.done", "fileloop.compiler"}
BOUNDED = True
LEVEL = "proof"
TRUSTED = ["pyvc VC generator", "z3 5.1.0",
           "argparse: parse_args returns a namespace with the declared fields, argp.error raises SystemExit(2)",
           "contract of casadi transfer_model (outcome symbolic; a failure is an exception); parse_all / list_modelica_files / flatten_class / parse_file are verified against the contracts main is checked with"]
ASSUMPTIONS = [
    "list lengths are enumerated, not symbolic: 1-2 paths, 0-2 models, 0-2 options, 0-2 files in the casadi branch (loops unrolled; outcomes per element fully symbolic)",
    "option strings are enumerated by syntactic class (NAME=true, NAME=False, NAME=text, no '=', two '=')",
    "'each model succeeds or fails the same way whatever else is requested' is decided here only as: every requested model is attempted exactly once, in order, and contributes its own outcome; that an attempt does not change later attempts is C05",
]
DROPPED = ["logging output", "elapsed-time message formatting"]
EXPLANATION = "Whole-function symbolic execution of tools.compiler.main with ghost failure counters in the callee contracts."
MANIFEST = {
    "category": "proof",
    "text": "tools.compiler.main is executed symbolically against callee contracts with ghost counters: for every combination of path existence, output-directory validity, verbosity, file and parse-error counts and per-model outcomes, the returned status equals usage errors, else parse errors (or 1 for no files), else the number of failing models; only the argparse exit 2 escapes. translate() is verified never to raise; parse_file returns None exactly for a file that cannot be read, decoded or parsed and lets nothing escape; parse_all / list_modelica_files list every .mo file below the paths once, report exactly the files that failed and merge every parsed file once into the library; flatten_class is flatten's outcome for that class. A bounded replay through the real CLI on temp trees runs beside it. Option sets include one NAME given twice; usage errors are counted per -O argument by the statement's rule.",
    "note": "List lengths (paths, models, options, files) are enumerated up to 2 and option strings by syntactic class: the loops are unrolled, so the proof is complete for those lengths only; argparse and the callee contracts are assumed.",
    "technique": "contract-based deductive verification: whole-function symbolic execution of the real source, ghost counters in callee contracts, z3",
}
