"""C27 -- assembling a library from several files is order-independent.

Functions under contract (real source, whole functions, executed with the real pymoca.ast classes):
  Class._extend, Tree.extend, Tree._update_parent_refs / update_parent_refs, parser.file_to_tree's
  placeholder shape (an empty `package` per `within` component).
Abstract view of a class: (own content: symbols, imports, functions, extends, equations, ..., type;
children by name -> view).  Contract of self._extend(other): view(self') = merge(view(self), view(other))
where merge takes the union of children (recursively merged when present on both sides) and, for a class
present on both sides, the own content of the side that has it (a `within` placeholder has none).
Lemma (checked on the views): merge is commutative and associative when at most one side has own
content per class -- hence every file order gives the same tree.
Presence of every class / content item on either side is enumerated exhaustively over a two-level
name space; files of a three-way split are merged in all six orders.
"""
import itertools

import z3

from pyvc import ops
from pyvc.values import Ext, PyRaise, Unsupported, VBound, VClass, VDict, VList, VObj, stub

from .ast_common import AstFactory, base_modules

AST = "pymoca.ast"
# content fields of a class: these, plus EVERY other dict- or list-valued field the real Class constructor creates (discovered from
# the object it returns, see mk_class) -- whatever a class can hold has to survive the merge
CONTENT_DICTS = ["symbols", "imports", "functions"]
CONTENT_LISTS = ["extends", "equations", "initial_equations", "statements", "initial_statements"]


class Item(Ext):
    """an opaque content item (a symbol, an equation, ...)"""

    def __init__(self, label):
        self.label = label

    def __repr__(self):
        return self.label


def lab(v):
    """label of a content item: opaque items carry one; imports are the real nodes the parser stores (a ComponentRef for
    `import A.B.C;`, an ImportClause for `import A.*;` and `import S = A.B;`)"""
    if isinstance(v, Item):
        return v.label
    if isinstance(v, VObj) and v.cls.name == "ComponentRef":
        return "ref:" + str(v.fields.get("name"))
    if isinstance(v, VObj) and v.cls.name == "ImportClause":
        comps = v.fields.get("components")
        return "import-clause:%s:%s" % (v.fields.get("short_name"), [lab(x) for x in (comps.items if isinstance(comps, VList) else [])])
    return repr(v)


def view(c):
    """abstract view of a class object"""
    f = c.fields
    own = {d: tuple((k, lab(v)) for k, v in zip(f[d].keys, f[d].vals)) for d in CONTENT_DICTS}
    own.update({l: tuple(x.label for x in f[l].items) for l in CONTENT_LISTS})
    own["type"] = f["type"]
    own["comment"] = f["comment"]
    kids = {k: view(v) for k, v in zip(f["classes"].keys, f["classes"].vals)}
    return (own, kids)


def is_placeholder(own):
    return all(not own[d] for d in CONTENT_DICTS) and all(not own[l] for l in CONTENT_LISTS) and own["type"] in ("", "package") and not own["comment"]


def merge_view(a, b):
    """spec function: the merged view (a has priority where both declare something)"""
    oa, ka = a
    ob, kb = b
    own = {}
    for d in CONTENT_DICTS:
        keys = [k for k, _ in oa[d]]
        own[d] = tuple(oa[d]) + tuple((k, v) for k, v in ob[d] if k not in keys)
    for l in CONTENT_LISTS + ["comment"]:
        own[l] = oa[l] if oa[l] else ob[l]
    own["type"] = ob["type"] if oa["type"] in ("", "package") and ob["type"] else oa["type"]
    kids = {}
    for k in list(ka) + [k for k in kb if k not in ka]:
        if k in ka and k in kb:
            kids[k] = merge_view(ka[k], kb[k])
        else:
            kids[k] = ka[k] if k in ka else kb[k]
    return (own, kids)


def norm(v):
    own, kids = v
    return (tuple(sorted((k, tuple(sorted(x)) if isinstance(x, tuple) and k in CONTENT_DICTS else x) for k, x in own.items())),
            tuple(sorted((k, norm(x)) for k, x in kids.items())))


def parents_ok(c):
    for k in c.fields["classes"].vals:
        if k.fields.get("parent") is not c or not parents_ok(k):
            return False
    return True


def mk_class(A, name, typ, content, children):
    c = A.new("Class", name=name, type=typ)
    for k, v in c.fields.items():
        if isinstance(v, VDict) and k != "classes" and k not in CONTENT_DICTS:
            CONTENT_DICTS.append(k)
        if isinstance(v, VList) and k not in CONTENT_LISTS:
            CONTENT_LISTS.append(k)
    # a field this harness has no entry for is filled like `extends` (lists) / `symbols` (dicts)
    content = dict(content)
    for l in CONTENT_LISTS:
        content.setdefault(l, content.get("extends", []))
    for d in CONTENT_DICTS:
        if d != "imports":
            content.setdefault(d, content.get("symbols", []))
    for d in CONTENT_DICTS:
        for key in content.get(d, []):
            if d == "imports":
                # as the parser stores them: "*" -> the clause of the unqualified imports, "S=" -> a renaming clause under S,
                # any other key -> the reference to the imported class
                if key == "*":
                    item = A.new("ImportClause", components=VList([A.ref("Lib_%s" % name)]), unqualified=True)
                elif key.endswith("="):
                    key = key[:-1]
                    item = A.new("ImportClause", components=VList([A.ref("Lib.%s" % key)]), short_name=key)
                else:
                    item = A.ref("Lib.%s" % key)
            else:
                item = Item("%s.%s:%s" % (name, d, key))
            ops.setitem(A.eng, c.fields[d], key, item)
    for l in CONTENT_LISTS:
        for key in content.get(l, []):
            c.fields[l].items.append(Item("%s.%s:%s" % (name, l, key)))
    for ch in children:
        ops.setitem(A.eng, c.fields["classes"], ch.fields["name"], ch)
    return c


def mk_tree(A, children):
    t = A.new("Tree")
    for ch in children:
        ops.setitem(A.eng, t.fields["classes"], ch.fields["name"], ch)
    return t


def h_extend_contract(eng):
    """view(self') = merge(view(self), view(other)) for every presence pattern"""
    base_modules(eng)
    A = AstFactory(eng)
    eng.find_function(AST, "Class._extend")
    eng.find_function(AST, "Tree.extend")
    eng.find_function(AST, "Tree._update_parent_refs")
    # which side declares what: package P (real on one side, placeholder on the other, or on one side only)
    p_self = ["absent", "placeholder", "real"][eng.choice(3)]
    p_other = ["absent", "placeholder", "real"][eng.choice(3)]
    if p_self == "real" and p_other == "real":
        from pyvc.values import PathEnd
        raise PathEnd()        # the same package defined twice: outside "a split of one library"
    real_type = ["package", "class"][eng.choice(2)]                 # the enclosing class need not be declared `package`
    a_self, a_other = bool(eng.choice(2)), bool(eng.choice(2))     # model P.A on either side
    q_side = ["none", "self", "other", "both-placeholder-and-real"][eng.choice(4)]   # nested package P.Q
    eng.input("pattern", {"P in self": p_self, "P in other": p_other, "P.A in self": a_self, "P.A in other": a_other, "P.Q": q_side, "declared as": real_type})

    def package(side, kind):
        if kind == "absent":
            return None
        kids = []
        if (side == "self" and a_self) or (side == "other" and a_other):
            kids.append(mk_class(A, "A" if side == "self" else "A2" if a_self and a_other else "A", "model", {"symbols": ["x"], "equations": ["e"], "imports": ["*", "K"]}, []))
        if q_side == side or q_side == "both-placeholder-and-real":
            real_q = (q_side == side) or (side == "other")
            kids.append(mk_class(A, "Q", "package", {"symbols": ["g"]} if real_q else {}, [mk_class(A, "C_" + side, "model", {"symbols": ["z"]}, [])]))
        content = {"symbols": ["k"], "imports": ["I", "*", "S="], "extends": ["X"]} if kind == "real" else {}
        return mk_class(A, "P", real_type if kind == "real" else "package", content, kids)
    ps, po = package("self", p_self), package("other", p_other)
    other_top = mk_class(A, "Other", "model", {"symbols": ["o"]}, [])
    t_self = mk_tree(A, [c for c in [ps] if c is not None])
    t_other = mk_tree(A, [c for c in [po, other_top] if c is not None])
    v_self, v_other = view(t_self), view(t_other)
    eng.call(VBound(eng.find_function(AST, "Tree.extend"), t_self), [t_other], {})
    eng.cover("extend.done")
    got = view(t_self)
    want = merge_view(v_self, v_other)
    # (P) whole-view postcondition
    eng.prove("extend.view_is_merge_of_views", z3.BoolVal(norm(got) == norm(want)), got=repr(norm(got))[:300], want=repr(norm(want))[:300])
    # (P) own content of a class present on both sides is that of the non-placeholder side
    if ps is not None and po is not None:
        real = v_self[1]["P"][0] if p_self == "real" else v_other[1]["P"][0]
        gp = got[1]["P"][0]
        eng.prove("extend.own_content_of_nonplaceholder_side_kept", z3.BoolVal(all(sorted(gp[d]) == sorted(real[d]) for d in CONTENT_DICTS) and
                                                                                 all(gp[l] == real[l] for l in CONTENT_LISTS)))
    # (P) after extend every class's parent is its container
    eng.prove("extend.parents_are_containers", z3.BoolVal(parents_ok(t_self)))


FILES = {
    "pkg": lambda A: mk_tree(A, [mk_class(A, "P", "package", {"symbols": ["k"], "imports": ["*", "I"]}, [mk_class(A, "A", "model", {"symbols": ["x"], "equations": ["e1"], "imports": ["K", "*"]}, [])])]),
    "within-P": lambda A: mk_tree(A, [mk_class(A, "P", "package", {}, [mk_class(A, "B", "model", {"symbols": ["y"], "equations": ["e2"]}, [])])]),
    "within-P.Q": lambda A: mk_tree(A, [mk_class(A, "P", "package", {}, [mk_class(A, "Q", "package", {}, [mk_class(A, "C", "model", {"symbols": ["z"]}, [])])])]),
    "class-top": lambda A: mk_tree(A, [mk_class(A, "P", "class", {"symbols": ["w"]}, [mk_class(A, "T", "model", {"symbols": ["t"]}, [])])]),
    "Q-itself": lambda A: mk_tree(A, [mk_class(A, "P", "package", {}, [mk_class(A, "Q", "package", {"symbols": ["g"], "imports": ["J", "*", "S="]}, [])])]),
}
SPLITS = [("class-top", "within-P", "within-P.Q"), ("pkg", "within-P", "within-P.Q"), ("pkg", "within-P.Q", "Q-itself"), ("within-P", "Q-itself", "within-P.Q"), ("pkg", "within-P", "Q-itself")]


def h_order_independence(eng):
    """a library split into three files is merged in every order: the same tree every time"""
    base_modules(eng)
    A = AstFactory(eng)
    ext = eng.find_function(AST, "Tree.extend")
    split = SPLITS[eng.choice(len(SPLITS))]
    perms = list(itertools.permutations(split))
    order = perms[eng.choice(len(perms))]
    eng.input("file_order", list(order))
    trees = [FILES[n](A) for n in order]
    views = [view(t) for t in trees]
    root = trees[0]
    for t in trees[1:]:
        eng.call(VBound(ext, root), [t], {})
    eng.cover("order.done")
    # reference: the merge of the files in the canonical order of the split (spec function on views)
    ref_trees = [FILES[n](A) for n in split]
    want = view(ref_trees[0])
    for t in ref_trees[1:]:
        want = merge_view(want, view(t))
    eng.prove("order.every_file_order_gives_the_same_tree", z3.BoolVal(norm(view(root)) == norm(want)), order=list(order))
    eng.prove("order.parents_are_containers", z3.BoolVal(parents_ok(root)))
    # lemma on the views: merge is commutative / associative on these files
    folded = views[0]
    for v in views[1:]:
        folded = merge_view(folded, v)
    eng.prove("order.lemma.merge_of_views_is_order_independent", z3.BoolVal(norm(folded) == norm(want)))


def h_placeholder_shape(eng):
    """parser.file_to_tree: every `within` component becomes an empty package, the file's classes are
    attached to the innermost one, parents are set"""
    base_modules(eng)
    A = AstFactory(eng)
    from .api_common import ModuleStub
    eng.ext_modules["antlr4"] = ModuleStub("antlr4", {})
    eng.ext_modules["pymoca"] = ModuleStub("pymoca", {"ast": eng.load_module(AST)})
    depth = eng.choice(3)
    names = ["P", "Q"][:depth]
    cls = mk_class(A, "M", "model", {"symbols": ["x"]}, [])
    within = VList([_Within(names)]) if depth else VList([])
    f = VObj(VClass("ModelicaFile"), {"within": within, "classes": VDict([("M", cls)])})
    try:
        pm = eng.load_module("pymoca.parser")
        fn = eng.find_function("pymoca.parser", "file_to_tree")
        t = eng.call(fn, [f], {})
    except Unsupported as u:
        raise
    eng.cover("placeholder.done")
    cur, ok = t, True
    for n in names:
        kids = cur.fields["classes"]
        ok = ok and kids.keys == [n]
        if not ok:
            break
        cur = kids.vals[0]
        ok = ok and is_placeholder(view(cur)[0]) and cur.fields["type"] == "package"
    ok = ok and cur.fields["classes"].keys == ["M"] and cur.fields["classes"].vals[0] is cls
    eng.prove("placeholder.within_components_are_empty_packages", z3.BoolVal(bool(ok)))
    eng.prove("placeholder.parents_are_containers", z3.BoolVal(parents_ok(t)))


class _Within(Ext):
    def __init__(self, names):
        self.names = names

    def sym_getattr(self, eng, name):
        if name == "to_tuple":
            return stub(lambda eng: tuple(self.names))
        raise Unsupported("within.%s" % name)


# ------------------------------------------------------------------------------------------------ the two file loops
WALKS = [
    # folder -> list of (root, files) as os.walk yields them
    {"MODEL": [("MODEL", ["m.mo"])]},
    {"MODEL": [("MODEL", ["m.mo", "notes.txt", "p.mo"])]},
    {"MODEL": [("MODEL", ["package.mo"]), ("MODEL/Sub", ["a.mo", "b.mo", "readme"])]},
    {"MODEL": [("MODEL", ["m.mo"])], "LIB1": [("LIB1", ["l.mo"]), ("LIB1/x", ["k.mo"])], "LIB2": [("LIB2", [])]},
    {"MODEL": [("MODEL", [])], "LIB1": [("LIB1", ["only.mo", "z.mo.bak"])]},
]


class TextOf(Ext):
    def __init__(self, path):
        self.path = path


def h_compile_model_file_loop(eng):
    """api._compile_model: the tree handed to the generator is the fold of Tree.extend over the parse of EVERY *.mo file below the
    model folder and the library folders, each exactly once (with the order-independence of extend: the same library for any walk order)"""
    from . import api_common as AC
    w = AC.make_world(eng, with_db=False, minimal_env=True)
    AC.install(eng, w)
    walks = WALKS[eng.choice(len(WALKS))]
    eng.input("directory_walks", walks)
    order_rev = bool(eng.choice(2))     # os.walk / the file system give the files in an unspecified order
    os_mod = eng.ext_modules["os"]

    def walk(eng, folder, followlinks=False):
        lab = folder.label if isinstance(folder, AC.PathStr) else folder
        rows = walks.get(lab, [])
        rows = [(r, list(reversed(fs)) if order_rev else fs) for r, fs in rows]
        return VList([(AC.PathStr(r), VList([]), VList(list(fs))) for r, fs in rows])
    os_mod.attrs["walk"] = stub(walk)
    opened, parsed, extended = [], [], []

    class F(AC.FileCtx):
        def __init__(self, path):
            self.path = path

        def sym_getattr(self, eng, name):
            if name == "read":
                return stub(lambda eng: TextOf(self.path))
            return AC.FileCtx.sym_getattr(self, eng, name)

    def open_(eng, p, mode="r", **kw):
        opened.append(p.label)
        return F(p.label)
    eng.builtins["open"] = stub(open_)
    tree_cls = VClass("Tree")

    def ext_m(eng, selfobj, other):
        extended.append((selfobj, other))
    ext_m._pyvc_method = True
    tree_cls.attrs["extend"] = ext_m

    def parse(eng, text):
        t = VObj(tree_cls, {"file": text.path})
        parsed.append(t)
        return t
    eng.ext_modules["pymoca.parser"] = AC.ModuleStub("parser", {"parse": stub(parse)})
    eng.ext_modules["pymoca"].attrs["parser"] = eng.ext_modules["pymoca.parser"]
    handed = []
    model = VObj(VClass("Model"))
    for nme in ("check_balanced", "simplify", "_post_checks"):
        m_ = (lambda eng, selfobj, *a, **k: None)
        m_._pyvc_method = True
        model.cls.attrs[nme] = m_

    def generate(eng, tree, *a):
        handed.append(tree)
        return model
    eng.ext_modules["pymoca.backends.casadi.generator"] = AC.ModuleStub("generator", {"generate": stub(generate)})
    libs = [k for k in walks if k != "MODEL"]
    opts = VDict([("library_folders", VList([AC.PathStr(l) for l in libs])), ("check_balanced", False), ("verbose", False)])
    f = eng.find_function("pymoca.backends.casadi.api", "_compile_model")
    eng.call(f, [AC.PathStr("MODEL"), "M", opts], {})
    eng.cover("fileloop.api")
    want = sorted(r + "/" + n for rows in walks.values() for r, fs in rows for n in fs if n.endswith(".mo"))
    eng.prove("fileloop.api.every_mo_file_parsed_exactly_once", z3.BoolVal(sorted(opened) == want and sorted(t.fields["file"] for t in parsed) == want))
    ok = len(handed) == 1 and (not want and handed[0] is None or bool(want) and handed[0] is parsed[0])
    ok = ok and [o for s_, o in extended] == parsed[1:] and all(s_ is parsed[0] for s_, o in extended)
    eng.prove("fileloop.api.library_is_the_merge_of_all_parsed_files", z3.BoolVal(bool(ok)))


class PathObj(Ext):
    """pathlib.Path of the compiler tool: a file or a directory with a fixed recursive listing"""
    type_names = ("Path",)

    def __init__(self, label, kind, listing=()):
        self.label, self.kind, self.listing = label, kind, listing
        self.suffix = "." + label.rsplit(".", 1)[1] if "." in label.rsplit("/", 1)[-1] else ""

    def sym_getattr(self, eng, name):
        if name == "is_file":
            return stub(lambda eng: self.kind == "file")
        if name == "is_dir":
            return stub(lambda eng: self.kind == "dir")
        if name == "suffix":
            return self.suffix
        if name == "glob":
            def glob(eng, pat):
                if pat != "**/*.mo":
                    raise Unsupported("glob pattern %r" % pat)
                return VList([p for p in self.listing if p.label.endswith(".mo")])
            return stub(glob)
        # the rest of pathlib's pure-path interface, from the path text
        parts = [x for x in self.label.split("/") if x != ""]
        if name == "parts":
            return tuple(parts)
        if name == "name":
            return parts[-1] if parts else ""
        if name == "stem":
            nm = parts[-1] if parts else ""
            return nm.rsplit(".", 1)[0] if "." in nm[1:] else nm
        if name == "parent":
            return PathObj("/".join(parts[:-1]) or ".", "dir")
        if name == "parents":
            return VList([PathObj("/".join(parts[:k]) or ".", "dir") for k in range(len(parts) - 1, -1, -1)])
        if name == "relative_to":
            def rel(eng, other):
                o = other.label if isinstance(other, PathObj) else str(other)
                if self.label == o or self.label.startswith(o.rstrip("/") + "/"):
                    return PathObj(self.label[len(o.rstrip("/")) + 1:] or ".", self.kind)
                raise PyRaise(eng.make_exc("ValueError", "%r is not in the subpath of %r" % (self.label, o)))
            return stub(rel)
        if name in ("resolve", "absolute", "expanduser"):
            return stub(lambda eng, *a, **k: self)
        if name == "exists":
            return stub(lambda eng: self.kind != "none")
        if name == "as_posix":
            return stub(lambda eng: self.label)
        raise Unsupported("Path.%s" % name)

    def sym_binop(self, eng, op, other, reflected):
        if op in ("Div", "TrueDiv") and not reflected:
            return PathObj(self.label.rstrip("/") + "/" + (other.label if isinstance(other, PathObj) else str(other)), "file")
        raise Unsupported("path operator %s" % op)

    def __repr__(self):
        return self.label


PATH_SETS = [
    [("a.mo", "file")], [("a.mo", "file"), ("notes.txt", "file")], [("lib", "dir", ["lib/p.mo", "lib/sub/q.mo", "lib/readme.md"])],
    [("lib", "dir", ["lib/p.mo"]), ("b.mo", "file"), ("missing.mo", "none")], [("empty", "dir", [])],
    [("lib", "dir", ["lib/p.mo", "lib/q.mo"]), ("lib2", "dir", ["lib2/r.mo"])],
    # a directory that lies below a dot directory (~/.local/share/..., .build/models), and a tree that contains a dot file
    [("home/.ws/lib", "dir", ["home/.ws/lib/p.mo", "home/.ws/lib/sub/q.mo"])],
    [("lib", "dir", ["lib/p.mo", "lib/.q.mo"]), ("../other/r.mo", "file")],
]


def h_compiler_file_loop(eng):
    """tools.compiler.list_modelica_files / parse_all: every Modelica file below the given paths is parsed once and merged into the
    one library tree; files that fail to parse are reported, never merged"""
    base_modules(eng)
    from .api_common import ModuleStub
    eng.ext_modules["argparse"] = ModuleStub("argparse", {})
    eng.ext_modules["time"] = ModuleStub("time", {})
    eng.ext_modules["pathlib"] = ModuleStub("pathlib", {"Path": VClass("Path")})
    eng.ext_modules["__future__"] = ModuleStub("__future__", {"generators": None})
    from pyvc.values import NoOp
    eng.ext_modules["logging"] = ModuleStub("logging", {"getLogger": stub(lambda eng, *a: NoOp()), "basicConfig": stub(lambda eng, *a, **k: None), "DEBUG": 10, "INFO": 20})
    tree_cls = VClass("Tree")
    extended = []

    def ext_m(eng, selfobj, other):
        extended.append((selfobj, other))
    ext_m._pyvc_method = True
    tree_cls.attrs["extend"] = ext_m
    tree_cls.constructor = lambda eng, c, a, k: VObj(c, {"name": k.get("name")})
    past = ModuleStub("pymoca.ast", {"Tree": tree_cls})
    eng.ext_modules["pymoca"] = ModuleStub("pymoca", {"ast": past, "tree": ModuleStub("pymoca.tree", {}), "__version__": "1"})
    eng.ext_modules["pymoca.ast"] = past
    eng.ext_modules["pymoca.tree"] = eng.ext_modules["pymoca"].attrs["tree"]
    spec = PATH_SETS[eng.choice(len(PATH_SETS))]
    eng.input("paths", [list(x) for x in spec])
    paths, all_files = [], []
    for item in spec:
        if item[1] == "dir":
            listing = [PathObj(l, "file") for l in item[2]]
            paths.append(PathObj(item[0], "dir", listing))
            all_files += [p for p in listing if p.label.endswith(".mo")]
        else:
            p = PathObj(item[0], item[1])
            paths.append(p)
            if item[1] == "file" and item[0].endswith(".mo"):
                all_files.append(p)
    outcome = {}
    trees = {}

    def parse_file(eng, args, kw):
        p = args[0]
        if p.label not in outcome:
            outcome[p.label] = eng.choice(2)      # 0: parses, 1: fails (parse_file returns None)
        if outcome[p.label]:
            return None
        trees[p.label] = VObj(tree_cls, {"file": p.label})
        return trees[p.label]
    eng.call_contracts["parse_file"] = parse_file
    given = bool(eng.choice(2))
    lib = VObj(tree_cls, {"name": "given"}) if given else None
    f = eng.find_function("tools.compiler", "parse_all")
    eng.find_function("tools.compiler", "list_modelica_files")
    files, errors = eng.call(f, [VList(paths)] + ([lib] if given else []), {})
    eng.cover("fileloop.compiler")
    files, errors = eng.iterate(files), eng.iterate(errors)
    eng.input("parse_failures", sorted(k for k, v in outcome.items() if v))
    eng.prove("fileloop.compiler.every_mo_file_below_the_paths_listed_once", z3.BoolVal(len(files) == len(all_files) and all(a is b for a, b in zip(files, all_files))))
    bad = [p for p in all_files if outcome.get(p.label)]
    eng.prove("fileloop.compiler.error_files_are_exactly_the_files_that_failed_to_parse", z3.BoolVal(len(errors) == len(bad) and all(a is b for a, b in zip(errors, bad))))
    never_parsed = [p.label for p in all_files if p.label not in outcome]
    eng.prove("fileloop.compiler.every_listed_file_is_parsed", z3.BoolVal(not never_parsed), never_parsed=never_parsed)
    good = [trees[p.label] for p in all_files if p.label in trees]
    ok = [o for s_, o in extended] == good and len({id(s_) for s_, o in extended}) <= 1 and (not given or all(s_ is lib for s_, o in extended))
    eng.prove("fileloop.compiler.every_parsed_file_merged_once_into_the_library", z3.BoolVal(bool(ok)))


HARNESSES = [("ast.Class._extend / Tree.extend", h_extend_contract), ("Tree.extend over file orders", h_order_independence),
             ("parser.file_to_tree", h_placeholder_shape), ("api._compile_model: file loop", h_compile_model_file_loop),
             ("tools.compiler.parse_all / list_modelica_files: file loop", h_compiler_file_loop)]
EXPECTED_COVER = {"extend.done", "order.done", "placeholder.done", "fileloop.api", "fileloop.compiler"}
BOUNDED = True
LEVEL = "proof"
TRUSTED = ["pyvc VC generator and its model of dict / list / objects", "Python dict insertion order (children are compared as sets: the order of classes in a package is not part of the flattened model)",
           "os.walk / Path.glob give the files in an unspecified order: every order is covered by the order-independence obligations"]
ASSUMPTIONS = [
    "name space enumerated: a package P with optional model A on either side, optional nested package Q (real / placeholder) with a model; every presence pattern is executed; three-file splits (4 of them) in all 6 orders",
    "at most one file declares the own content of a given class (a split of ONE library); two real definitions of the same class are outside",
    "that equal trees flatten to equal models is flatten being a function of the tree (C05)",
]
EXPLANATION = "Whole-view contract of _extend / extend on the real ast classes, all presence patterns and file orders."
MANIFEST = {
    "category": "proof",
    "text": "Class._extend / Tree.extend are executed with the real pymoca.ast classes for every presence pattern of a two-level name space (package real / placeholder / absent on either side, models and a nested package on either side): the resulting tree's abstract view equals the spec function merge(view(self), view(other)), the own content of a class present on both sides is that of the non-placeholder side, and every class's parent is its container. Three-file splits are merged in all six orders and give the same view; file_to_tree's placeholders are verified to be empty packages. The two file loops (api._compile_model over os.walk of the model and library folders, tools.compiler.parse_all / list_modelica_files over files and directory trees) parse every *.mo file exactly once, in either listing order, and fold Tree.extend over all parsed files into one library. A bounded replay flattens real split libraries in every file order. The content fields are discovered from the real Class constructor: every dict- or list-valued field has to survive the merge.",
    "note": "Name space and splits enumerated (exhaustive within them), contents opaque; one real definition per class; equality of flattened models from equal trees rests on C05.",
    "technique": "contract-based deductive verification: whole-view postcondition against a spec merge function, real ast classes executed symbolically over all presence patterns and orders",
}
