#!/bin/bash
# usage: confirm_seed.sh <ID> [name]  -- confirms a sub-agent's seeded defect in its scratch worktree and
# stores it under /verif/seeded/<name>/ ; prints a one-line verdict.
ID=$1; NAME=${2:-$1}; WT=/tmp/wt/$NAME
cd $WT || exit 2
cp -r _seed /tmp/_seed_$NAME
git checkout -q -- src tools
PYTHONPATH=$WT/src /venv/bin/python $WT/_seed/demo.py >/tmp/_seed_$NAME/demo_clean.log 2>&1; CLEAN=$?
git apply /tmp/_seed_$NAME/patch.diff || { echo "$NAME: patch does not apply"; exit 2; }
PYTHONPATH=$WT/src /venv/bin/python $WT/_seed/demo.py >/tmp/_seed_$NAME/demo_mut.log 2>&1; MUT=$?
PYTHONPATH=$WT/src /venv/bin/python -m pytest -q -p no:cacheprovider --timeout=900 test --junitxml=/tmp/_seed_$NAME/junit.xml >/tmp/_seed_$NAME/tests.log 2>&1
MISSING=$(python3 - <<PY
import json,xml.etree.ElementTree as ET
base=set(json.load(open('/root/.vp/BASELINE.json'))['stable_pass'])
t=ET.parse('/tmp/_seed_$NAME/junit.xml')
ok=set()
for tc in t.iter('testcase'):
    if not any(c.tag in('failure','error','skipped') for c in tc):
        ok.add(tc.get('classname')+'::'+tc.get('name'))
print(len(base-ok))
PY
)
echo "$NAME: demo_clean=$CLEAN demo_mutated=$MUT baseline_tests_missing=$MISSING"
if [ "$CLEAN" = 0 ] && [ "$MUT" = 1 ] && [ "$MISSING" = 0 ]; then
  mkdir -p /verif/seeded/$NAME
  cp /tmp/_seed_$NAME/patch.diff /tmp/_seed_$NAME/demo.py /verif/seeded/$NAME/
  python3 - <<PY
import json
m=json.load(open('/tmp/_seed_$NAME/meta.json'))
m['property']='$ID'
m['confirmed']={'demo_exit_unchanged':0,'demo_exit_with_patch':1,'stable_tests_missing_with_patch':0,
 'how':'tools/confirm_seed.sh: demo.py on the scratch worktree with and without patch.diff; full pytest suite with the patch compared with BASELINE.json stable_pass'}
json.dump(m,open('/verif/seeded/$NAME/meta.json','w'),indent=1)
PY
  echo "$NAME: KEPT"
fi
rm -rf /tmp/_seed_$NAME
